(* C02 — model edits do exactly what they document; cross-references stay consistent.
   This file only states the property theorems and prints their assumptions. *)
From Coq Require Import ZArith QArith Qcanon List Bool.
From Cobra.Core Require Import Model Inv Preserve RestoreBase RestoreOps Restore.
Import ListNotations.
Open Scope Z_scope.

(* consistency, spelled out: a reaction of the model lists a metabolite iff that metabolite (which is then
   in the model) lists the reaction (which is then in the model); no zero coefficient is "listed".      *)
Theorem C02_wf_meaning : forall s, WF s ->
  (forall r m, rin s r = true -> sto s r m <> q0 -> min s m = true /\ back s m r = true) /\
  (forall m r, back s m r = true -> min s m = true /\ rin s r = true /\ sto s r m <> q0).
Proof. intros s H. exact H. Qed.
Print Assumptions C02_wf_meaning.

Theorem C02_wf_step : forall s o, Inv s -> op_ok s o -> Inv (fst (step s o)) /\ WF (fst (step s o)).
Proof. intros s o HI Hok. pose proof (step_Inv s o HI Hok) as H. split; [exact H|apply Inv_WF, H]. Qed.
Print Assumptions C02_wf_step.

Fixpoint ok_run (s : st) (ops : list op) : Prop :=
  match ops with [] => True | o :: ops' => op_ok s o /\ ok_run (fst (step s o)) ops' end.
Theorem C02_wf_history : forall ops rs ms, ok_run (init_u rs ms) ops -> WF (run ops (init_u rs ms)).
Proof.
  intros ops rs ms. generalize (init_Inv rs ms). generalize (init_u rs ms).
  induction ops as [|o ops IH]; intros s HI Hok; cbn [run fold_left ok_run] in *.
  - apply Inv_WF, HI.
  - destruct Hok as [H1 H2]. apply (IH (fst (step s o))); [apply step_Inv; assumption|exact H2].
Qed.
Print Assumptions C02_wf_history.

Theorem C02_wf_with_contexts : forall l s, Inv s -> V s -> ok_items s l -> WF (run_items s l).
Proof.
  intros l s HI HV Hok.
  assert (Hl : Forall good l) by (apply Forall_forall; intros i _; apply all_good).
  destruct (good_list l Hl s HI HV Hok) as [_ [H _]]. apply Inv_WF, H.
Qed.
Print Assumptions C02_wf_with_contexts.

(* ---- documented effect of each edit, and nothing else ---- *)

(* reaction.bounds = (l, u): both bounds set, or ValueError and nothing changed; no other content touched *)
Theorem C02_set_bounds_effect : forall s r l u,
  let s' := fst (set_bounds r l u s) in
  (eb_gt l u = false -> lb s' r = l /\ ub s' r = u) /\
  (eb_gt l u = true -> snd (set_bounds r l u s) = RaiseValueError \/ (lb s r = l /\ ub s r = u)) /\
  (eb_gt l u = true -> lb s' = lb s /\ ub s' = ub s) /\
  (forall r', r' <> r -> lb s' r' = lb s r' /\ ub s' r' = ub s r') /\
  rin s' = rin s /\ sto s' = sto s /\ min s' = min s /\ back s' = back s.
Proof.
  intros s r l u. cbn zeta. unfold set_bounds.
  destruct (rctx s r && eb_eqb (lb s r) l && eb_eqb (ub s r) u) eqn:Eq.
  - apply andb_true_iff in Eq as [Eq E2]. apply andb_true_iff in Eq as [_ E1].
    apply eb_eqb_true in E1, E2. cbn [fst snd]. repeat split; auto.
  - destruct (eb_gt l u) eqn:Eg; cbn [fst snd].
    + repeat split; try discriminate; auto; destruct (rctx s r); recs; reflexivity.
    + rewrite raw_set_bounds_rsb. unfold rsb. destruct (Model.split_bounds l u) as [[? ?] [? ?]]. cbn.
      repeat split; try discriminate; intros; rewrite ?upd_same, ?upd_other by assumption;
        destruct (rctx s r); recs; reflexivity.
Qed.
Print Assumptions C02_set_bounds_effect.

(* reaction.add_metabolites(l, combine): listed coefficients are added (combine) or replaced; a metabolite
   new to the model joins it; every other reaction, every bound and the membership of reactions unchanged *)
Theorem C02_add_metabolites_effect : forall s r l combine rev,
  let s' := fst (add_st r l combine rev s) in
  (forall m, sto s' r m = match assoc_q m l with
                          | Some c => if combine then (sto s r m + c)%Qc else c
                          | None => sto s r m end) /\
  (forall r', r' <> r -> sto s' r' = sto s r') /\
  rin s' = rin s /\ lb s' = lb s /\ ub s' = ub s /\
  (forall m, min s' m = min s m || (rin s r && memz m (news_of s r l))).
Proof.
  intros s r l combine rev. cbn zeta. unfold add_st.
  match goal with |- context [if ?c then _ else _] => destruct c end; [destruct combine|]; cbn [fst]; recs;
    (destruct (rin s r); [unfold model_add_mets; cbn; recs; cbn|cbn]);
    repeat split; intros; rewrite ?upd_same, ?upd_other by assumption; unfold st_after, new_coef;
      try reflexivity; try (destruct (assoc_q m l); reflexivity); rewrite ?orb_false_r; reflexivity.
Qed.
Print Assumptions C02_add_metabolites_effect.

(* model.add_reactions([r]): the reaction joins with its own stoichiometry and bounds; the metabolites it
   lists are in the model afterwards; no other reaction changes                                         *)
Theorem C02_add_reactions_effect : forall s r, rin s r = false ->
  let s' := add_rxn r s in
  rin s' = upd (rin s) r true /\ sto s' = sto s /\ lb s' = lb s /\ ub s' = ub s /\
  (forall m, min s' m = min s m || negb (isz (sto s r m))).
Proof.
  intros s r Hr. cbn zeta. unfold add_rxn. rewrite Hr. recs. unfold add_rxn_content.
  destruct (Model.split_bounds (lb s r) (ub s r)) as [[? ?] [? ?]]. cbn. repeat split.
Qed.
Print Assumptions C02_add_reactions_effect.

(* model.remove_reactions([r], remove_orphans): the reaction leaves; with remove_orphans exactly the
   metabolites it listed that no other reaction lists leave too; nothing else changes                  *)
Theorem C02_remove_reactions_effect : forall s r orphans, rin s r = true ->
  let s' := remove_rxn r orphans s in
  rin s' = upd (rin s) r false /\ sto s' = sto s /\ lb s' = lb s /\ ub s' = ub s /\
  (forall m, min s' m = min s m && negb (orphans && orphaned s r m)) /\
  (forall m r', r' <> r -> back s' m r' = back s m r').
Proof.
  intros s r orphans Hr. cbn zeta. unfold remove_rxn. rewrite Hr. cbn [negb]. recs. unfold remove_rxn_content. cbn.
  repeat split. intros m r' Hne. destruct (Z.eqb_spec r' r); [contradiction|reflexivity].
Qed.
Print Assumptions C02_remove_reactions_effect.

(* model.remove_metabolites([m]): non-destructive - every reaction loses the metabolite and stays;
   destructive - every reaction listing it leaves the model                                            *)
Theorem C02_remove_metabolites_effect : forall s m, min s m = true ->
  (let s' := remove_met_nd m s in
   min s' = upd (min s) m false /\ rin s' = rin s /\
   (forall r m', sto s' r m' = if (m' =? m) && back s m r then q0 else sto s r m')) /\
  (let s' := remove_met_d m s in
   min s' = upd (min s) m false /\ sto s' = sto s /\
   (forall r, rin s' r = rin s r && negb (back s m r && rin s r))).
Proof.
  intros s m Hm. cbn zeta. unfold remove_met_nd, remove_met_d. rewrite Hm. cbn [negb]. recs.
  unfold remove_met_nd_content, remove_met_d_content. cbn. repeat split.
Qed.
Print Assumptions C02_remove_metabolites_effect.

(* reaction *= c: every coefficient scaled; for c < 0 the bounds are swapped and negated *)
Theorem C02_imul_effect : forall s r c,
  let s' := imul r c s in
  (forall m, sto s' r m = (sto s r m * c)%Qc) /\ (forall r', r' <> r -> sto s' r' = sto s r') /\ rin s' = rin s.
Proof.
  intros s r c. cbn zeta. unfold imul.
  set (s1 := if qlt c q0 then fst (set_bounds r (eb_opp (ub s r)) (eb_opp (lb s r)) s) else s).
  assert (F1 : rin s1 = rin s /\ sto s1 = sto s).
  { unfold s1. destruct (qlt c q0); [apply set_bounds_frame|split; reflexivity]. }
  destruct F1 as [Fr Fs].
  match goal with |- context [if rctx ?x r then _ else _] => set (s3 := x) end.
  assert (Hp : forall x, sto (populate r x) = sto x /\ rin (populate r x) = rin x).
  { intros x. unfold populate, update_variable_bounds. destruct (rin x r); [|split; reflexivity].
    destruct (Model.split_bounds _ _) as [[? ?] [? ?]]. split; reflexivity. }
  assert (H3 : sto s3 = upd (sto s) r (fun m => (sto s r m * c)%Qc) /\ rin s3 = rin s).
  { unfold s3. cbn [rin set_sto].
    destruct (rin s1 r); [destruct (Hp (set_sto s1 (upd (sto s1) r (fun m => (sto s r m * c)%Qc)))) as [P1 P2]; rewrite P1, P2|];
      cbn; rewrite Fs, Fr; split; reflexivity. }
  destruct H3 as [Hs Hr].
  destruct (rctx s3 r); recs; rewrite Hs, Hr; repeat split; intros; rewrite ?upd_same, ?upd_other by assumption; reflexivity.
Qed.
Print Assumptions C02_imul_effect.

(* ============================ kernel II: gene bookkeeping (coq/theories/Genes) ============================
   model.genes, reaction._genes, gene._reaction, gene._model, gene identifiers and rules under
   gene_reaction_rule / gpr setters, add_reactions, remove_reactions(remove_orphans), remove_genes,
   rename_genes and repair.  The names of the two kernels overlap, hence the module.                        *)
From Cobra.Genes Require Model Inv Proofs Effects Examples.
Module GenesKernel.
Import Cobra.Genes.Model Cobra.Genes.Inv Cobra.Genes.Proofs Cobra.Genes.Effects Cobra.Genes.Examples.

(* the gene clauses of the property, spelled out *)
Theorem C02_genes_meaning : forall s, GInv s ->
  (forall r g, rin s r = true -> In g (rgenes s r) ->
     In g (glist s) /\ gback s g r = true /\ gmod s g = true /\ lookup s (gid s g) = Some g) /\
  (forall g r, In g (glist s) -> gback s g r = true -> rin s r = true /\ In g (rgenes s r)) /\
  (forall r, rin s r = true -> forall i, In i (map (gid s) (rgenes s r)) <-> In i (genes_of (rule s r))) /\
  NoDup (map (gid s) (glist s)) /\
  (forall g, In g (glist s) -> gmod s g = true /\ lookup s (gid s g) = Some g).
Proof. exact GInv_meaning. Qed.
Print Assumptions C02_genes_meaning.

Theorem C02_genes_init : forall rs, GInv (init rs).
Proof. exact init_GInv. Qed.
Print Assumptions C02_genes_init.

Theorem C02_genes_step : forall s o, GInv s -> op_ok s o -> GInv (fst (step s o)).
Proof. exact step_GInv. Qed.
Print Assumptions C02_genes_step.

Theorem C02_genes_history : forall ops rs, Proofs.ok_run (init rs) ops -> GInv (run ops (init rs)).
Proof. intros ops rs H. apply run_GInv; [apply init_GInv|exact H]. Qed.
Print Assumptions C02_genes_history.

Theorem C02_genes_universe : forall s o, rids (fst (step s o)) = rids s.
Proof. exact step_rids. Qed.
Print Assumptions C02_genes_universe.

(* non-vacuity: a history using every operation (merging renames, unknown keys, gene removal that removes
   no / some reactions, orphan removal, an empty rule, repair) meets the conditions and ends non-trivially *)
Example C02_genes_history_nonvacuous : Proofs.ok_run (init [0; 1; 2]) hist /\
  (let s := run hist (init [0; 1; 2]) in
   map (gid s) (glist s) = [5; 3] /\ map (rin s) [0; 1; 2] = [true; true; true] /\
   rule s 0 = Some (TBool true [g 5; g 5]) /\ map (gid s) (rgenes s 0) = [5]).
Proof. exact (conj hist_ok hist_nontrivial). Qed.
Print Assumptions C02_genes_history_nonvacuous.

(* rename_genes as implemented breaks the invariant when a value of the dictionary is also another key
   (model and implementation agree on this: known finding C02-rename-genes-chain) *)
Theorem C02_genes_rename_chain_refuted :
  GInv swap_state /\ NoDup (keys [(0, 1); (1, 0)]) /\ ~ GInv (rename_genes [(0, 1); (1, 0)] swap_state).
Proof. exact rename_swap_refuted. Qed.
Print Assumptions C02_genes_rename_chain_refuted.

(* the proposed repair (fixes/rename-genes-chain.patch: a gene marked for removal goes only if no reaction lists it
   after the repair) keeps the invariant for every dictionary *)
Theorem C02_genes_rename_fixed : forall d s, GInv s -> GInv (rename_genes_fixed d s).
Proof. exact rename_genes_fixed_inv. Qed.
Print Assumptions C02_genes_rename_fixed.

(* ---- documented effect of each gene edit, and nothing else ---- *)
Theorem C02_genes_set_rule_effect : forall r t s, GInv s ->
  let s' := set_rule r t s in
  rule s' = upd (rule s) r t /\ rin s' = rin s /\
  (forall r', r' <> r -> rgenes s' r' = rgenes s r') /\
  (forall g r', In g (glist s) -> r' <> r -> gback s' g r' = gback s g r') /\
  (forall g, In g (glist s) -> In g (glist s') /\ gid s' g = gid s g) /\
  (forall g, In g (glist s') -> In g (glist s) \/ nextg s <= g) /\
  (rin s r = false -> glist s' = glist s).
Proof. exact set_rule_effect. Qed.
Print Assumptions C02_genes_set_rule_effect.

Theorem C02_genes_add_reactions_effect : forall r s, GInv s -> In r (rids s) -> rin s r = false ->
  let s' := add_rxn r s in
  rin s' = upd (rin s) r true /\ rule s' = rule s /\
  (forall r', r' <> r -> rgenes s' r' = rgenes s r') /\
  (forall g r', In g (glist s) -> r' <> r -> gback s' g r' = gback s g r') /\
  (forall g, In g (glist s) -> In g (glist s') /\ gid s' g = gid s g) /\
  (forall g, In g (glist s') -> In g (glist s) \/ nextg s <= g).
Proof. exact add_rxn_effect. Qed.
Print Assumptions C02_genes_add_reactions_effect.

Theorem C02_genes_remove_reactions_effect : forall r orph s, GInv s -> rin s r = true ->
  let s' := remove_rxn r orph s in
  (forall r', rin s' r' = rin s r' && negb (r' =? r)) /\ rule s' = rule s /\ rgenes s' = rgenes s /\ gid s' = gid s /\
  (forall g, In g (glist s') -> In g (glist s)) /\
  (forall g, In g (glist s) -> In g (glist s') \/ (orph = true /\ In g (rgenes s r))) /\
  GInv s'.
Proof. exact remove_rxn_effect. Qed.
Print Assumptions C02_genes_remove_reactions_effect.

Theorem C02_genes_remove_genes_effect : forall l rr s,
  (lookup_all s l = None -> remove_genes l rr s = (s, RaiseKeyError)) /\
  (forall gs, GInv s -> lookup_all s l = Some gs ->
     let K := fun i => memz i l in
     let s' := fst (remove_genes l rr s) in
     snd (remove_genes l rr s) = Ok /\
     (forall r, rin s' r = rin s r && negb (memz r (filter (is_target s K rr) (model_rxns s)))) /\
     (forall r, rule s' r = if memz r (filter (is_revisit s K rr) (model_rxns s)) then remove_rule K (rule s r) else rule s r) /\
     (forall g, In g gs -> ~ In g (glist s')) /\
     (forall g, In g (glist s) -> ~ In g gs -> In g (glist s') /\ gid s' g = gid s g)).
Proof.
  intros l rr s. split; [apply remove_genes_unknown|]. intros gs H1 H2. exact (remove_genes_effect l rr s gs H1 H2).
Qed.
Print Assumptions C02_genes_remove_genes_effect.

Theorem C02_genes_rename_genes_effect : forall d s, GInv s -> NoDup (keys d) -> no_chain d = true ->
  let s' := rename_genes d s in
  rin s' = rin s /\
  (forall r, rin s r = true -> rule s' r = rename_rule d (rule s r)) /\
  (forall r, rin s r = false -> rule s' r = rule s r) /\
  GInv s'.
Proof.
  intros d s H1 H2 H3. destruct (rename_genes_effect d s H1 H2 H3) as [A [B C]].
  split; [exact A|]. split; [exact B|]. split; [exact C|]. exact (rename_genes_inv d s H1 H2 H3).
Qed.
Print Assumptions C02_genes_rename_genes_effect.

Theorem C02_genes_repair_effect : forall s, GInv s ->
  rin (repair s) = rin s /\ rule (repair s) = rule s /\
  (forall g, In g (glist s) -> In g (glist (repair s)) /\ gid (repair s) g = gid s g).
Proof. exact repair_effect. Qed.
Print Assumptions C02_genes_repair_effect.
End GenesKernel.

(* ================= kernel III: groups and identifier changes (coq/theories/Groups) =================
   The clauses of C02 about groups and identifiers -- identifiers unique in every DictList, every listed object
   belongs to the model and is the one found by looking up its identifier, every member of a group of the model is
   an object of the model (no dangling member) -- are an invariant of a kernel of group edits (Group.add_members /
   remove_members / kind, Model.add_groups / remove_groups), of what remove_reactions / remove_metabolites /
   remove_genes do to membership, and of the identifier setter of reactions, metabolites, genes and groups.
   The theorems are about the repaired code (variant `vfix`, fixes/groups-*.patch, fixes/object-id-*.patch);
   for the code as found three refutations are proved below (the check sees the same on the real objects). *)
From Cobra.Groups Require Model Inv Proofs Effects Examples.
Module GroupsKernel.
Import Cobra.Groups.Model Cobra.Groups.Inv Cobra.Groups.Proofs Cobra.Groups.Effects Cobra.Groups.Examples.

Theorem C02_groups_meaning : forall s, Inv s ->
  (forall c, NoDup (ids s c) /\ NoDup (lst s c)) /\
  (forall c x, In x (lst s c) -> omod s c x = true /\ lookup s c (oid s c x) = Some x) /\
  (forall g c x, In g (lst s CP) -> In (c, x) (members s g) ->
     In x (lst s c) /\ omod s c x = true /\ lookup s c (oid s c x) = Some x) /\
  (forall y g, In g (assoc_groups s y) <-> In g (lst s CP) /\ In y (members s g)).
Proof. exact Inv_meaning. Qed.
Print Assumptions C02_groups_meaning.

Theorem C02_groups_init : forall rs ms gs idr idm idg idp sto0 mb0 rg0 gb0,
  NoDup (map (fun x => assoc x idr x) rs) -> NoDup (map (fun x => assoc x idm x) ms) ->
  NoDup (map (fun x => assoc x idg x) gs) ->
  Inv (init rs ms gs idr idm idg idp sto0 mb0 rg0 gb0).
Proof. exact init_Inv. Qed.
Print Assumptions C02_groups_init.

Theorem C02_groups_step : forall s o, Inv s -> op_ok s o -> Inv (fst (step vfix s o)).
Proof. exact step_Inv. Qed.
Print Assumptions C02_groups_step.

Theorem C02_groups_history : forall ops s, Inv s -> Proofs.ok_run s ops -> Inv (run vfix ops s).
Proof. exact run_Inv. Qed.
Print Assumptions C02_groups_history.

(* non-vacuity: a history using every operation (objects brought in by add_groups, refused identifiers, orphan and
   destructive removal, nested groups) meets the conditions and ends non-trivially *)
Example C02_groups_history_nonvacuous : Proofs.ok_run s0 hist /\
  (let s := run vfix hist s0 in
   lst s CR = [3] /\ lst s CM = [1; 3] /\ lst s CG = [0; 2] /\ lst s CP = [1] /\
   map (oid s CR) [0; 1; 2; 3] = [7; 200; 2; 3] /\ oid s CM 2 = 203 /\ oid s CG 0 = 5 /\ oid s CP 0 = 4 /\ oid s CP 1 = 1 /\
   members s 0 = [(CM, 1); (CG, 0)] /\ members s 1 = [(CR, 3); (CG, 2)] /\ kind s 1 = 2 /\
   map snd (map (step vfix (run vfix (firstn 4 hist) s0)) [AddGroups [1; 1]]) = [RaiseValueError]).
Proof. exact (conj hist_ok hist_nontrivial). Qed.
Print Assumptions C02_groups_history_nonvacuous.

(* the code as found breaks the invariant (known findings of the check; model and implementation agree) *)
Theorem C02_groups_remove_groups_nested_refuted :
  Inv s_nested /\ ~ Inv (fst (step vimpl s_nested (RemoveGroups [0]))).
Proof. exact remove_groups_nested_refuted. Qed.
Print Assumptions C02_groups_remove_groups_nested_refuted.
Theorem C02_groups_orphan_gene_refuted :
  Inv s_orphan /\ ~ Inv (fst (step vimpl s_orphan (RemoveRxn 1 true))).
Proof. exact orphan_gene_refuted. Qed.
Print Assumptions C02_groups_orphan_gene_refuted.
Theorem C02_groups_add_groups_gene_refuted :
  Inv s_addgene /\ ~ Inv (fst (step vimpl s_addgene (AddGroups [0]))).
Proof. exact add_groups_gene_refuted. Qed.
Print Assumptions C02_groups_add_groups_gene_refuted.
(* and the condition on Group.add_members (members are objects of the model) cannot be dropped *)
Theorem C02_groups_add_members_outside_refuted :
  let s := run vfix [AddGroups [0]] s0 in Inv s /\ ~ Inv (fst (step vfix s (AddMembers 0 [(CM, 3)]))).
Proof. exact add_members_outside_refuted. Qed.
Print Assumptions C02_groups_add_members_outside_refuted.

(* ---- documented effect of each edit, and nothing else ---- *)
Theorem C02_groups_set_id_effect : forall c x i s, Inv s ->
  let '(s', r) := set_id c x i s in
  (i = oid s c x -> s' = s /\ r = Ok) /\
  (i <> oid s c x -> i = id_nonstr -> s' = s /\ r = RaiseTypeError) /\
  (i <> oid s c x -> i <> id_nonstr -> omod s c x = true ->
     (In i (ids s c) \/ (solver_named c = true /\ bad_name i = true)) -> s' = s /\ r = RaiseValueError) /\
  (i <> oid s c x -> i <> id_nonstr ->
     (omod s c x = true -> ~ In i (ids s c) /\ (solver_named c = true -> bad_name i = false)) ->
     r = Ok /\ oid s' c x = i /\ (forall c' x', (c', x') <> (c, x) -> oid s' c' x' = oid s c' x') /\
     lst s' = lst s /\ omod s' = omod s /\ members s' = members s /\ kind s' = kind s /\
     sto s' = sto s /\ mback s' = mback s /\ rgenes s' = rgenes s /\ gback s' = gback s /\
     (In x (lst s c) -> lookup s' c i = Some x /\ lookup s' c (oid s c x) = None) /\
     (forall y, In y (lst s c) -> y <> x -> lookup s' c (oid s c y) = Some y) /\
     Inv s').
Proof. exact set_id_effect. Qed.
Print Assumptions C02_groups_set_id_effect.

(* escape_ID = the identifier setter for every metabolite, reaction and gene of the model (f = _escape_str_id on
   identifier numbers, evaluated by the real function in the check) *)
Theorem C02_groups_escape_ids_effect : forall tbl s, Inv s ->
  let f := fun i => assoc i tbl i in
  let '(s', r) := escape_ids tbl s in
  lst s' = lst s /\ omod s' = omod s /\ members s' = members s /\ kind s' = kind s /\ sto s' = sto s /\ rgenes s' = rgenes s /\
  (forall x, oid s' CP x = oid s CP x) /\ (forall c x, ~ In x (lst s c) -> oid s' c x = oid s c x) /\
  (r = Ok -> forall c x, c <> CP -> In x (lst s c) -> oid s' c x = f (oid s c x) /\ lookup s' c (f (oid s c x)) = Some x) /\
  Inv s'.
Proof. exact escape_ids_effect. Qed.
Print Assumptions C02_groups_escape_ids_effect.

Theorem C02_groups_set_bounds_effect : forall r lb ub s,
  fst (set_bounds r lb ub s) = s /\ snd (set_bounds r lb ub s) = if ub <? lb then RaiseValueError else Ok.
Proof. exact set_bounds_effect. Qed.
Print Assumptions C02_groups_set_bounds_effect.

Theorem C02_groups_add_members_effect : forall g l s,
  let s' := add_members g l s in
  (forall y, In y (members s' g) <-> In y (members s g) \/ In y l) /\
  (forall g', g' <> g -> members s' g' = members s g') /\
  lst s' = lst s /\ oid s' = oid s /\ omod s' = omod s /\ kind s' = kind s /\
  sto s' = sto s /\ mback s' = mback s /\ rgenes s' = rgenes s /\ gback s' = gback s.
Proof. exact add_members_effect. Qed.
Print Assumptions C02_groups_add_members_effect.

Theorem C02_groups_remove_members_effect : forall g l s,
  let s' := remove_members g l s in
  (forall y, In y (members s' g) <-> In y (members s g) /\ ~ In y l) /\
  (forall g', g' <> g -> members s' g' = members s g') /\
  lst s' = lst s /\ oid s' = oid s /\ omod s' = omod s /\ kind s' = kind s /\
  sto s' = sto s /\ mback s' = mback s /\ rgenes s' = rgenes s /\ gback s' = gback s.
Proof. exact remove_members_effect. Qed.
Print Assumptions C02_groups_remove_members_effect.

Theorem C02_groups_kind_effect : forall g k s,
  let '(s', r) := set_kind_op g k s in
  (0 <= k <= 2 -> r = Ok /\ kind s' g = k /\ (forall g', g' <> g -> kind s' g' = kind s g') /\
     lst s' = lst s /\ oid s' = oid s /\ omod s' = omod s /\ members s' = members s /\
     sto s' = sto s /\ mback s' = mback s /\ rgenes s' = rgenes s /\ gback s' = gback s) /\
  (~ 0 <= k <= 2 -> r = RaiseValueError /\ s' = s).
Proof. exact set_kind_effect. Qed.
Print Assumptions C02_groups_kind_effect.

Theorem C02_groups_add_groups_effect : forall l s,
  let pruned := filter (fun g => negb (has_id s CP (oid s CP g))) l in
  let '(s', r) := add_groups vfix l s in
  (nodupb (map (oid s CP) pruned) = false -> s' = s /\ r = RaiseValueError) /\
  (nodupb (map (oid s CP) pruned) = true -> s' = fold_left (add_group vfix) pruned s /\ r = Ok).
Proof. exact add_groups_effect. Qed.
Print Assumptions C02_groups_add_groups_effect.

Theorem C02_groups_add_group_effect : forall s g, Inv s -> ~ In (oid s CP g) (ids s CP) ->
  members_okb (set_omod CP g true s) (members s g) = true ->
  let s' := add_group vfix s g in
  lst s' CP = lst s CP ++ [g] /\ omod s' CP g = true /\
  (forall c x, In x (lst s c) -> In x (lst s' c)) /\
  (forall c x, c <> CP -> In x (lst s' c) -> In x (lst s c) \/ In (c, x) (members s g)) /\
  (forall y, In y (members s g) -> in_modelP s' y) /\
  (forall c x, oid s' c x = oid s c x) /\ (forall p, members s' p = members s p) /\
  (forall p, kind s' p = kind s p) /\ (forall c x, omod s c x = true -> omod s' c x = true) /\ Inv s'.
Proof. exact add_group_effect. Qed.
Print Assumptions C02_groups_add_group_effect.

Theorem C02_groups_remove_groups_effect : forall g s, Inv s ->
  let '(s', r) := remove_groups vfix [g] s in
  (~ In (oid s CP g) (ids s CP) -> s' = s /\ r = Ok) /\
  (In (oid s CP g) (ids s CP) -> ~ In g (lst s CP) -> s' = s /\ r = RaiseValueError) /\
  (In g (lst s CP) -> r = Ok /\ lst s' CP = rem g (lst s CP) /\ omod s' CP g = false /\
     (forall g', members s' g' = if memz g' (rem g (lst s CP)) then remr (CP, g) (members s g') else members s g') /\
     (forall c, c <> CP -> lst s' c = lst s c) /\ oid s' = oid s /\
     (forall c x, (c, x) <> (CP, g) -> omod s' c x = omod s c x) /\ kind s' = kind s /\
     sto s' = sto s /\ mback s' = mback s /\ rgenes s' = rgenes s /\ gback s' = gback s).
Proof. exact remove_group_effect. Qed.
Print Assumptions C02_groups_remove_groups_effect.

Theorem C02_groups_remove_reactions_effect : forall r orph s, Inv s ->
  let s' := remove_rxn vfix r orph s in
  (~ In r (lst s CR) -> s' = s) /\
  (In r (lst s CR) ->
     ~ In r (lst s' CR) /\ (forall g, In g (lst s' CP) -> ~ In (CR, r) (members s' g)) /\
     removal_frame s s' /\
     (orph = false ->
        lst s' CR = rem r (lst s CR) /\ (forall c, c <> CR -> lst s' c = lst s c) /\
        (forall g, members s' g = if memz g (lst s CP) then remr (CR, r) (members s g) else members s g) /\
        omod s' CR r = false /\ (forall c x, (c, x) <> (CR, r) -> omod s' c x = omod s c x) /\
        sto s' = sto s /\ rgenes s' = rgenes s) /\
     Inv s').
Proof. exact remove_reactions_effect. Qed.
Print Assumptions C02_groups_remove_reactions_effect.

Theorem C02_groups_remove_metabolites_effect : forall m d s, Inv s ->
  let s' := remove_met vfix m d s in
  (~ In m (lst s CM) -> s' = s) /\
  (In m (lst s CM) ->
     ~ In m (lst s' CM) /\ (forall g, In g (lst s' CP) -> ~ In (CM, m) (members s' g)) /\
     removal_frame s s' /\
     (d = false ->
        lst s' CM = rem m (lst s CM) /\ (forall c, c <> CM -> lst s' c = lst s c) /\
        (forall g, members s' g = if memz g (lst s CP) then remr (CM, m) (members s g) else members s g) /\
        omod s' CM m = false /\ (forall c x, (c, x) <> (CM, m) -> omod s' c x = omod s c x)) /\
     Inv s').
Proof. exact remove_metabolites_effect. Qed.
Print Assumptions C02_groups_remove_metabolites_effect.

Theorem C02_groups_remove_genes_effect : forall l rr s, Inv s ->
  let '(s', r) := remove_genes vfix l rr s in
  (lookup_all s CG l = None -> s' = s /\ r = RaiseKeyError) /\
  (forall gs, lookup_all s CG l = Some gs ->
     r = Ok /\
     (forall g, In g gs -> ~ In g (lst s' CG) /\ forall p, In p (lst s' CP) -> ~ In (CG, g) (members s' p)) /\
     removal_frame s s' /\ Inv s').
Proof. exact remove_genes_effect. Qed.
Print Assumptions C02_groups_remove_genes_effect.
End GroupsKernel.

(* ====================================================================================================
   Kernel IV: user constraints and variables, switching the solver interface, Model.merge
   (coq/theories/Extras; correspondence: harness/extras.py run, Extras/Check.v codes 1, 3, 7).
   Each edit does what it documents (effect / frame theorems) and the cross references of the content stay
   consistent along every history, in particular after a merge.
   ==================================================================================================== *)
From Cobra.Extras Require Model Inv Proofs Effects Ctx Examples.
Module ExtrasKernel.
Import Cobra.Extras.Model Cobra.Extras.Inv Cobra.Extras.Proofs Cobra.Extras.Effects Cobra.Extras.Ctx Cobra.Extras.Examples.

(* the cross-reference part of the invariant: the Core kernel's WF *)
Theorem C02_extras_meaning : forall s, Inv s ->
  (forall r m, rin s r = true -> sto s r m <> 0 -> min s m = true /\ back s m r = true) /\
  (forall m r, back s m r = true -> min s m = true /\ rin s r = true /\ sto s r m <> 0).
Proof.
  intros s H. split; [apply (I_wf1 s H)|]. intros m r B. pose proof (I_bk s H m r B) as M.
  split; [exact M|apply (I_wf2 s H m r M B)].
Qed.
Print Assumptions C02_extras_meaning.

Theorem C02_extras_step : forall s o, Inv s -> op_ok s o -> Inv (fst (step vfix s o)).
Proof. exact step_Inv. Qed.
Print Assumptions C02_extras_step.

Theorem C02_extras_history : forall ops s, Inv s -> ok_run vfix s ops -> Inv (run vfix ops s).
Proof. exact run_Inv. Qed.
Print Assumptions C02_extras_history.

(* ---- effect / frame per operation ---- *)
Theorem C02_extras_add_user_var_effect : forall k lb ub s,
  let s' := add_user_var k (lb, ub) s in
  vin s' (VU k) = true /\ vb s' (VU k) = (lb, ub) /\ uv s' k = Some (lb, ub) /\
  (forall v, v <> VU k -> vin s' v = vin s v /\ vb s' v = vb s v) /\
  (forall k', k' <> k -> uv s' k' = uv s k') /\
  oc s' = oc s /\ cin s' = cin s /\ cb s' = cb s /\ co s' = co s /\ odir s' = odir s /\ exact s' = exact s /\
  rin s' = rin s /\ rb s' = rb s /\ sto s' = sto s /\ min s' = min s /\ back s' = back s /\
  uc s' = uc s /\ uct s' = uct s.
Proof. exact add_user_var_effect. Qed.
Print Assumptions C02_extras_add_user_var_effect.

Theorem C02_extras_add_user_cons_effect : forall k lb ub t s,
  let s' := add_user_cons k (lb, ub) t s in
  cin s' (CU k) = true /\ cb s' (CU k) = (lb, ub) /\ (forall v, co s' (CU k) v = tfun t v) /\
  uc s' k = Some (lb, ub) /\ (forall v, uct s' k v = tfun t v) /\
  (forall c, c <> CU k -> cin s' c = cin s c /\ cb s' c = cb s c /\ forall v, co s' c v = co s c v) /\
  (forall k', k' <> k -> uc s' k' = uc s k' /\ forall v, uct s' k' v = uct s k' v) /\
  vin s' = vin s /\ vb s' = vb s /\ oc s' = oc s /\ odir s' = odir s /\ exact s' = exact s /\
  rin s' = rin s /\ rb s' = rb s /\ sto s' = sto s /\ min s' = min s /\ back s' = back s /\ uv s' = uv s.
Proof. exact add_user_cons_effect. Qed.
Print Assumptions C02_extras_add_user_cons_effect.

Theorem C02_extras_remove_user_var_effect : forall k s,
  let s' := remove_user_var k s in
  vin s' (VU k) = false /\ vb s' (VU k) = free /\ oc s' (VU k) = 0 /\ uv s' k = None /\
  (forall c, co s' c (VU k) = 0) /\ (forall k', uct s' k' (VU k) = 0) /\
  (forall v, v <> VU k -> vin s' v = vin s v /\ vb s' v = vb s v /\ oc s' v = oc s v /\
                          (forall c, co s' c v = co s c v) /\ (forall k', uct s' k' v = uct s k' v)) /\
  (forall k', k' <> k -> uv s' k' = uv s k') /\
  cin s' = cin s /\ cb s' = cb s /\ odir s' = odir s /\ exact s' = exact s /\
  rin s' = rin s /\ rb s' = rb s /\ sto s' = sto s /\ min s' = min s /\ back s' = back s /\ uc s' = uc s.
Proof. exact remove_user_var_effect. Qed.
Print Assumptions C02_extras_remove_user_var_effect.

Theorem C02_extras_remove_user_cons_effect : forall k s,
  let s' := remove_user_cons k s in
  cin s' (CU k) = false /\ cb s' (CU k) = free /\ (forall v, co s' (CU k) v = 0) /\
  uc s' k = None /\ (forall v, uct s' k v = 0) /\
  (forall c, c <> CU k -> cin s' c = cin s c /\ cb s' c = cb s c /\ forall v, co s' c v = co s c v) /\
  (forall k', k' <> k -> uc s' k' = uc s k' /\ forall v, uct s' k' v = uct s k' v) /\
  vin s' = vin s /\ vb s' = vb s /\ oc s' = oc s /\ odir s' = odir s /\ exact s' = exact s /\
  rin s' = rin s /\ rb s' = rb s /\ sto s' = sto s /\ min s' = min s /\ back s' = back s /\ uv s' = uv s.
Proof. exact remove_user_cons_effect. Qed.
Print Assumptions C02_extras_remove_user_cons_effect.

(* removal by name: LookupError and no change when there is no such item, otherwise the removal by object *)
Theorem C02_extras_remove_by_name_effect : forall k s,
  (vin s (VU k) = false -> step vfix s (RemoveVarByName k) = (s, RaiseLookupError)) /\
  (cin s (CU k) = false -> step vfix s (RemoveConsByName k) = (s, RaiseLookupError)) /\
  (vin s (VU k) = true -> step vfix s (RemoveVarByName k) = step vfix s (RemoveUserVar k)) /\
  (cin s (CU k) = true -> step vfix s (RemoveConsByName k) = step vfix s (RemoveUserCons k)).
Proof.
  intros k s. destruct (remove_by_name_absent k s) as [A B]. destruct (remove_by_name_present k s) as [C D].
  repeat split; assumption.
Qed.
Print Assumptions C02_extras_remove_by_name_effect.

Theorem C02_extras_add_reactions_existing : forall r b l s, rin s r = true -> add_rxn r b l s = s.
Proof. exact add_rxn_existing. Qed.
Print Assumptions C02_extras_add_reactions_existing.

Theorem C02_extras_remove_reactions_absent : forall r s, rin s r = false -> remove_rxn r s = s.
Proof. exact remove_rxn_absent. Qed.
Print Assumptions C02_extras_remove_reactions_absent.

(* Model.add_reactions for a new identifier: the reaction with its variables, bounds and rows; the user items, the
   objective and the other reactions untouched *)
Theorem C02_extras_add_reactions_effect : forall r b l s, Inv s -> rin s r = false -> sto_okb l = true ->
  let s' := add_rxn r b l s in
  (* the reaction *)
  rin s' r = true /\ rb s' r = b /\ (forall m, sto s' r m = assz l m) /\
  vin s' (VF r) = true /\ vin s' (VR r) = true /\ vb s' (VF r) = fst (split b) /\ vb s' (VR r) = snd (split b) /\
  (forall m, co s' (CM m) (VF r) = assz l m /\ co s' (CM m) (VR r) = - assz l m) /\
  (forall m, min s' m = min s m || memz m (map fst l)) /\
  (forall m, back s' m r = memz m (map fst l)) /\
  (* the user items *)
  uv s' = uv s /\ uc s' = uc s /\ uct s' = uct s /\
  (forall k, vin s' (VU k) = vin s (VU k) /\ vb s' (VU k) = vb s (VU k)) /\
  (forall k, cin s' (CU k) = cin s (CU k) /\ cb s' (CU k) = cb s (CU k) /\ forall v, co s' (CU k) v = co s (CU k) v) /\
  (* the other reactions, the metabolites that were there *)
  (forall r', r' <> r -> rin s' r' = rin s r' /\ rb s' r' = rb s r' /\ (forall m, sto s' r' m = sto s r' m) /\
     vin s' (VF r') = vin s (VF r') /\ vin s' (VR r') = vin s (VR r') /\
     vb s' (VF r') = vb s (VF r') /\ vb s' (VR r') = vb s (VR r') /\
     (forall m, back s' m r' = back s m r') /\
     (forall m, co s' (CM m) (VF r') = co s (CM m) (VF r') /\ co s' (CM m) (VR r') = co s (CM m) (VR r'))) /\
  (forall m k, co s' (CM m) (VU k) = co s (CM m) (VU k)) /\
  (forall m, min s m = true -> cb s' (CM m) = cb s (CM m)) /\
  oc s' = oc s /\ odir s' = odir s /\ exact s' = exact s.
Proof. exact add_rxn_effect. Qed.
Print Assumptions C02_extras_add_reactions_effect.
Theorem C02_extras_set_bounds_effect : forall r lb ub s,
  (ub < lb -> set_bounds r lb ub s = (s, RaiseValueError)) /\
  (lb <= ub ->
   let s' := fst (set_bounds r lb ub s) in
   snd (set_bounds r lb ub s) = Ok /\ rb s' r = (lb, ub) /\
   (rin s r = true -> vb s' (VF r) = fst (split (lb, ub)) /\ vb s' (VR r) = snd (split (lb, ub))) /\
   (rin s r = false -> vb s' = vb s) /\
   (forall r', r' <> r -> rb s' r' = rb s r') /\
   (forall v, v <> VF r -> v <> VR r -> vb s' v = vb s v) /\
   rin s' = rin s /\ sto s' = sto s /\ min s' = min s /\ back s' = back s /\ vin s' = vin s /\ oc s' = oc s /\
   cin s' = cin s /\ cb s' = cb s /\ co s' = co s /\ odir s' = odir s /\ exact s' = exact s /\
   uv s' = uv s /\ uc s' = uc s /\ uct s' = uct s).
Proof. exact set_bounds_effect. Qed.
Print Assumptions C02_extras_set_bounds_effect.
Theorem C02_extras_set_objective_effect : forall l s, nodupb (map fst l) = true ->
  let s' := set_obj l s in
  (forall r, oc s' (VF r) = assz l r /\ oc s' (VR r) = - assz l r) /\ (forall k, oc s' (VU k) = 0) /\
  odir s' = odir s /\ rin s' = rin s /\ rb s' = rb s /\ sto s' = sto s /\ min s' = min s /\ back s' = back s /\
  vin s' = vin s /\ vb s' = vb s /\ cin s' = cin s /\ cb s' = cb s /\ co s' = co s /\ exact s' = exact s /\
  uv s' = uv s /\ uc s' = uc s /\ uct s' = uct s.
Proof. exact set_obj_effect. Qed.
Print Assumptions C02_extras_set_objective_effect.

(* merge (repaired): reactions of right join under their identifier, or the prefixed one where the identifier exists; a
   reaction of the left model keeps bounds and stoichiometry; metabolites only join; a user item of the left model is
   unchanged, one of right joins iff its name is new, exactly as it was in right; the objective as documented per mode;
   the interface stays *)
Theorem C02_extras_merge_effect : forall rm pfx mode s, Inv s -> rm_okb s rm pfx = true ->
  snd (merge_result vfix rm pfx mode s) = Ok ->
  let s' := fst (merge_result vfix rm pfx mode s) in
  (forall r, rin s' r = rin s r || memz r (map (new_id s pfx) (rm_rxns rm))) /\
  (forall r, rin s r = true -> rb s' r = rb s r /\ forall m, sto s' r m = sto s r m) /\
  (forall m, min s m = true -> min s' m = true) /\
  (forall k, uv s' k = match uv s k with Some b => Some b | None => lookup k (rm_uvars rm) end) /\
  (forall k, uc s' k = match uc s k with Some b => Some b | None => option_map fst (lookc k (rm_ucons rm)) end) /\
  (forall k v, uct s' k v = match uc s k with
                            | Some _ => uct s k v
                            | None => match lookc k (rm_ucons rm) with Some bt => tfun (snd bt) v | None => 0 end
                            end) /\
  (mode <> 1 -> mode <> 2 -> odir s' = odir s /\ forall n, oc s' n = oc s n) /\
  (mode = 1 -> odir s' = rm_dir rm /\ forall n, oc s' n = obj_of (rm_obj rm) (fun _ => 0) n) /\
  (mode = 2 -> odir s' = odir s /\ forall n, oc s' n = oc s n + obj_of (rm_obj rm) (fun _ => 0) n) /\
  exact s' = exact s.
Proof. exact merge_effect. Qed.
Print Assumptions C02_extras_merge_effect.

(* inplace=False: "leaving the left model untouched" *)
Theorem C02_extras_merge_not_inplace : forall v s rm pfx mode, fst (step v s (Merge rm pfx mode false)) = s.
Proof. exact merge_not_inplace. Qed.
Print Assumptions C02_extras_merge_not_inplace.

(* the code as found: an ignored copy stays registered with a metabolite that joins -- the cross references break
   (= the finding C02-merge-stale-back-reference); objective="sum" ends with direction "max" whatever it was
   (= C02-merge-sum-direction; compare `C02_extras_merge_effect`, mode 2) *)
Theorem C02_extras_merge_stale_back_refuted : exists s rm, Inv s /\ rm_okb s rm false = true /\
  ~ Inv (fst (merge_result (mkV false true true) rm false 0 s)).
Proof. exact merge_stale_back_refuted. Qed.
Print Assumptions C02_extras_merge_stale_back_refuted.

Theorem C02_extras_merge_sumdir_as_found : forall b1 b2 rm s, odir (merge_objective (mkV b1 b2 false) rm 2 s) = true.
Proof. exact merge_sumdir_as_found. Qed.
Print Assumptions C02_extras_merge_sumdir_as_found.

Example C02_extras_history_nonvacuous : ok_run vfix (init false) ops /\
  rin (run vfix ops (init false)) 1002 = true /\ back (run vfix ops (init false)) 6 1002 = true /\
  uv (run vfix ops (init false)) 7 = Some (Some 0, Some 4) /\ uc (run vfix ops (init false)) 11 = Some (Some 0, None).
Proof. split; [exact history_nonvacuous|]. vm_compute. repeat split. Qed.
Print Assumptions C02_extras_history_nonvacuous.
End ExtrasKernel.
