(* C02 — model edits do exactly what they document; cross-references stay consistent.
   This file only states the property theorems and prints their assumptions. *)
From Coq Require Import ZArith QArith Qcanon List Bool.
From Cobra.Core Require Import Model Inv Preserve RestoreBase RestoreOps Restore.
Import ListNotations.
Open Scope Z_scope.

(* consistency, spelled out: a reaction of the model lists a metabolite iff that metabolite (which is then
   in the model) lists the reaction (which is then in the model); no zero coefficient is "listed".      *)
Theorem C02_wf_meaning : forall s, WF s ->
  (forall r m, rin s r = true -> sto s r m <> q0 -> min s m = true /\ back s m r = true) /\
  (forall m r, back s m r = true -> min s m = true /\ rin s r = true /\ sto s r m <> q0).
Proof. intros s H. exact H. Qed.
Print Assumptions C02_wf_meaning.

Theorem C02_wf_step : forall s o, Inv s -> op_ok s o -> Inv (fst (step s o)) /\ WF (fst (step s o)).
Proof. intros s o HI Hok. pose proof (step_Inv s o HI Hok) as H. split; [exact H|apply Inv_WF, H]. Qed.
Print Assumptions C02_wf_step.

Fixpoint ok_run (s : st) (ops : list op) : Prop :=
  match ops with [] => True | o :: ops' => op_ok s o /\ ok_run (fst (step s o)) ops' end.
Theorem C02_wf_history : forall ops rs ms, ok_run (init_u rs ms) ops -> WF (run ops (init_u rs ms)).
Proof.
  intros ops rs ms. generalize (init_Inv rs ms). generalize (init_u rs ms).
  induction ops as [|o ops IH]; intros s HI Hok; cbn [run fold_left ok_run] in *.
  - apply Inv_WF, HI.
  - destruct Hok as [H1 H2]. apply (IH (fst (step s o))); [apply step_Inv; assumption|exact H2].
Qed.
Print Assumptions C02_wf_history.

Theorem C02_wf_with_contexts : forall l s, Inv s -> V s -> ok_items s l -> WF (run_items s l).
Proof.
  intros l s HI HV Hok.
  assert (Hl : Forall good l) by (apply Forall_forall; intros i _; apply all_good).
  destruct (good_list l Hl s HI HV Hok) as [_ [H _]]. apply Inv_WF, H.
Qed.
Print Assumptions C02_wf_with_contexts.

(* ---- documented effect of each edit, and nothing else ---- *)

(* reaction.bounds = (l, u): both bounds set, or ValueError and nothing changed; no other content touched *)
Theorem C02_set_bounds_effect : forall s r l u,
  let s' := fst (set_bounds r l u s) in
  (eb_gt l u = false -> lb s' r = l /\ ub s' r = u) /\
  (eb_gt l u = true -> snd (set_bounds r l u s) = RaiseValueError \/ (lb s r = l /\ ub s r = u)) /\
  (eb_gt l u = true -> lb s' = lb s /\ ub s' = ub s) /\
  (forall r', r' <> r -> lb s' r' = lb s r' /\ ub s' r' = ub s r') /\
  rin s' = rin s /\ sto s' = sto s /\ min s' = min s /\ back s' = back s.
Proof.
  intros s r l u. cbn zeta. unfold set_bounds.
  destruct (rctx s r && eb_eqb (lb s r) l && eb_eqb (ub s r) u) eqn:Eq.
  - apply andb_true_iff in Eq as [Eq E2]. apply andb_true_iff in Eq as [_ E1].
    apply eb_eqb_true in E1, E2. cbn [fst snd]. repeat split; auto.
  - destruct (eb_gt l u) eqn:Eg; cbn [fst snd].
    + repeat split; try discriminate; auto; destruct (rctx s r); recs; reflexivity.
    + rewrite raw_set_bounds_rsb. unfold rsb. destruct (Model.split_bounds l u) as [[? ?] [? ?]]. cbn.
      repeat split; try discriminate; intros; rewrite ?upd_same, ?upd_other by assumption;
        destruct (rctx s r); recs; reflexivity.
Qed.
Print Assumptions C02_set_bounds_effect.

(* reaction.add_metabolites(l, combine): listed coefficients are added (combine) or replaced; a metabolite
   new to the model joins it; every other reaction, every bound and the membership of reactions unchanged *)
Theorem C02_add_metabolites_effect : forall s r l combine rev,
  let s' := fst (add_st r l combine rev s) in
  (forall m, sto s' r m = match assoc_q m l with
                          | Some c => if combine then (sto s r m + c)%Qc else c
                          | None => sto s r m end) /\
  (forall r', r' <> r -> sto s' r' = sto s r') /\
  rin s' = rin s /\ lb s' = lb s /\ ub s' = ub s /\
  (forall m, min s' m = min s m || (rin s r && memz m (news_of s r l))).
Proof.
  intros s r l combine rev. cbn zeta. unfold add_st.
  match goal with |- context [if ?c then _ else _] => destruct c end; [destruct combine|]; cbn [fst]; recs;
    (destruct (rin s r); [unfold model_add_mets; cbn; recs; cbn|cbn]);
    repeat split; intros; rewrite ?upd_same, ?upd_other by assumption; unfold st_after, new_coef;
      try reflexivity; try (destruct (assoc_q m l); reflexivity); rewrite ?orb_false_r; reflexivity.
Qed.
Print Assumptions C02_add_metabolites_effect.

(* model.add_reactions([r]): the reaction joins with its own stoichiometry and bounds; the metabolites it
   lists are in the model afterwards; no other reaction changes                                         *)
Theorem C02_add_reactions_effect : forall s r, rin s r = false ->
  let s' := add_rxn r s in
  rin s' = upd (rin s) r true /\ sto s' = sto s /\ lb s' = lb s /\ ub s' = ub s /\
  (forall m, min s' m = min s m || negb (isz (sto s r m))).
Proof.
  intros s r Hr. cbn zeta. unfold add_rxn. rewrite Hr. recs. unfold add_rxn_content.
  destruct (Model.split_bounds (lb s r) (ub s r)) as [[? ?] [? ?]]. cbn. repeat split.
Qed.
Print Assumptions C02_add_reactions_effect.

(* model.remove_reactions([r], remove_orphans): the reaction leaves; with remove_orphans exactly the
   metabolites it listed that no other reaction lists leave too; nothing else changes                  *)
Theorem C02_remove_reactions_effect : forall s r orphans, rin s r = true ->
  let s' := remove_rxn r orphans s in
  rin s' = upd (rin s) r false /\ sto s' = sto s /\ lb s' = lb s /\ ub s' = ub s /\
  (forall m, min s' m = min s m && negb (orphans && orphaned s r m)) /\
  (forall m r', r' <> r -> back s' m r' = back s m r').
Proof.
  intros s r orphans Hr. cbn zeta. unfold remove_rxn. rewrite Hr. cbn [negb]. recs. unfold remove_rxn_content. cbn.
  repeat split. intros m r' Hne. destruct (Z.eqb_spec r' r); [contradiction|reflexivity].
Qed.
Print Assumptions C02_remove_reactions_effect.

(* model.remove_metabolites([m]): non-destructive - every reaction loses the metabolite and stays;
   destructive - every reaction listing it leaves the model                                            *)
Theorem C02_remove_metabolites_effect : forall s m, min s m = true ->
  (let s' := remove_met_nd m s in
   min s' = upd (min s) m false /\ rin s' = rin s /\
   (forall r m', sto s' r m' = if (m' =? m) && back s m r then q0 else sto s r m')) /\
  (let s' := remove_met_d m s in
   min s' = upd (min s) m false /\ sto s' = sto s /\
   (forall r, rin s' r = rin s r && negb (back s m r && rin s r))).
Proof.
  intros s m Hm. cbn zeta. unfold remove_met_nd, remove_met_d. rewrite Hm. cbn [negb]. recs.
  unfold remove_met_nd_content, remove_met_d_content. cbn. repeat split.
Qed.
Print Assumptions C02_remove_metabolites_effect.

(* reaction *= c: every coefficient scaled; for c < 0 the bounds are swapped and negated *)
Theorem C02_imul_effect : forall s r c,
  let s' := imul r c s in
  (forall m, sto s' r m = (sto s r m * c)%Qc) /\ (forall r', r' <> r -> sto s' r' = sto s r') /\ rin s' = rin s.
Proof.
  intros s r c. cbn zeta. unfold imul.
  set (s1 := if qlt c q0 then fst (set_bounds r (eb_opp (ub s r)) (eb_opp (lb s r)) s) else s).
  assert (F1 : rin s1 = rin s /\ sto s1 = sto s).
  { unfold s1. destruct (qlt c q0); [apply set_bounds_frame|split; reflexivity]. }
  destruct F1 as [Fr Fs].
  match goal with |- context [if rctx ?x r then _ else _] => set (s3 := x) end.
  assert (Hp : forall x, sto (populate r x) = sto x /\ rin (populate r x) = rin x).
  { intros x. unfold populate, update_variable_bounds. destruct (rin x r); [|split; reflexivity].
    destruct (Model.split_bounds _ _) as [[? ?] [? ?]]. split; reflexivity. }
  assert (H3 : sto s3 = upd (sto s) r (fun m => (sto s r m * c)%Qc) /\ rin s3 = rin s).
  { unfold s3. cbn [rin set_sto].
    destruct (rin s1 r); [destruct (Hp (set_sto s1 (upd (sto s1) r (fun m => (sto s r m * c)%Qc)))) as [P1 P2]; rewrite P1, P2|];
      cbn; rewrite Fs, Fr; split; reflexivity. }
  destruct H3 as [Hs Hr].
  destruct (rctx s3 r); recs; rewrite Hs, Hr; repeat split; intros; rewrite ?upd_same, ?upd_other by assumption; reflexivity.
Qed.
Print Assumptions C02_imul_effect.

(* ============================ kernel II: gene bookkeeping (coq/theories/Genes) ============================
   model.genes, reaction._genes, gene._reaction, gene._model, gene identifiers and rules under
   gene_reaction_rule / gpr setters, add_reactions, remove_reactions(remove_orphans), remove_genes,
   rename_genes and repair.  The names of the two kernels overlap, hence the module.                        *)
From Cobra.Genes Require Model Inv Proofs Effects Examples.
Module GenesKernel.
Import Cobra.Genes.Model Cobra.Genes.Inv Cobra.Genes.Proofs Cobra.Genes.Effects Cobra.Genes.Examples.

(* the gene clauses of the property, spelled out *)
Theorem C02_genes_meaning : forall s, GInv s ->
  (forall r g, rin s r = true -> In g (rgenes s r) ->
     In g (glist s) /\ gback s g r = true /\ gmod s g = true /\ lookup s (gid s g) = Some g) /\
  (forall g r, In g (glist s) -> gback s g r = true -> rin s r = true /\ In g (rgenes s r)) /\
  (forall r, rin s r = true -> forall i, In i (map (gid s) (rgenes s r)) <-> In i (genes_of (rule s r))) /\
  NoDup (map (gid s) (glist s)) /\
  (forall g, In g (glist s) -> gmod s g = true /\ lookup s (gid s g) = Some g).
Proof. exact GInv_meaning. Qed.
Print Assumptions C02_genes_meaning.

Theorem C02_genes_init : forall rs, GInv (init rs).
Proof. exact init_GInv. Qed.
Print Assumptions C02_genes_init.

Theorem C02_genes_step : forall s o, GInv s -> op_ok s o -> GInv (fst (step s o)).
Proof. exact step_GInv. Qed.
Print Assumptions C02_genes_step.

Theorem C02_genes_history : forall ops rs, Proofs.ok_run (init rs) ops -> GInv (run ops (init rs)).
Proof. intros ops rs H. apply run_GInv; [apply init_GInv|exact H]. Qed.
Print Assumptions C02_genes_history.

Theorem C02_genes_universe : forall s o, rids (fst (step s o)) = rids s.
Proof. exact step_rids. Qed.
Print Assumptions C02_genes_universe.

(* non-vacuity: a history using every operation (merging renames, unknown keys, gene removal that removes
   no / some reactions, orphan removal, an empty rule, repair) meets the conditions and ends non-trivially *)
Example C02_genes_history_nonvacuous : Proofs.ok_run (init [0; 1; 2]) hist /\
  (let s := run hist (init [0; 1; 2]) in
   map (gid s) (glist s) = [5; 3] /\ map (rin s) [0; 1; 2] = [true; true; true] /\
   rule s 0 = Some (TBool true [g 5; g 5]) /\ map (gid s) (rgenes s 0) = [5]).
Proof. exact (conj hist_ok hist_nontrivial). Qed.
Print Assumptions C02_genes_history_nonvacuous.

(* rename_genes as implemented breaks the invariant when a value of the dictionary is also another key
   (model and implementation agree on this: known finding C02-rename-genes-chain) *)
Theorem C02_genes_rename_chain_refuted :
  GInv swap_state /\ NoDup (keys [(0, 1); (1, 0)]) /\ ~ GInv (rename_genes [(0, 1); (1, 0)] swap_state).
Proof. exact rename_swap_refuted. Qed.
Print Assumptions C02_genes_rename_chain_refuted.

(* the proposed repair (fixes/rename-genes-chain.patch: a gene marked for removal goes only if no reaction lists it
   after the repair) keeps the invariant for every dictionary *)
Theorem C02_genes_rename_fixed : forall d s, GInv s -> GInv (rename_genes_fixed d s).
Proof. exact rename_genes_fixed_inv. Qed.
Print Assumptions C02_genes_rename_fixed.

(* ---- documented effect of each gene edit, and nothing else ---- *)
Theorem C02_genes_set_rule_effect : forall r t s, GInv s ->
  let s' := set_rule r t s in
  rule s' = upd (rule s) r t /\ rin s' = rin s /\
  (forall r', r' <> r -> rgenes s' r' = rgenes s r') /\
  (forall g r', In g (glist s) -> r' <> r -> gback s' g r' = gback s g r') /\
  (forall g, In g (glist s) -> In g (glist s') /\ gid s' g = gid s g) /\
  (forall g, In g (glist s') -> In g (glist s) \/ nextg s <= g) /\
  (rin s r = false -> glist s' = glist s).
Proof. exact set_rule_effect. Qed.
Print Assumptions C02_genes_set_rule_effect.

Theorem C02_genes_add_reactions_effect : forall r s, GInv s -> In r (rids s) -> rin s r = false ->
  let s' := add_rxn r s in
  rin s' = upd (rin s) r true /\ rule s' = rule s /\
  (forall r', r' <> r -> rgenes s' r' = rgenes s r') /\
  (forall g r', In g (glist s) -> r' <> r -> gback s' g r' = gback s g r') /\
  (forall g, In g (glist s) -> In g (glist s') /\ gid s' g = gid s g) /\
  (forall g, In g (glist s') -> In g (glist s) \/ nextg s <= g).
Proof. exact add_rxn_effect. Qed.
Print Assumptions C02_genes_add_reactions_effect.

Theorem C02_genes_remove_reactions_effect : forall r orph s, GInv s -> rin s r = true ->
  let s' := remove_rxn r orph s in
  (forall r', rin s' r' = rin s r' && negb (r' =? r)) /\ rule s' = rule s /\ rgenes s' = rgenes s /\ gid s' = gid s /\
  (forall g, In g (glist s') -> In g (glist s)) /\
  (forall g, In g (glist s) -> In g (glist s') \/ (orph = true /\ In g (rgenes s r))) /\
  GInv s'.
Proof. exact remove_rxn_effect. Qed.
Print Assumptions C02_genes_remove_reactions_effect.

Theorem C02_genes_remove_genes_effect : forall l rr s,
  (lookup_all s l = None -> remove_genes l rr s = (s, RaiseKeyError)) /\
  (forall gs, GInv s -> lookup_all s l = Some gs ->
     let K := fun i => memz i l in
     let s' := fst (remove_genes l rr s) in
     snd (remove_genes l rr s) = Ok /\
     (forall r, rin s' r = rin s r && negb (memz r (filter (is_target s K rr) (model_rxns s)))) /\
     (forall r, rule s' r = if memz r (filter (is_revisit s K rr) (model_rxns s)) then remove_rule K (rule s r) else rule s r) /\
     (forall g, In g gs -> ~ In g (glist s')) /\
     (forall g, In g (glist s) -> ~ In g gs -> In g (glist s') /\ gid s' g = gid s g)).
Proof.
  intros l rr s. split; [apply remove_genes_unknown|]. intros gs H1 H2. exact (remove_genes_effect l rr s gs H1 H2).
Qed.
Print Assumptions C02_genes_remove_genes_effect.

Theorem C02_genes_rename_genes_effect : forall d s, GInv s -> NoDup (keys d) -> no_chain d = true ->
  let s' := rename_genes d s in
  rin s' = rin s /\
  (forall r, rin s r = true -> rule s' r = rename_rule d (rule s r)) /\
  (forall r, rin s r = false -> rule s' r = rule s r) /\
  GInv s'.
Proof.
  intros d s H1 H2 H3. destruct (rename_genes_effect d s H1 H2 H3) as [A [B C]].
  split; [exact A|]. split; [exact B|]. split; [exact C|]. exact (rename_genes_inv d s H1 H2 H3).
Qed.
Print Assumptions C02_genes_rename_genes_effect.

Theorem C02_genes_repair_effect : forall s, GInv s ->
  rin (repair s) = rin s /\ rule (repair s) = rule s /\
  (forall g, In g (glist s) -> In g (glist (repair s)) /\ gid (repair s) g = gid s g).
Proof. exact repair_effect. Qed.
Print Assumptions C02_genes_repair_effect.
End GenesKernel.
