(* C07 — knock-outs disable exactly the reactions whose rule becomes false.
   Only statements, `exact` proofs and Print Assumptions. *)
From Coq Require Import ZArith QArith List Bool Permutation.
From Cobra.GPR Require Import Syntax Proofs.
From Cobra.Knockout Require Import Model Proofs.
Import ListNotations.
Open Scope Z_scope.

(* After knocking out the genes gs one at a time (any list, repetitions allowed), with K = gs ∪ the
   genes already non-functional: the genes of gs are non-functional; every reaction keeps its
   identity, rule and genes; reaction.functional = the rule's value with K absent; its bounds are
   (0,0) if one of gs is among its genes and the rule is false with K absent, and unchanged
   otherwise (in particular for a reaction without a rule); back references are untouched.   *)
Theorem C07_knock_out_spec : forall w gs, WF w ->
  let w' := knock_outs gs w in
  let K := fun g => mem g gs || mem g (s_nonfunc w) in
  (forall g, In g gs -> gene_functional w' g = false) /\
  (forall g, gene_functional w' g = negb (K g)) /\
  length (s_rxns w') = length (s_rxns w) /\
  (forall i r, nth_error (s_rxns w) i = Some r ->
     exists r', nth_error (s_rxns w') i = Some r' /\
       static r' = static r /\
       rxn_functional w' r' = eval_rule K (r_rule r) /\
       bounds r' = (if touched gs r && negb (eval_rule K (r_rule r)) then (0, 0)%Q else bounds r)) /\
  s_grx w' = s_grx w.
Proof. exact knock_out_spec. Qed.
Print Assumptions C07_knock_out_spec.

Theorem C07_no_rule_never_affected : forall w gs, WF w -> forall i r,
  nth_error (s_rxns w) i = Some r -> r_rule r = None -> nth_error (s_rxns (knock_outs gs w)) i = Some r.
Proof. exact knock_out_no_rule. Qed.
Print Assumptions C07_no_rule_never_affected.

(* any order gives the same reactions and the same flags *)
Theorem C07_knock_out_order : forall w gs gs', WF w -> Permutation gs gs' ->
  s_rxns (knock_outs gs w) = s_rxns (knock_outs gs' w) /\
  (forall g, gene_functional (knock_outs gs w) g = gene_functional (knock_outs gs' w) g).
Proof. exact knock_out_order. Qed.
Print Assumptions C07_knock_out_order.

(* all at once = one at a time; the returned reactions are the touched, non-functional ones *)
Theorem C07_knock_out_model_genes_spec : forall w gs, WF w ->
  fst (knock_out_model_genes w gs) = knock_outs gs w /\
  forall rid, In rid (snd (knock_out_model_genes w gs)) <->
    exists r', In r' (s_rxns (knock_outs gs w)) /\ r_id r' = rid /\
               touched gs r' = true /\ rxn_functional (knock_outs gs w) r' = false.
Proof. exact knock_out_model_genes_spec. Qed.
Print Assumptions C07_knock_out_model_genes_spec.

(* Reaction.knock_out: exactly its own bounds become (0,0) *)
Theorem C07_reaction_knock_out_spec : forall w rid,
  let w' := reaction_knock_out w rid in
  s_nonfunc w' = s_nonfunc w /\ s_grx w' = s_grx w /\ length (s_rxns w') = length (s_rxns w) /\
  forall i r, nth_error (s_rxns w) i = Some r ->
    exists r', nth_error (s_rxns w') i = Some r' /\ static r' = static r /\
      bounds r' = if r_id r =? rid then (0, 0)%Q else bounds r.
Proof. exact reaction_knock_out_spec. Qed.
Print Assumptions C07_reaction_knock_out_spec.

(* the rule-level facts the above rests on *)
Theorem C07_eval_mono : forall K K' t,
  (forall g, K g = true -> K' g = true) -> eval K' t = true -> eval K t = true.
Proof. exact eval_mono. Qed.
Print Assumptions C07_eval_mono.

(* Non-vacuity: a two-reaction state meets WF; knocking out g1 zeroes R0 (g1 and g2) only. *)
Definition g1 : ident := [103; 49].  Definition g2 : ident := [103; 50].
Definition ex_state : state :=
  mkS [mkR 0 (Some (Bool And [Gene g1; Gene g2])) [g1; g2] (-10) 5;
       mkR 1 (Some (Bool Or [Gene g1; Gene g2])) [g1; g2] 0 8;
       mkR 2 None [] (-1) 1]
      [] [(g1, [0; 1]); (g2, [0; 1])].

Example C07_ex_wf : WF ex_state.
Proof.
  intros r [H|[H|[H|[]]]]; subst r; split; cbn.
  - intro g. destruct (str_eqb g g1) eqn:E1; [reflexivity|]. destruct (str_eqb g g2) eqn:E2; reflexivity.
  - tauto.
  - intro g. destruct (str_eqb g g1) eqn:E1; [reflexivity|]. destruct (str_eqb g g2) eqn:E2; reflexivity.
  - tauto.
  - intro g. destruct (str_eqb g g1) eqn:E1; [reflexivity|]. destruct (str_eqb g g2) eqn:E2; reflexivity.
  - tauto.
Qed.

Example C07_ex_run :
  map bounds (s_rxns (knock_outs [g1] ex_state)) = [(0, 0); (0, 8); (-1, 1)]%Q /\
  map bounds (s_rxns (knock_outs [g2; g1] ex_state)) = [(0, 0); (0, 0); (-1, 1)]%Q /\
  snd (knock_out_model_genes ex_state [g1; g2]) = [0; 1].
Proof. vm_compute. repeat split. Qed.
