(* C04 — FBA returns a true optimum, or a true verdict that none exists.
   This file only states the property theorems and prints their assumptions. *)
From Coq Require Import QArith List Bool.
From Cobra.LP Require Import Defs Cert Fba.
From Cobra.Optimize Require Import Model Proofs.
From Cobra.Gen Require Import OptTables.
Import ListNotations.
Open Scope Q_scope.

(* Each reaction's net flux (forward - reverse variable) ranges over exactly [lb, ub] under the
   variable bounds computed by Reaction.update_variable_bounds.                             *)
Theorem C04_net_flux_range : forall lb ub v, valid lb ub ->
  (inb (lb, ub) v <->
   exists f r, inb (fst (split_bounds lb ub)) f /\ inb (snd (split_bounds lb ub)) r /\ v == f - r).
Proof. exact net_flux_range. Qed.
Print Assumptions C04_net_flux_range.

(* If what the solver holds is optimal for cobrapy's LP, the Solution's fluxes are steady-state,
   within every flux bound, and optimal for the flux-balance problem of the model; the solver's
   objective value is the objective at those fluxes.                                       *)
Theorem C04_optimize_sound : forall m sr,
  valid_model m -> is_opt (split_lp m) (flat (sr_primal sr)) ->
  let s := get_solution sr in
  feasible (net_lp m) (so_flux s) /\
  (forall v, feasible (net_lp m) v -> value (net_lp m) v <= value (net_lp m) (so_flux s)) /\
  value (split_lp m) (flat (sr_primal sr)) == value (net_lp m) (so_flux s).
Proof. exact optimize_sound. Qed.
Print Assumptions C04_optimize_sound.

(* infeasible / unbounded flux-balance problems are infeasible / unbounded for the solver *)
Theorem C04_verdicts_transfer : forall m, valid_model m ->
  (infeasible (net_lp m) -> forall zs, ~ feasible (split_lp m) (flat zs)) /\
  (unbounded (net_lp m) -> unbounded (split_lp m)).
Proof. intros m Hv. split; [apply net_infeasible_split_infeasible|apply net_unbounded_split_unbounded]; exact Hv. Qed.
Print Assumptions C04_verdicts_transfer.

(* the exact oracle's three verdicts mean what they say (weak duality; no strong duality used) *)
Theorem C04_certificates : forall p,
  (forall x y, check_opt p x y = true -> is_opt p x) /\
  (forall y, check_infeasible p y = true -> infeasible p) /\
  (forall x r, check_unbounded p x r = true -> unbounded p).
Proof.
  intros p. split; [|split].
  - intros x y H. apply (check_opt_sound p x y H).
  - apply check_infeasible_sound.
  - apply check_unbounded_sound.
Qed.
Print Assumptions C04_certificates.

(* shadow prices that satisfy complementary slackness with the returned fluxes certify optimality *)
Theorem C04_shadow_prices_certify : forall p v ys,
  Forall (fun r => r_lo r = Fin 0 /\ r_hi r = Fin 0) (rows p) ->
  feasible p v ->
  (forall n, match nth_error (vbounds p) n, nth_error (vsub (obj p) (comb ys (rows p))) n, nth_error v n with
             | Some b, Some dn, Some vn => cs_ok b dn vn | _, _, _ => True end) ->
  is_opt p v.
Proof. exact cs_certifies_opt. Qed.
Print Assumptions C04_shadow_prices_certify.

(* reduced cost = objective coefficient - stoichiometry-weighted shadow prices *)
Theorem C04_reduced_costs : forall m sr,
  duals_consistent m sr ->
  Forall2 (fun r d => d == rx_obj r - dot (rx_col r) (so_shadow (get_solution sr)))
          (rxns m) (so_reduced (get_solution sr)).
Proof. exact reduced_costs_spec. Qed.
Print Assumptions C04_reduced_costs.

(* slim_optimize: a value only when optimal; otherwise the caller's error value or the exception
   the (regenerated) status table maps the status to                                       *)
Theorem C04_slim_error_value : forall sr hev,
  (sr_status sr = Optimal -> slim_optimize exn_table sr hev = SlimValue (sr_obj sr)) /\
  (sr_status sr <> Optimal -> hev = true -> slim_optimize exn_table sr hev = SlimError) /\
  (sr_status sr <> Optimal -> hev = false ->
     slim_optimize exn_table sr hev = SlimRaise (lookup_exn exn_table (sr_status sr))).
Proof. intros. apply slim_error_value. Qed.
Print Assumptions C04_slim_error_value.

(* side condition on the regenerated table: infeasible and unbounded map to their own exceptions *)
Example C04_table_ok :
  lookup_exn exn_table Infeasible = ExInfeasible /\ lookup_exn exn_table Unbounded = ExUnbounded /\
  get_solution_raises has_primals Unbounded = true /\ get_solution_raises has_primals Infeasible = false.
Proof. vm_compute. repeat split. Qed.

(* non-vacuity: a two-reaction model (uptake <= 10 feeding a sink) has an optimum of 10 *)
Definition toy : fbamodel :=
  mkFba 1 [mkRxn [1] (Fin 0) (Fin 10) 0; mkRxn [-1] (Fin 0) (Fin 1000) 1] true.
Example C04_toy : valid_model toy /\ is_opt (net_lp toy) [10; 10] /\ check_opt (net_lp toy) [10; 10] [-1] = true.
Proof.
  split; [apply valid_model_b_ok; reflexivity|]. split; [apply (check_opt_sound _ _ [-1]); reflexivity|reflexivity].
Qed.
