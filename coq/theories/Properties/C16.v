(* C16 — every flux sample is a feasible flux distribution.
   Model: coq/theories/Sampling/Step.v (core.step, _bounds_dist, validate, fwd/rev projection, the
   chain iteration of ACHR / OptGP) over Q; random draws, the SVD null space and floating point
   are NOT modelled (partial claim): feasibility of the real samples is checked per sample by
   feasible_tol, proved sound below.  This file only states the theorems.                       *)
From Coq Require Import ZArith List Bool QArith Qabs.
From Cobra.Sampling Require Import Step Proofs.
Import ListNotations.
Open Scope Q_scope.

(* ---- step_keeps_feasible.  Whatever the draws (position theta in the alpha range, the rows and
   positions drawn on retries): if equalities.x = b, equalities.delta = 0, the centre and the
   warm-up points satisfy the equalities, and step returns a point (no RuntimeError), then that
   point satisfies the equalities exactly and every variable bound and inequality row within
   bounds_tol (the tolerance of the guard).                                                      *)
Theorem C16_step_keeps_feasible :
  forall S x delta theta retries p,
  let A := p_eq (s_prob S) in let b := p_b (s_prob S) in
  eq_holds A b (s_center S) ->
  (forall w, In w (s_warmup S) -> eq_holds A b w /\ length w = length (s_center S)) ->
  length delta = length x -> eq_holds A b x -> dir_zero A delta ->
  step S x delta theta retries = Some p ->
  eq_holds A b p /\ InBounds S p.
Proof.
  intros S x delta theta retries p A b Hc Hw Hl Hx Hd H. unfold step in H.
  destruct (step_from_feasible S Hc Hw _ _ _ _ _ _ Hl Hx Hd H) as [E [B _]]. auto.
Qed.
Print Assumptions C16_step_keeps_feasible.

(* ---- chain_feasible.  Induction over a chain of iterations (ACHR: own = true, the retry centre
   is the chain's centre; OptGP: own = false): from a state whose point and centre satisfy the
   equalities, every later point and centre satisfy them, and every point is within the guard's
   bounds or is the mean of two warm-up points (the _reproject fallback).                        *)
Theorem C16_chain_feasible :
  forall own S n ds st l,
  let A := p_eq (s_prob S) in let b := p_b (s_prob S) in
  (forall w, In w (s_warmup S) -> eq_holds A b w /\ length w = n) ->
  eq_holds A b (s_center S) -> length (s_center S) = n ->
  Inv S n st -> chain own S st ds = Some l ->
  Forall (fun st' => eq_holds A b (c_prev st') /\ eq_holds A b (c_center st') /\
                     (InBounds S (c_prev st') \/ from_warmup S (c_prev st'))) l.
Proof. intros. eapply chain_ok; eauto. Qed.
Print Assumptions C16_chain_feasible.

(* the fallback point is inside the (tolerance-widened) variable bounds when the warm-up points are *)
Theorem C16_mean_of_warmup_in_bounds :
  forall tol lb ub a b,
  LowerOK tol lb a -> LowerOK tol lb b -> UpperOK tol ub a -> UpperOK tol ub b ->
  LowerOK tol lb (mean2 a b) /\ UpperOK tol ub (mean2 a b).
Proof. intros. split; [apply LowerOK_mean2 | apply UpperOK_mean2]; assumption. Qed.
Print Assumptions C16_mean_of_warmup_in_bounds.

(* ---- validate_sem *)
Theorem C16_validate_sem :
  forall ftol btol feas lb_err ub_err,
  (validate_code ftol btol feas lb_err ub_err = [Lv] <-> (feas < ftol /\ - btol < lb_err /\ - btol < ub_err)) /\
  (In Ll (validate_code ftol btol feas lb_err ub_err) <-> lb_err <= - btol) /\
  (In Lu (validate_code ftol btol feas lb_err ub_err) <-> ub_err <= - btol) /\
  (In Le (validate_code ftol btol feas lb_err ub_err) <-> ftol < feas).
Proof. intros. split; [apply validate_code_v | apply validate_code_letters]. Qed.
Print Assumptions C16_validate_sem.

(* ---- flux_of_vars_in_bounds: with cobrapy's mapping of [lb, ub] onto the forward / reverse pair
   (Reaction.update_variable_bounds), variables within t of their bounds give a net flux within
   2t of the reaction bounds (exactly inside for t = 0).                                         *)
Theorem C16_flux_of_vars_in_bounds :
  forall lb ub f r t, lb <= ub -> 0 <= t ->
  let '(flb, fub, rlb, rub) := var_bounds_of lb ub in
  flb - t <= f <= fub + t -> rlb - t <= r <= rub + t -> lb - 2 * t <= f - r <= ub + 2 * t.
Proof. exact flux_of_vars_in_bounds. Qed.
Print Assumptions C16_flux_of_vars_in_bounds.

(* ---- the per-sample checker is sound *)
Theorem C16_feasible_tol_sound :
  forall tol Smat b lb ub extra elb eub v,
  feasible_tol tol Smat b lb ub extra elb eub v = true ->
  Forall (fun r => length r = length v) Smat /\ Forall (fun r => length r = length v) extra /\
  AllClose tol (mulv Smat v) b /\ AllWithin tol lb ub v /\ AllWithin tol elb eub (mulv extra v).
Proof. exact feasible_tol_sound. Qed.
Print Assumptions C16_feasible_tol_sound.

(* ---- non-vacuity: x1 + x2 = 1 in [0,1]^2, from (1/2,1/2) along (1,-1) *)
Definition ex_prob : problem :=
  mkProb [[1; 1]] [1] [] [] [] [false; false] [Some 0; Some 0] [Some 1; Some 1] false.
Definition ex_S : sampler := mkS ex_prob (1 # 10000000) (1 # 10000000) [1 # 2; 1 # 2] [[1; 0]; [0; 1]] 1 1000.

Example C16_ex_step :
  eq_holds (p_eq ex_prob) (p_b ex_prob) [1 # 2; 1 # 2] /\ dir_zero (p_eq ex_prob) [1; -1] /\
  (* alpha range = [-(1/2 - t), 1/2 - t] with t = bounds_tol; theta = 3/4 gives alpha = 1/4 - t/2 *)
  option_map (map Qred) (step ex_S [1 # 2; 1 # 2] [1; -1] (3 # 4) []) =
    Some [14999999 # 20000000; 5000001 # 20000000].
Proof.
  split; [repeat constructor; vm_compute; reflexivity|]. split; [repeat constructor; vm_compute; reflexivity|].
  vm_compute. reflexivity.
Qed.

(* a point outside the bounds in a coordinate the direction does not move is rejected by the guard
   and the step restarts from the centre towards the scripted warm-up row *)
Example C16_ex_retry :
  step ex_S [2; -1] [0; 0] (1 # 2) [] = None /\
  match step ex_S [2; -1] [0; 0] (1 # 2) [(0%nat, 1 # 2)] with
  | Some p => bounds_ok ex_S p = true /\ dot [1; 1] p == 1
  | None => False end.
Proof. vm_compute. repeat split; reflexivity. Qed.

Example C16_ex_validate :
  validate_code (1 # 10) (1 # 10) 0 (1 # 2) (1 # 2) = [Lv] /\
  validate_code (1 # 10) (1 # 10) 1 (- (1 # 2)) (1 # 2) = [Ll; Le] /\
  validate_code (1 # 10) (1 # 10) (1 # 10) 0 0 = [].
Proof. vm_compute. repeat split; reflexivity. Qed.
