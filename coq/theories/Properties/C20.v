(* C20 — summaries report the fluxes of the solution they describe.
   Model: coq/theories/Summary/Model.v (ModelSummary._generate, MetaboliteSummary._generate over Q).
   This file only states the property theorems and prints their assumptions.                     *)
From Coq Require Import ZArith List Bool QArith Qabs Permutation.
From Cobra.Summary Require Import Model Proofs Tie.
From Cobra.Gen Require Import SummaryGen.
Import ListNotations.
Open Scope Q_scope.

(* ---- summary_partition.  Every boundary reaction is listed exactly once, in uptake or in
   secretion (never both); likewise every reaction of a metabolite in producing or consuming.
   Needs only that the stoichiometric coefficient is not zero (cobrapy never stores a zero
   coefficient).                                                                               *)
Theorem C20_summary_partition_model :
  forall tol rs s fva,
  (forall r m c, In r rs -> x_mets r = [(m, c)] -> ~ c == 0) ->
  let rows := model_rows tol rs s fva in
  Permutation (map s_rxn (uptake rows) ++ map s_rxn (secretion rows)) (map x_id (filter is_boundary rs)) /\
  (NoDup (map x_id rs) -> NoDup (map s_rxn (uptake rows) ++ map s_rxn (secretion rows))) /\
  (forall row, In row rows -> is_produced row && is_consumed row = false).
Proof. exact model_partition. Qed.
Print Assumptions C20_summary_partition_model.

Theorem C20_summary_partition_metabolite :
  forall tol rs s fva m,
  (forall r, In r rs -> has_met m r = true -> ~ coef m r == 0) ->
  let rows := met_rows tol rs s fva m in
  Permutation (map s_rxn (map p_row (producing rows)) ++ map s_rxn (map p_row (consuming rows)))
              (map x_id (filter (has_met m) rs)) /\
  (NoDup (map x_id rs) ->
   NoDup (map s_rxn (map p_row (producing rows)) ++ map s_rxn (map p_row (consuming rows)))) /\
  (forall row, In row rows -> is_produced row && is_consumed row = false).
Proof.
  intros tol rs s fva m H rows. unfold producing, consuming. rewrite !with_percent_rows.
  exact (met_partition tol rs s fva m H).
Qed.
Print Assumptions C20_summary_partition_metabolite.

(* Which side: by the sign of the scaled flux v*c when it is shown (|v*c| >= tolerance, not zero);
   a flux that is zero or below the tolerance is shown as 0 and goes by the sign of the
   coefficient (uptake / producing when the metabolite is a product of the reaction).          *)
Theorem C20_summary_side :
  forall tol rg rid mid c v, 0 <= tol ->
  let row := scale_row tol rg rid mid c v in
  (is_produced row = true <->
     (0 < v * c /\ tol <= v * c) \/ ((Qabs (v * c) < tol \/ v * c == 0) /\ 0 < c)) /\
  (is_consumed row = true <->
     (v * c < 0 /\ tol <= - (v * c)) \/ ((Qabs (v * c) < tol \/ v * c == 0) /\ c < 0)).
Proof. intros. split; [apply row_side_produced | apply row_side_consumed]; assumption. Qed.
Print Assumptions C20_summary_side.

(* ---- summary_flux.  Each row carries solution flux x coefficient (0 below the tolerance). *)
Theorem C20_summary_flux_model :
  forall tol rs s fva row, In row (model_rows tol rs s fva) ->
  exists r m c, In r rs /\ x_mets r = [(m, c)] /\
    s_rxn row = x_id r /\ s_met row = m /\ s_factor row = c /\
    s_flux row = where_ge tol (getq (x_id r) s * c) /\
    ((tol <= Qabs (getq (x_id r) s * c) /\ s_flux row = getq (x_id r) s * c) \/
     (Qabs (getq (x_id r) s * c) < tol /\ s_flux row = 0)).
Proof.
  intros tol rs s fva row H. apply model_row_in in H. destruct H as [r [m [c [Hin [Hm ->]]]]].
  exists r, m, c. rewrite scale_row_rxn, scale_row_met, scale_row_factor, scale_row_flux.
  repeat split; auto. apply where_ge_spec.
Qed.
Print Assumptions C20_summary_flux_model.

Theorem C20_summary_flux_metabolite :
  forall tol rs s fva m row, In row (met_rows tol rs s fva m) ->
  exists r, In r rs /\ has_met m r = true /\
    s_rxn row = x_id r /\ s_factor row = coef m r /\
    s_flux row = where_ge tol (getq (x_id r) s * coef m r) /\
    ((tol <= Qabs (getq (x_id r) s * coef m r) /\ s_flux row = getq (x_id r) s * coef m r) \/
     (Qabs (getq (x_id r) s * coef m r) < tol /\ s_flux row = 0)).
Proof.
  intros tol rs s fva m row H. apply met_row_in in H. destruct H as [r [Hin [Hm ->]]].
  exists r. rewrite scale_row_rxn, scale_row_factor, scale_row_flux.
  repeat split; auto. apply where_ge_spec.
Qed.
Print Assumptions C20_summary_flux_metabolite.

Theorem C20_objective_value :
  forall obj s, objective_value obj s == qsum (map (fun rc => snd rc * getq (fst rc) s) obj).
Proof. exact objective_value_sum. Qed.
Print Assumptions C20_objective_value.

(* ---- met_balance.  Steady state of the metabolite (sum over ALL reactions of coef * flux = 0):
   producing total >= 0, consuming total <= 0, they balance up to (number of rows) x tolerance,
   and exactly when no flux of the metabolite falls strictly between 0 and the tolerance.      *)
Theorem C20_met_balance :
  forall tol rs s fva m, 0 <= tol ->
  raw_total s m rs == 0 ->
  let rows := met_rows tol rs s fva m in
  let P := flux_total (map p_row (producing rows)) in
  let C := flux_total (map p_row (consuming rows)) in
  0 <= P /\ C <= 0 /\
  Qabs (P - Qabs C) <= inject_Z (Z.of_nat (length rows)) * tol /\
  ((forall r, In r rs -> has_met m r = true ->
      tol <= Qabs (getq (x_id r) s * coef m r) \/ getq (x_id r) s * coef m r == 0) -> P == Qabs C).
Proof.
  intros tol rs s fva m Ht Hs rows. unfold producing, consuming. rewrite !with_percent_rows.
  exact (met_balance tol rs s fva m Ht Hs).
Qed.
Print Assumptions C20_met_balance.

(* ---- percent_sum.  On each side the percentages are |flux| / total and sum to one when the
   total is not zero; when it is zero every percentage is NaN (None).                          *)
Theorem C20_percent_sum :
  forall rows, ~ abs_total rows == 0 ->
  (forall p, In p (with_percent rows) -> p_percent p = Some (Qabs (s_flux (p_row p)) / abs_total rows)) /\
  qsum (map pct_or_zero (with_percent rows)) == 1.
Proof. exact with_percent_sum. Qed.
Print Assumptions C20_percent_sum.

Theorem C20_percent_nan :
  forall rows, abs_total rows == 0 -> forall p, In p (with_percent rows) -> p_percent p = None.
Proof. exact with_percent_nan. Qed.
Print Assumptions C20_percent_nan.

(* ---- fva_scaling.  The displayed range is the (tolerance-zeroed) FVA range times the factor,
   swapped for negative factors; it is ordered when the FVA range is; it contains the displayed
   flux when the FVA range contains the solution flux -- exactly when nothing is zeroed, and
   within tol * (1 + |factor|) in general (the code zeroes the flux AFTER and the range BEFORE
   the multiplication, so the two can differ by that much).                                      *)
Theorem C20_fva_scaling :
  forall tol mn mx rid mid c v, 0 <= tol ->
  let row := scale_row tol (Some (mn, mx)) rid mid c v in
  exists lo hi, s_range row = Some (lo, hi) /\
    (lo, hi) = (if Qltb c 0 then (where_ge tol mx * c, where_ge tol mn * c)
                else (where_ge tol mn * c, where_ge tol mx * c)) /\
    (mn <= mx -> lo <= hi) /\
    (mn <= v <= mx -> where_ge tol mn == mn -> where_ge tol mx == mx -> where_ge tol (v * c) == v * c ->
       lo <= s_flux row <= hi) /\
    (mn <= v <= mx -> lo - tol * (1 + Qabs c) <= s_flux row <= hi + tol * (1 + Qabs c)).
Proof.
  intros tol mn mx rid mid c v Ht row. subst row. rewrite scale_row_range, scale_row_flux.
  destruct (if Qltb c 0 then (where_ge tol mx * c, where_ge tol mn * c)
            else (where_ge tol mn * c, where_ge tol mx * c)) as [lo hi] eqn:E.
  exists lo, hi. split; [reflexivity|]. split; [reflexivity|]. split; [|split].
  - intro Hm. eapply range_ordered; eauto.
  - intros. eapply range_contains_exact; eauto.
  - intros. eapply range_contains_tol; eauto.
Qed.
Print Assumptions C20_fva_scaling.

Theorem C20_no_fva_no_range :
  forall tol rid mid c v, s_range (scale_row tol None rid mid c v) = None.
Proof. reflexivity. Qed.
Print Assumptions C20_no_fva_no_range.

(* ---- a partial fva frame (computed for a reaction_list): a reaction without a row is still listed --
   the partition and flux theorems above hold for EVERY frame, no coverage is assumed -- with its flux
   and the range (0, 0) (pandas: the left join gives NaN, `where(|x| >= tol, 0)` turns NaN into 0).   *)
Theorem C20_missing_fva_row :
  forall tol f rid mid c v, lookup rid f = None ->
  let row := scale_row tol (row_range (Some f) rid) rid mid c v in
  s_rxn row = rid /\ s_flux row = where_ge tol (v * c) /\
  (exists lo hi, s_range row = Some (lo, hi) /\ lo == 0 /\ hi == 0).
Proof.
  intros tol f rid mid c v H row. subst row. unfold row_range, get_range. rewrite H.
  rewrite scale_row_rxn, scale_row_flux, scale_row_range. repeat split.
  assert (Z0 : where_ge tol 0 = 0) by (unfold where_ge; destruct (Qle_bool tol (Qabs 0)); reflexivity).
  rewrite Z0. destruct (Qltb c 0); eexists; eexists; (split; [reflexivity|]); split; ring.
Qed.
Print Assumptions C20_missing_fva_row.

(* ---- tie to the source: comparison operators, sign test, scaling and zeroing order as read from
   model_summary.py / metabolite_summary.py on this run.                                          *)
Theorem C20_source_skeleton :
  agrees msum_is_produced msum_is_consumed msum_negative msum_scale msum_keep_fva msum_zero_nofva /\
  agrees metsum_is_produced metsum_is_consumed metsum_negative metsum_scale metsum_keep_fva metsum_zero_nofva.
Proof. split; [exact model_summary_source_agrees | exact metabolite_summary_source_agrees]. Qed.
Print Assumptions C20_source_skeleton.

(* ---- non-vacuity: a four-reaction network  EX_A: A_e --> (export form, coefficient -1),
   IM_C: --> 2 C_e (import form, coefficient 2), T1: A_e --> B_c, T2: 2 B_c --> C_e.            *)
Definition ex_rs : list rxn :=
  [ mkR 0 [(0%Z, -1)]; mkR 2 [(0%Z, -1); (1%Z, 1)]; mkR 1 [(2%Z, 2)]; mkR 3 [(1%Z, -2); (2%Z, 1)] ].
Definition ex_sol : solution := [(0%Z, -10); (1%Z, -(5 # 2)); (2%Z, 10); (3%Z, 5)].
Definition ex_fva : fva_frame :=
  [(0%Z, (-10, -9)); (1%Z, (-(5 # 2), -(9 # 4))); (2%Z, (9, 10)); (3%Z, (9 # 2, 5))].
Definition ex_tol : Q := 1 # 10000000.

Example C20_ex_model :
  map (fun r => (s_rxn r, s_flux r, s_range r)) (uptake (model_rows ex_tol ex_rs ex_sol (Some ex_fva)))
    = [(0%Z, -10 * -1, Some (-9 * -1, -10 * -1))] /\
  map (fun r => (s_rxn r, s_flux r, s_range r)) (secretion (model_rows ex_tol ex_rs ex_sol (Some ex_fva)))
    = [(1%Z, -(5 # 2) * 2, Some (-(5 # 2) * 2, -(9 # 4) * 2))].
Proof. vm_compute. split; reflexivity. Qed.

Example C20_ex_steady_state : raw_total ex_sol 1 ex_rs == 0 /\ raw_total ex_sol 0 ex_rs == 0.
Proof. vm_compute. split; reflexivity. Qed.

Example C20_ex_metabolite :
  map (fun p => (s_rxn (p_row p), Qred (s_flux (p_row p)), option_map Qred (p_percent p)))
      (producing (met_rows ex_tol ex_rs ex_sol None 1)) = [(2%Z, 10, Some 1)] /\
  map (fun p => (s_rxn (p_row p), Qred (s_flux (p_row p)), option_map Qred (p_percent p)))
      (consuming (met_rows ex_tol ex_rs ex_sol None 1)) = [(3%Z, -10, Some 1)] /\
  ~ abs_total (filter is_produced (met_rows ex_tol ex_rs ex_sol None 1)) == 0.
Proof. vm_compute. repeat split; try reflexivity. intro H; discriminate H. Qed.

(* a flux below the tolerance is shown as 0 on the side given by the coefficient's sign *)
Example C20_ex_below_tolerance :
  let row := scale_row ex_tol None 0 0 (-1) (1 # 100000000) in
  s_flux row = 0 /\ is_consumed row = true /\ is_produced row = false.
Proof. vm_compute. auto. Qed.
