(* C18 — medium get/set are inverse and a minimal medium is sufficient and minimal.
   This file only states the property theorems and prints their assumptions. *)
From Coq Require Import String QArith List Bool.
From Cobra.LP Require Import Defs Cert Fba.
From Cobra.Medium Require Import Model Proofs MinMedium MinProofs MilpProofs.
From Cobra.Gen Require Import MediumTables.
Import ListNotations.
Open Scope Q_scope.

(* ---------------- medium setter / getter ---------------- *)

(* What an assignment does, reaction by reaction (mu = the dictionary, keys = reaction indices,
   no key twice): a listed reaction gets set_active_bound(value), an unlisted exchange is closed by
   the code's rule, everything else is untouched.                                              *)
Theorem C18_medium_set_effect : forall w mu w', NoDup (map fst mu) -> medium_set w mu = Ok w' ->
  length w' = length w /\
  forall i r, nth_error w i = Some r ->
    exists r', nth_error w' i = Some r' /\
      match assoc i mu with
      | Some b => set_active_bound r (Fin b) = Some r'
      | None => if x_exch r then close_rxn r = Some r' else r' = r
      end.
Proof. exact medium_set_effect. Qed.
Print Assumptions C18_medium_set_effect.

(* In the words of the property, for exchanges written in either notation: the import bound of a
   listed exchange becomes the given value, the import bound of every other exchange becomes
   min(0, old import bound) (closed), export bounds are untouched, nothing else changes.       *)
Theorem C18_medium_set_bounds : forall w mu w',
  wf_world w = true -> NoDup (map fst mu) -> medium_set w mu = Ok w' ->
  length w' = length w /\
  forall i r, nth_error w i = Some r ->
    exists r', nth_error w' i = Some r' /\
      x_exch r' = x_exch r /\ x_react r' = x_react r /\ x_prod r' = x_prod r /\
      (x_exch r = true ->
         export_bound r' = export_bound r /\
         import_bound r' = match assoc i mu with Some b => Fin b | None => emin0 (import_bound r) end) /\
      (x_exch r = false -> assoc i mu = None -> r' = r).
Proof. exact medium_set_bounds. Qed.
Print Assumptions C18_medium_set_bounds.

(* Reading the medium back returns exactly the entries with positive value (each key once). *)
Theorem C18_medium_set_get : forall w mu w',
  wf_world w = true -> NoDup (map fst mu) ->
  (forall i b, In (i, b) mu -> exists r, nth_error w i = Some r /\ x_exch r = true) ->
  medium_set w mu = Ok w' ->
  NoDup (map fst (medium_get w')) /\
  forall i v, In (i, v) (medium_get w') <-> exists b, In (i, b) mu /\ 0 < b /\ v = Some (Fin b).
Proof. intros. split; [apply medium_get_nodup|eapply medium_set_get; eauto]. Qed.
Print Assumptions C18_medium_set_get.

(* When the assignment is accepted (mirror of Reaction._check_bounds): every key exists and its value
   is accepted by the bound setter, and every unlisted exchange can be closed.                  *)
Theorem C18_medium_set_ok_iff : forall w mu, NoDup (map fst mu) ->
  ((exists w', medium_set w mu = Ok w') <->
   (forall i b, In (i, b) mu -> exists r, nth_error w i = Some r /\ set_active_bound r (Fin b) <> None) /\
   (forall i r, nth_error w i = Some r -> x_exch r = true -> assoc i mu = None -> close_rxn r <> None)).
Proof. exact medium_set_ok_iff. Qed.
Print Assumptions C18_medium_set_ok_iff.

(* ... a listed value is rejected exactly when it conflicts with the export bound, closing is
   rejected exactly when the exchange is forced to import.                                      *)
Theorem C18_set_raises_iff : forall r, wf_xr r = true -> x_exch r = true ->
  (forall b, set_active_bound r (Fin b) = None <->
     (if x_react r then egt (Fin (- b)) (x_ub r) else egt (x_lb r) (Fin b)) = true) /\
  (valid_b (x_lb r) (x_ub r) = true ->
     (close_rxn r = None <-> (if x_react r then eneg (x_ub r) else epos (x_lb r)) = true)).
Proof. intros r W E. split; [intros b; now apply listed_raises_iff|intros V; now apply close_raises_iff]. Qed.
Print Assumptions C18_set_raises_iff.

(* is_boundary_type: an SBO annotation decides (for any tables; the side condition is checked below) *)
Theorem C18_sbo_dominates : forall excl sbo r bt own,
  lookup bt sbo = Some own ->
  (ri_sbo r = own -> is_boundary_type excl sbo r bt = Some true) /\
  (forall k v, distinct_vals sbo = true -> In (k, v) sbo -> k <> bt -> ri_sbo r = v -> v <> own ->
     is_boundary_type excl sbo r bt = Some false).
Proof.
  intros excl sbo r bt own L. split; [now apply sbo_own_true|].
  intros k v D Hin Hk Hs Hv. eapply sbo_other_false; eauto.
Qed.
Print Assumptions C18_sbo_dominates.

(* side condition on the regenerated tables *)
Example C18_tables_ok : tables_wf excludes sbo_terms = true.
Proof. vm_compute. reflexivity. Qed.

(* non-vacuity: `A -->` with bounds (-10, 1000), `--> B` with bounds (-1000, 7), an internal reaction *)
Definition toy_w : world :=
  [mkXr true true false (Fin (-10)) (Fin 1000); mkXr true false true (Fin (-1000)) (Fin 7);
   mkXr false true true (Fin 0) (Fin 1000)].
Example C18_toy :
  wf_world toy_w = true /\
  medium_get toy_w = [(0%nat, Some (Fin (- -10))); (1%nat, Some (Fin 7))] /\
  medium_set toy_w [(1%nat, 3)] =
    Ok [mkXr true true false (Fin (- 0)) (Fin 1000); mkXr true false true (Fin (-1000)) (Fin 3);
        mkXr false true true (Fin 0) (Fin 1000)] /\
  medium_set [mkXr true true false (Fin (-10)) (Fin (-1))] [] = Raised ValueError [mkXr true true false (Fin (-10)) (Fin (-1))].
Proof. vm_compute. repeat split. Qed.

(* ---------------- minimal_medium ---------------- *)

(* Linear version.  If what the solver holds is optimal for the problem built by add_linear_obj + the
   growth constraint (forward/reverse encoding), then the net fluxes v are a flux distribution of the
   model reaching min_objective_value, the minimised quantity is the total import flux of v (= the sum
   of the returned medium, see C18_as_medium_total) and no flux distribution reaching the value within
   the current bounds imports less in total.                                                  *)
Theorem C18_min_medium_lp : forall m ex t zs, valid_model m -> is_opt (mm_lp m ex t) (flat zs) ->
  let v := nets zs in
  feasible (net_lp m) v /\ t <= dot (cvec m) v /\
  dot (imp_flat ex) (flat zs) == total_import ex v /\
  forall v', feasible (net_lp m) v' -> t <= dot (cvec m) v' -> total_import ex v <= total_import ex v'.
Proof. exact min_medium_lp. Qed.
Print Assumptions C18_min_medium_lp.

(* The returned medium (positive import fluxes of v) is sufficient: assigning it with the medium setter
   is accepted and keeps v feasible, so the optimum of the model on that medium reaches the value. *)
Theorem C18_medium_sufficient : forall m ex v,
  valid_model m -> length ex = length (rxns m) -> feasible (net_lp m) v ->
  exists m', apply_medium m ex (as_medium false ex v) = Some m' /\
             feasible (net_lp m') v /\ cvec m' = cvec m /\ valid_model m'.
Proof. exact medium_sufficient. Qed.
Print Assumptions C18_medium_sufficient.

(* None (solver status not optimal) exactly when no medium within the current bounds suffices; the
   problem is never unbounded, so "not optimal" can only mean infeasible.                      *)
Theorem C18_min_medium_none : forall m ex t, valid_model m ->
  (infeasible (mm_lp m ex t) <-> ~ exists v, feasible (net_lp m) v /\ t <= dot (cvec m) v) /\
  (forall x, feasible (mm_lp m ex t) x -> value (mm_lp m ex t) x <= 0).
Proof. intros m ex t Hv. split; [now apply min_medium_none|intros x; now apply mm_bounded]. Qed.
Print Assumptions C18_min_medium_none.

(* minimize_components: an optimum of the MILP of add_mip_obj (big_m at least every |bound| of an
   exchange) uses the smallest possible number of importing exchanges, and that number is the value of
   the MILP objective.                                                                         *)
Theorem C18_min_medium_milp : forall m ex t M zs inds,
  valid_model m -> length ex = length (rxns m) -> bigm_ok M ex (rxns m) ->
  mip_opt m ex t M zs inds ->
  let v := nets zs in
  feasible (net_lp m) v /\ t <= dot (cvec m) v /\
  ind_sum ex inds == inject_Z (Z.of_nat (ncomp ex v)) /\
  forall v', feasible (net_lp m) v' -> t <= dot (cvec m) v' -> (ncomp ex v <= ncomp ex v')%nat.
Proof. exact min_medium_milp. Qed.
Print Assumptions C18_min_medium_milp.

(* The exact oracle used by the correspondence for the number of components (all 2^k subsets of the
   exchanges generated inside Coq, one LP certificate each) is sound.                          *)
Theorem C18_check_components_sound : forall m ex t certs, length ex = length (rxns m) ->
  (forall n, check_components m ex t certs = Some (Some n) ->
     (exists v, feasible (net_lp m) v /\ t <= dot (cvec m) v /\ (ncomp ex v <= n)%nat) /\
     (forall v, feasible (net_lp m) v -> t <= dot (cvec m) v -> (n <= ncomp ex v)%nat)) /\
  (check_components m ex t certs = Some None ->
     forall v, feasible (net_lp m) v -> ~ t <= dot (cvec m) v).
Proof. exact check_components_sound. Qed.
Print Assumptions C18_check_components_sound.

(* Alternatives (minimize_components = k > 1) being pairwise different is not a theorem here; it is
   monitored on every returned DataFrame (docs/C18.md).                                         *)

(* non-vacuity: uptake A (written `A -->`, import <= 10) feeding a sink with objective 1; target 4 *)
Definition toy_mm : fbamodel :=
  mkFba 1 [mkRxn [-1] (Fin (-10)) (Fin 1000) 0; mkRxn [-1] (Fin 0) (Fin 1000) 1] true.
Example C18_toy_mm :
  valid_model toy_mm /\
  is_opt (mm_lp toy_mm [Some true; None] 4) (flat [(0, 4); (4, 0)]) /\
  as_medium false [Some true; None] (nets [(0, 4); (4, 0)]) = [(0%nat, - (0 - 4))] /\
  check_components toy_mm [Some true; None] 4 [SOpt [0; 0] [-1]; SOpt [-10; 10] [-1]] = Some (Some 1%nat).
Proof.
  split; [apply valid_model_b_ok; reflexivity|].
  split; [apply (check_opt_sound _ _ [-1; -1]); vm_compute; reflexivity|].
  split; vm_compute; reflexivity.
Qed.
