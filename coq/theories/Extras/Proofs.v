(* Kernel IV: every operation of the repaired model (`vfix`) preserves the invariant; the code as found does not. *)
From Coq Require Import ZArith List Bool Lia.
From Cobra.Extras Require Import Model Inv.
Import ListNotations.
Open Scope Z_scope.

(* ---------- names ---------- *)
Lemma vname_eqb_spec a b : reflect (a = b) (vname_eqb a b).
Proof.
  destruct a as [x|x|x], b as [y|y|y]; cbn [vname_eqb]; try (constructor; discriminate);
    destruct (Z.eqb_spec x y); constructor; congruence.
Qed.
Lemma cname_eqb_spec a b : reflect (a = b) (cname_eqb a b).
Proof.
  destruct a as [x|x], b as [y|y]; cbn [cname_eqb]; try (constructor; discriminate);
    destruct (Z.eqb_spec x y); constructor; congruence.
Qed.
Lemma vname_eqb_refl a : vname_eqb a a = true.
Proof. destruct (vname_eqb_spec a a); congruence. Qed.
Lemma vname_eqb_true a b : vname_eqb a b = true -> a = b.
Proof. destruct (vname_eqb_spec a b); [trivial|discriminate]. Qed.
Lemma cname_eqb_true a b : cname_eqb a b = true -> a = b.
Proof. destruct (cname_eqb_spec a b); [trivial|discriminate]. Qed.
Lemma cname_eqb_refl a : cname_eqb a a = true.
Proof. destruct (cname_eqb_spec a a); congruence. Qed.

(* projections of the setters and of the solver primitives compute *)
Ltac prj := cbn [rin rb sto min back vin vb oc cin cb co odir exact uv uc uct
  set_rin set_rb set_sto set_min set_back set_vin set_vb set_oc set_cin set_cb set_co set_odir set_exact
  set_uv set_uc set_uct sv_add_var sv_remove_var sv_add_cons sv_remove_cons var_set_bounds].
Ltac prjH H := cbn [rin rb sto min back vin vb oc cin cb co odir exact uv uc uct
  set_rin set_rb set_sto set_min set_back set_vin set_vb set_oc set_cin set_cb set_co set_odir set_exact
  set_uv set_uc set_uct sv_add_var sv_remove_var sv_add_cons sv_remove_cons var_set_bounds] in H.
Ltac red1 := unfold updv, updz, updc; cbn [exp_vin exp_vb exp_cin exp_cb exp_co vname_eqb cname_eqb is_some]; prj;
  unfold updv, updz, updc; cbn [vname_eqb cname_eqb is_some].
Ltac red1H H := unfold updv, updz, updc in H; cbn [exp_vin exp_vb exp_cin exp_cb exp_co vname_eqb cname_eqb is_some] in H; prjH H;
  unfold updv, updz, updc in H; cbn [vname_eqb cname_eqb is_some] in H.
Ltac zc := repeat match goal with
  | |- context [?a =? ?b] => destruct (Z.eqb_spec a b); subst
  | H : context [?a =? ?b] |- _ => destruct (Z.eqb_spec a b); subst
  end.

(* the invariant read at the names *)
Section Facts.
  Variable s : st.
  Hypothesis HI : Inv s.
  Lemma F_vinF r : vin s (VF r) = rin s r. Proof. exact (I_vin s HI (VF r)). Qed.
  Lemma F_vinR r : vin s (VR r) = rin s r. Proof. exact (I_vin s HI (VR r)). Qed.
  Lemma F_vinU k : vin s (VU k) = is_some (uv s k). Proof. exact (I_vin s HI (VU k)). Qed.
  Lemma F_cinM m : cin s (CM m) = min s m. Proof. exact (I_cin s HI (CM m)). Qed.
  Lemma F_cinU k : cin s (CU k) = is_some (uc s k). Proof. exact (I_cin s HI (CU k)). Qed.
  Lemma F_uct0 k v : exp_vin s v = false -> uct s k v = 0.
  Proof.
    intros H. destruct (Z.eq_dec (uct s k v) 0) as [E|E]; [exact E|].
    destruct (I_lg s HI k v E) as [_ H1]. congruence.
  Qed.
  Lemma F_uct0' k v : uc s k = None -> uct s k v = 0.
  Proof.
    intros H. destruct (Z.eq_dec (uct s k v) 0) as [E|E]; [exact E|].
    destruct (I_lg s HI k v E) as [H1 _]. rewrite H in H1. discriminate.
  Qed.
  Lemma F_co0v c v : vin s v = false -> co s c v = 0.
  Proof.
    intros H. rewrite (I_co s HI). rewrite (I_vin s HI) in H. destruct c as [m|k]; cbn [exp_co].
    - destruct v as [r|r|k]; cbn [exp_vin] in H; [rewrite H..|]; reflexivity.
    - apply F_uct0. exact H.
  Qed.
  Lemma F_co0c c v : cin s c = false -> co s c v = 0.
  Proof.
    intros H. rewrite (I_co s HI). rewrite (I_cin s HI) in H. destruct c as [m|k]; cbn [exp_co exp_cin] in *.
    - rewrite H. destruct v as [r|r|k]; [rewrite andb_false_r..|]; reflexivity.
    - apply F_uct0'. destruct (uc s k); [discriminate|reflexivity].
  Qed.
  Lemma F_vb0 v : vin s v = false -> vb s v = free.
  Proof.
    intros H. rewrite (I_vb s HI). rewrite (I_vin s HI) in H.
    destruct v as [r|r|k]; cbn [exp_vb exp_vin] in *; [rewrite H; reflexivity..|].
    destruct (uv s k); [discriminate|reflexivity].
  Qed.
  Lemma F_cb0 c : cin s c = false -> cb s c = free.
  Proof.
    intros H. rewrite (I_cb s HI). rewrite (I_cin s HI) in H.
    destruct c as [m|k]; cbn [exp_cb exp_cin] in *; [rewrite H; reflexivity|].
    destruct (uc s k); [discriminate|reflexivity].
  Qed.
End Facts.

Theorem init_Inv : forall e, Inv (init e).
Proof.
  intros e. constructor; intros; try destruct v; try destruct c; cbn in *; try reflexivity; congruence.
Qed.

(* ---------- user variables and constraints ---------- *)
Lemma add_user_var_Inv k b s : Inv s -> vin s (VU k) = false -> Inv (add_user_var k b s).
Proof.
  intros HI Hn. pose proof HI as [A B C D E F G H I J K L]. unfold add_user_var.
  constructor; prj.
  - intros [r|r|k']; red1; try apply A. zc; [reflexivity|apply A].
  - intros [r|r|k']; red1; try apply B. zc; [reflexivity|apply B].
  - intros c. rewrite C. destruct c; reflexivity.
  - intros c. rewrite D. destruct c; reflexivity.
  - intros c v. rewrite E. destruct c; reflexivity.
  - intros [r|r|k']; red1; try apply F. zc; [discriminate|apply F].
  - exact G.
  - exact H.
  - intros k' v Hne. destruct (I k' v Hne) as [I1 I2]. split; [exact I1|].
    destruct v as [r|r|k'']; red1; try exact I2. zc; [reflexivity|exact I2].
  - exact J.
  - exact K.
  - exact L.
Qed.

Lemma tfun_support (P : vname -> bool) t v :
  forallb (fun x => P (fst x)) t = true -> tfun t v <> 0 -> P v = true.
Proof.
  induction t as [|[a c] t IH]; cbn [tfun forallb fst]; intros H Hn; [congruence|].
  apply andb_true_iff in H as [H1 H2]. destruct (vname_eqb_spec a v) as [->|N]; [exact H1|]. apply IH; assumption.
Qed.

Lemma add_user_cons_Inv k b t s : Inv s -> cin s (CU k) = false ->
  forallb (fun x => vin s (fst x)) t = true -> Inv (add_user_cons k b t s).
Proof.
  intros HI Hn Ht. pose proof HI as [A B C D E F G H I J K L]. unfold add_user_cons.
  constructor; prj.
  - intros v. rewrite A. destruct v; reflexivity.
  - intros v. rewrite B. destruct v; reflexivity.
  - intros [m|k']; red1; [apply C|]. zc; [reflexivity|apply C].
  - intros [m|k']; red1; [apply D|]. zc; [reflexivity|apply D].
  - intros [m|k'] v; red1.
    + rewrite E. destruct v; reflexivity.
    + zc; [reflexivity|apply E].
  - exact F.
  - exact G.
  - exact H.
  - intros k' v. red1. destruct (Z.eqb_spec k' k) as [->|N]; intros Hne.
    + split; [reflexivity|]. pose proof (tfun_support _ _ _ Ht Hne) as Hv. rewrite A in Hv.
      destruct v; exact Hv.
    + destruct (I k' v Hne) as [I1 I2]. split; [exact I1|]. destruct v; exact I2.
  - exact J.
  - exact K.
  - exact L.
Qed.

Lemma remove_user_var_Inv k s : Inv s -> vin s (VU k) = true -> Inv (remove_user_var k s).
Proof.
  intros HI _. pose proof HI as [A B C D E F G H I J K L]. unfold remove_user_var.
  constructor; prj.
  - intros [r|r|k']; red1; try apply A. zc; [reflexivity|apply A].
  - intros [r|r|k']; red1; try apply B. zc; [reflexivity|apply B].
  - intros c. rewrite C. destruct c; reflexivity.
  - intros c. rewrite D. destruct c; reflexivity.
  - intros [m|k'] v; red1.
    + destruct v as [r|r|k'']; red1; try apply E. zc; [reflexivity|apply E].
    + destruct (vname_eqb v (VU k)); [reflexivity|apply E].
  - intros [r|r|k']; red1; try apply F. zc; [reflexivity|apply F].
  - intros k'. red1. zc; [reflexivity|apply G].
  - intros r. red1. apply H.
  - intros k' v. destruct (vname_eqb_spec v (VU k)) as [->|N]; intros Hne; [congruence|].
    destruct (I k' v Hne) as [I1 I2]. split; [exact I1|].
    destruct v as [r|r|k'']; red1; try exact I2. zc; [congruence|exact I2].
  - exact J.
  - exact K.
  - exact L.
Qed.

Lemma remove_user_cons_Inv k s : Inv s -> cin s (CU k) = true -> Inv (remove_user_cons k s).
Proof.
  intros HI _. pose proof HI as [A B C D E F G H I J K L]. unfold remove_user_cons.
  constructor; prj.
  - intros v. rewrite A. destruct v; reflexivity.
  - intros v. rewrite B. destruct v; reflexivity.
  - intros [m|k']; red1; [apply C|]. zc; [reflexivity|apply C].
  - intros [m|k']; red1; [apply D|]. zc; [reflexivity|apply D].
  - intros [m|k'] v; red1.
    + rewrite E. destruct v; reflexivity.
    + zc; [reflexivity|apply E].
  - exact F.
  - exact G.
  - exact H.
  - intros k' v. red1. destruct (Z.eqb_spec k' k) as [->|N]; intros Hne; [congruence|].
    destruct (I k' v Hne) as [I1 I2]. split; [exact I1|]. destruct v; exact I2.
  - exact J.
  - exact K.
  - exact L.
Qed.

(* ---------- reactions ---------- *)
Lemma remove_rxn_Inv r s : Inv s -> Inv (remove_rxn r s).
Proof.
  intros HI. pose proof HI as [A B C D E F G H I J K L]. unfold remove_rxn.
  destruct (rin s r) eqn:Er; cbn [negb]; [|exact HI].
  constructor; prj.
  - intros [r0|r0|k]; red1; try apply A; zc; try reflexivity; apply A.
  - intros [r0|r0|k]; red1; try apply B; zc; try reflexivity; apply B.
  - intros c. rewrite C. destruct c; reflexivity.
  - intros c. rewrite D. destruct c; reflexivity.
  - intros [m|k] v; red1.
    + destruct v as [r0|r0|k]; red1; try apply E; zc; try reflexivity; apply E.
    + destruct (vname_eqb v (VF r)), (vname_eqb v (VR r)); cbn [orb]; try reflexivity. apply E.
  - intros [r0|r0|k]; red1; try apply F; zc; try reflexivity; apply F.
  - intros k. red1. apply G.
  - intros r0. red1. zc; [reflexivity|apply H].
  - intros k v. destruct (vname_eqb_spec v (VF r)) as [->|N1]; cbn [orb]; [congruence|].
    destruct (vname_eqb_spec v (VR r)) as [->|N2]; [congruence|]. intros Hne.
    destruct (I k v Hne) as [I1 I2]. split; [exact I1|].
    destruct v as [r0|r0|k']; red1; try exact I2; zc; try congruence; exact I2.
  - intros r0 m. red1. zc; [discriminate|apply J].
  - intros m r0. red1. zc; [discriminate|apply K].
  - intros m r0. red1. zc; [discriminate|apply L].
Qed.

Lemma set_bounds_Inv r lb ub s : Inv s -> Inv (fst (set_bounds r lb ub s)).
Proof.
  intros HI. pose proof HI as [A B C D E F G H I J K L]. unfold set_bounds.
  destruct (ub <? lb); [exact HI|]. destruct (rin s r) eqn:Er; cbn [fst].
  - constructor; prj; try assumption.
    intros [r0|r0|k]; red1; try apply B; zc; try (rewrite Er; reflexivity); apply B.
  - constructor; prj; try assumption.
    intros [r0|r0|k]; red1; try apply B; rewrite B; cbn [exp_vb]; zc; try reflexivity; rewrite Er; reflexivity.
Qed.

(* ---------- objective ---------- *)
Lemma obj_of_net l : forall f, (forall r, f (VR r) = - f (VF r)) -> forall r, obj_of l f (VR r) = - obj_of l f (VF r).
Proof.
  induction l as [|[r0 c] l IH]; intros f Hf r; cbn [obj_of]; [apply Hf|].
  apply IH. intros r1. unfold updv. cbn [vname_eqb]. zc; [reflexivity|apply Hf].
Qed.
Lemma obj_of_user l : forall f k, obj_of l f (VU k) = f (VU k).
Proof. induction l as [|[r0 c] l IH]; intros f k; cbn [obj_of]; [reflexivity|]. rewrite IH. reflexivity. Qed.
Definition rid_of (v : vname) : option Z := match v with VF r | VR r => Some r | VU _ => None end.
Lemma obj_of_out l v : forall f, (forall r, rid_of v = Some r -> memz r (map fst l) = false) -> obj_of l f v = f v.
Proof.
  induction l as [|[r0 c] l IH]; intros f Hv; cbn [obj_of]; [reflexivity|].
  rewrite IH.
  - unfold updv. destruct v as [r|r|k]; cbn [vname_eqb]; try reflexivity;
      specialize (Hv r eq_refl); cbn in Hv; apply orb_false_iff in Hv as [Hv _]; rewrite Z.eqb_sym, Hv; reflexivity.
  - intros r Hr. specialize (Hv r Hr). cbn in Hv. apply orb_false_iff in Hv as [_ Hv]. exact Hv.
Qed.
Lemma memz_forallb (P : Z -> bool) (l : list (Z * Z)) r :
  forallb (fun x => P (fst x)) l = true -> memz r (map fst l) = true -> P r = true.
Proof.
  induction l as [|[a c] l IH]; cbn; intros H Hm; [discriminate|].
  apply andb_true_iff in H as [H1 H2]. apply orb_true_iff in Hm as [Hm|Hm]; [apply Z.eqb_eq in Hm; subst; exact H1|].
  apply IH; assumption.
Qed.
Lemma obj_of_absent s l v : Inv s -> forallb (fun x => rin s (fst x)) l = true -> vin s v = false ->
  forall f, obj_of l f v = f v.
Proof.
  intros HI Hl Hv f. apply obj_of_out. intros r Hr.
  destruct (memz r (map fst l)) eqn:Em; [|reflexivity].
  pose proof (memz_forallb _ _ _ Hl Em) as Hin. rewrite (I_vin s HI) in Hv.
  destruct v; cbn in Hr; inversion Hr; subst; cbn [exp_vin] in Hv; congruence.
Qed.

Lemma set_oc_Inv s f : Inv s -> (forall v, vin s v = false -> f v = 0) -> (forall k, f (VU k) = 0) ->
  (forall r, f (VR r) = - f (VF r)) -> Inv (set_oc s f).
Proof.
  intros [A B C D E F G H I J K L] F' G' H'. constructor; prj; assumption.
Qed.

Lemma set_obj_Inv l s : Inv s -> nodupb (map fst l) = true -> forallb (fun x => rin s (fst x)) l = true ->
  Inv (set_obj l s).
Proof.
  intros HI _ Hl. unfold set_obj. apply set_oc_Inv; [exact HI|..].
  - intros v Hv. rewrite (obj_of_absent s l v HI Hl Hv). reflexivity.
  - intros k. apply obj_of_user.
  - apply obj_of_net. reflexivity.
Qed.

Lemma set_dir_Inv d s : Inv s -> Inv (set_odir s d).
Proof.
  intros [A B C D E F G H I J K L]. constructor; prj; assumption.
Qed.

(* ---------- the solver interface ---------- *)
Lemma switch_solver_Inv e s : Inv s -> Inv (switch_solver e s).
Proof.
  intros HI. pose proof HI as [A B C D E F G H I J K L]. unfold switch_solver.
  destruct (Bool.eqb (exact s) e); [exact HI|]. unfold clone_problem.
  constructor; prj; try assumption.
  - intros v. transitivity (exp_vb s v); [|destruct v; reflexivity]. rewrite <- B.
    destruct (vin s v) eqn:Ev; [reflexivity|]. symmetry. apply F_vb0; assumption.
  - intros c. transitivity (exp_cb s c); [|destruct c; reflexivity]. rewrite <- D.
    destruct (cin s c) eqn:Ec; [reflexivity|]. symmetry. apply F_cb0; assumption.
  - intros c v. transitivity (exp_co s c v); [|destruct c, v; reflexivity]. rewrite <- E.
    destruct (cin s c) eqn:Ec; cbn [andb]; [destruct (vin s v) eqn:Ev; [reflexivity|]|]; symmetry.
    + apply F_co0v; assumption.
    + apply F_co0c; assumption.
  - intros v Hv. rewrite Hv. reflexivity.
  - intros k. rewrite G. destruct (vin s (VU k)); reflexivity.
  - intros r. rewrite (F_vinF s HI), (F_vinR s HI). destruct (rin s r); [apply H|reflexivity].
Qed.

(* ---------- Model.add_reactions ---------- *)
Definition mem_l (l : list (Z * Z)) (m : Z) : bool := memz m (map fst l).
Lemma mem_l_cons m0 c0 l m : mem_l ((m0, c0) :: l) m = (m0 =? m) || mem_l l m.
Proof. reflexivity. Qed.
Lemma assz_notin l m : mem_l l m = false -> assz l m = 0.
Proof.
  induction l as [|[a c] l IH]; [reflexivity|]. rewrite mem_l_cons. cbn [assz]. intros H.
  apply orb_false_iff in H as [H1 H2]. rewrite H1. apply IH, H2.
Qed.
Lemma assz_in_nz l m : forallb (fun x => negb (snd x =? 0)) l = true -> mem_l l m = true -> assz l m <> 0.
Proof.
  induction l as [|[a c] l IH]; [discriminate|]. rewrite mem_l_cons. cbn [assz forallb snd]. intros H Hm.
  apply andb_true_iff in H as [H1 H2]. destruct (a =? m); [|apply IH; assumption].
  apply negb_true_iff, Z.eqb_neq in H1. exact H1.
Qed.

(* the fields the metabolite loop does not touch *)
Definition same_rest (s s' : st) : Prop :=
  rin s' = rin s /\ rb s' = rb s /\ sto s' = sto s /\ vin s' = vin s /\ vb s' = vb s /\ oc s' = oc s /\
  odir s' = odir s /\ exact s' = exact s /\ uv s' = uv s /\ uc s' = uc s /\ uct s' = uct s.
Lemma same_rest_trans a b c : same_rest a b -> same_rest b c -> same_rest a c.
Proof. unfold same_rest. intros H1 H2. intuition congruence. Qed.

Definition adopt_one (r m0 : Z) (s : st) : st :=
  let s1 := if min s m0 then s else add_met m0 s in
  set_back s1 (fun m' r' => if (m' =? m0) && (r' =? r) then true else back s1 m' r').

Lemma adopt_one_spec r m0 s : (forall m, cin s (CM m) = min s m) ->
  let s2 := adopt_one r m0 s in
  same_rest s s2 /\
  (forall m, min s2 m = min s m || (m0 =? m)) /\
  (forall c, cin s2 c = match c with CM m => min s m || (m0 =? m) | CU _ => cin s c end) /\
  (forall c, cb s2 c = match c with CM m => if negb (min s m) && (m0 =? m) then (Some 0, Some 0) else cb s c
                                  | CU _ => cb s c end) /\
  (forall c v, co s2 c v = match c with CM m => if negb (min s m) && (m0 =? m) then 0 else co s c v
                                    | CU _ => co s c v end) /\
  (forall m r', back s2 m r' = back s m r' || ((m0 =? m) && (r' =? r))).
Proof.
  intros Hc. unfold adopt_one. destruct (min s m0) eqn:Em.
  - prj. split; [unfold same_rest; prj; repeat split|]. repeat split.
    + intros m. zc; [rewrite Em; reflexivity|rewrite orb_false_r; reflexivity].
    + intros [m|k]; [|reflexivity]. rewrite Hc. zc; [rewrite Em; reflexivity|rewrite orb_false_r; reflexivity].
    + intros [m|k]; [|reflexivity]. zc; [rewrite Em; reflexivity|rewrite andb_false_r; reflexivity].
    + intros [m|k] v; [|reflexivity]. zc; [rewrite Em; reflexivity|rewrite andb_false_r; reflexivity].
    + intros m r'. rewrite (Z.eqb_sym m m0). destruct (back s m r'), (m0 =? m), (r' =? r); reflexivity.
  - unfold add_met. rewrite Hc, Em. prj. split; [unfold same_rest; prj; repeat split|]. repeat split.
    + intros m. unfold updz. rewrite (Z.eqb_sym m m0). destruct (m0 =? m); [rewrite orb_true_r|rewrite orb_false_r]; reflexivity.
    + intros [m|k]; unfold updc, updz; cbn [cname_eqb]; [|reflexivity]. rewrite Hc, (Z.eqb_sym m m0).
      destruct (m0 =? m); [rewrite orb_true_r|rewrite orb_false_r]; reflexivity.
    + intros [m|k]; unfold updc; cbn [cname_eqb]; [|reflexivity]. rewrite (Z.eqb_sym m m0).
      destruct (Z.eqb_spec m0 m) as [->|N]; [rewrite Em; reflexivity|rewrite andb_false_r; reflexivity].
    + intros [m|k] v; unfold updc; cbn [cname_eqb]; [|reflexivity]. rewrite (Z.eqb_sym m m0).
      destruct (Z.eqb_spec m0 m) as [->|N]; [rewrite Em; reflexivity|rewrite andb_false_r; reflexivity].
    + intros m r'. rewrite (Z.eqb_sym m m0). destruct (back s m r'), (m0 =? m), (r' =? r); reflexivity.
Qed.

Lemma adopt_mets_spec r : forall l s, (forall m, cin s (CM m) = min s m) ->
  let s' := adopt_mets r l s in
  same_rest s s' /\
  (forall m, min s' m = min s m || mem_l l m) /\
  (forall c, cin s' c = match c with CM m => min s m || mem_l l m | CU _ => cin s c end) /\
  (forall c, cb s' c = match c with CM m => if negb (min s m) && mem_l l m then (Some 0, Some 0) else cb s c
                                  | CU _ => cb s c end) /\
  (forall c v, co s' c v = match c with CM m => if negb (min s m) && mem_l l m then 0 else co s c v
                                    | CU _ => co s c v end) /\
  (forall m r', back s' m r' = back s m r' || (mem_l l m && (r' =? r))).
Proof.
  induction l as [|[m0 c0] l IH]; intros s Hc.
  - cbn [adopt_mets]. split; [unfold same_rest; repeat split|]. repeat split.
    + intros m. rewrite orb_false_r. reflexivity.
    + intros [m|k]; [rewrite orb_false_r; apply Hc|reflexivity].
    + intros [m|k]; [rewrite andb_false_r|]; reflexivity.
    + intros [m|k] v; [rewrite andb_false_r|]; reflexivity.
    + intros m r'. rewrite orb_false_r. reflexivity.
  - change (adopt_mets r ((m0, c0) :: l) s) with (adopt_mets r l (adopt_one r m0 s)).
    destruct (adopt_one_spec r m0 s Hc) as (R1 & M1 & C1 & B1 & O1 & K1).
    set (s2 := adopt_one r m0 s) in *.
    assert (Hc2 : forall m, cin s2 (CM m) = min s2 m) by (intros m; rewrite C1, M1; reflexivity).
    destruct (IH s2 Hc2) as (R2 & M2 & C2 & B2 & O2 & K2).
    split; [exact (same_rest_trans _ _ _ R1 R2)|]. repeat split.
    + intros m. rewrite M2, M1, mem_l_cons. rewrite orb_assoc. reflexivity.
    + intros [m|k]; rewrite C2; [rewrite M1, mem_l_cons, orb_assoc; reflexivity|apply C1].
    + intros [m|k]; rewrite B2; [|apply B1]. rewrite M1, (B1 (CM m)), mem_l_cons.
      destruct (min s m), (m0 =? m), (mem_l l m); reflexivity.
    + intros [m|k] v; rewrite O2; [|apply O1]. rewrite M1, (O1 (CM m)), mem_l_cons.
      destruct (min s m), (m0 =? m), (mem_l l m); reflexivity.
    + intros m r'. rewrite K2, K1, mem_l_cons.
      destruct (back s m r'), (m0 =? m), (mem_l l m), (r' =? r); reflexivity.
Qed.

Lemma set_rows_frame r : forall l s, set_rows r l s = set_co s (co (set_rows r l s)).
Proof.
  induction l as [|[m c] l IH]; intros s; cbn [set_rows]; [destruct s; reflexivity|].
  etransitivity; [apply IH|]. reflexivity.
Qed.
Lemma set_rows_co r : forall l s, nodupb (map fst l) = true -> forall c v,
  co (set_rows r l s) c v =
  match c with
  | CM m => if mem_l l m then (if vname_eqb v (VF r) then assz l m else if vname_eqb v (VR r) then - assz l m else co s c v)
            else co s c v
  | CU _ => co s c v
  end.
Proof.
  induction l as [|[m0 c0] l IH]; intros s Hnd c v; cbn [set_rows]; [destruct c; reflexivity|].
  cbn [map fst nodupb] in Hnd. apply andb_true_iff in Hnd as [Hn1 Hn2]. apply negb_true_iff in Hn1.
  rewrite (IH _ Hn2). prj. destruct c as [m|k]; cbn [cname_eqb]; [|reflexivity].
  rewrite mem_l_cons. cbn [assz]. rewrite (Z.eqb_sym m m0).
  destruct (Z.eqb_spec m0 m) as [->|N]; cbn [orb]; [|reflexivity].
  fold (mem_l l m) in Hn1. rewrite Hn1. reflexivity.
Qed.

Lemma add_rxn_spec r b l s : Inv s -> rin s r = false -> nodupb (map fst l) = true ->
  rin (add_rxn r b l s) = updz (rin s) r true /\ rb (add_rxn r b l s) = updz (rb s) r b /\
  sto (add_rxn r b l s) = updz (sto s) r (assz l) /\
  oc (add_rxn r b l s) = oc s /\ odir (add_rxn r b l s) = odir s /\ exact (add_rxn r b l s) = exact s /\
  uv (add_rxn r b l s) = uv s /\ uc (add_rxn r b l s) = uc s /\ uct (add_rxn r b l s) = uct s /\
  (forall m, min (add_rxn r b l s) m = min s m || mem_l l m) /\
  (forall m r', back (add_rxn r b l s) m r' = back s m r' || (mem_l l m && (r' =? r))) /\
  (forall v, vin (add_rxn r b l s) v = vname_eqb v (VF r) || vname_eqb v (VR r) || vin s v) /\
  (forall v, vb (add_rxn r b l s) v =
     if vname_eqb v (VR r) then snd (split b) else if vname_eqb v (VF r) then fst (split b) else vb s v) /\
  (forall c, cin (add_rxn r b l s) c = match c with CM m => min s m || mem_l l m | CU _ => cin s c end) /\
  (forall c, cb (add_rxn r b l s) c =
     match c with CM m => if negb (min s m) && mem_l l m then (Some 0, Some 0) else cb s c | CU _ => cb s c end) /\
  (forall c v, co (add_rxn r b l s) c v =
     match c with
     | CM m => if mem_l l m then (if vname_eqb v (VF r) then assz l m else if vname_eqb v (VR r) then - assz l m
                                  else co s c v) else co s c v
     | CU _ => co s c v
     end).
Proof.
  intros HI Hr Hnd.
  set (s1 := set_sto (set_rb (set_rin s (updz (rin s) r true)) (updz (rb s) r b)) (updz (sto s) r (assz l))).
  assert (Hc1 : forall m, cin s1 (CM m) = min s1 m) by (intros m; unfold s1; prj; apply F_cinM, HI).
  destruct (adopt_mets_spec r l s1 Hc1) as (R & M & C & B & O & K).
  destruct R as (R1 & R2 & R3 & R4 & R5 & R6 & R7 & R8 & R9 & R10 & R11).
  assert (E : add_rxn r b l s =
    var_set_bounds (VR r) (snd (split b)) (var_set_bounds (VF r) (fst (split b))
      (set_co (sv_add_var (VR r) free (sv_add_var (VF r) free (adopt_mets r l s1)))
              (co (set_rows r l (sv_add_var (VR r) free (sv_add_var (VF r) free (adopt_mets r l s1)))))))).
  { unfold add_rxn. rewrite Hr. fold s1. cbv zeta. rewrite R4. unfold s1 at 1. prj. rewrite (F_vinF s HI), Hr.
    rewrite <- set_rows_frame. reflexivity. }
  rewrite E. clear E. set (s2 := adopt_mets r l s1) in *. prj.
  rewrite R1, R2, R3, R6, R7, R8, R9, R10, R11. unfold s1 at 1 2 3 4 5 6 7 8 9. prj.
  repeat split.
  - intros m. rewrite M. reflexivity.
  - intros m r'. rewrite K. reflexivity.
  - intros v. rewrite R4. unfold s1, updv. prj. destruct (vname_eqb v (VR r)), (vname_eqb v (VF r)); reflexivity.
  - intros v. rewrite R5. unfold s1, updv. prj. destruct (vname_eqb v (VR r)), (vname_eqb v (VF r)); reflexivity.
  - intros c. rewrite C. reflexivity.
  - intros c. rewrite B. reflexivity.
  - intros c v. rewrite (set_rows_co r l _ Hnd). prj. rewrite !O. unfold s1. prj.
    destruct c as [m|k]; [|reflexivity]. destruct (mem_l l m) eqn:Em; [|rewrite andb_false_r; reflexivity].
    rewrite andb_true_r.
    destruct (vname_eqb v (VF r)); [reflexivity|]. destruct (vname_eqb v (VR r)); [reflexivity|].
    destruct (min s m) eqn:Emin; cbn [negb]; [reflexivity|]. symmetry. apply F_co0c; [exact HI|].
    rewrite (F_cinM s HI). exact Emin.
Qed.

Lemma sto_okb_nodup l : sto_okb l = true -> nodupb (map fst l) = true.
Proof. unfold sto_okb. intros H. apply andb_true_iff in H as [H _]. exact H. Qed.
Lemma sto_okb_nz l : sto_okb l = true -> forallb (fun x => negb (snd x =? 0)) l = true.
Proof. unfold sto_okb. intros H. apply andb_true_iff in H as [_ H]. exact H. Qed.

Lemma add_rxn_existing r b l s : rin s r = true -> add_rxn r b l s = s.
Proof. intros H. unfold add_rxn. rewrite H. reflexivity. Qed.

Lemma add_rxn_Inv r b l s : Inv s -> sto_okb l = true -> Inv (add_rxn r b l s).
Proof.
  intros HI Hl. destruct (rin s r) eqn:Er; [rewrite add_rxn_existing; assumption|].
  pose proof HI as [A B C D E F G H I J K L].
  destruct (add_rxn_spec r b l s HI Er (sto_okb_nodup l Hl))
    as (Sr & Sb & Ss & So & Sd & Se & Suv & Suc & Suct & Sm & Sk & Sv & Svb & Sci & Scb & Sco).
  set (s' := add_rxn r b l s) in *.
  assert (Hco0 : forall c v, vname_eqb v (VF r) || vname_eqb v (VR r) = true -> co s c v = 0).
  { intros c v Hv. apply F_co0v; [exact HI|].
    apply orb_true_iff in Hv as [Hv|Hv]; apply vname_eqb_true in Hv; subst v; rewrite A; exact Er. }
  constructor.
  - intros v. rewrite Sv. destruct v as [r0|r0|k]; cbn [exp_vin vname_eqb]; rewrite ?Sr, ?Suv; unfold updz.
    + destruct (r0 =? r); [reflexivity|apply A].
    + destruct (r0 =? r); [reflexivity|apply A].
    + apply A.
  - intros v. rewrite Svb. destruct v as [r0|r0|k]; cbn [exp_vb vname_eqb]; rewrite ?Sr, ?Sb, ?Suv; unfold updz.
    + destruct (r0 =? r); [reflexivity|apply B].
    + destruct (r0 =? r); [reflexivity|apply B].
    + apply B.
  - intros c. rewrite Sci. destruct c as [m|k]; cbn [exp_cin]; [rewrite Sm; reflexivity|rewrite Suc; apply C].
  - intros c. rewrite Scb. destruct c as [m|k]; cbn [exp_cb]; [|rewrite Suc; apply D].
    rewrite Sm, (D (CM m)). cbn [exp_cb]. destruct (min s m), (mem_l l m); reflexivity.
  - intros c v. rewrite Sco. destruct c as [m|k]; cbn [exp_co]; [|rewrite Suct; apply E].
    destruct v as [r0|r0|k]; cbn [vname_eqb]; rewrite ?Sr, ?Ss, ?Sm; unfold updz.
    + destruct (Z.eqb_spec r0 r) as [->|N]; cbn [andb].
      * destruct (mem_l l m) eqn:Em; [rewrite orb_true_r; reflexivity|].
        rewrite (assz_notin _ _ Em), orb_false_r.
        rewrite (Hco0 (CM m) (VF r)) by (cbn [vname_eqb]; rewrite Z.eqb_refl; reflexivity).
        destruct (min s m); reflexivity.
      * assert (Hgoal : co s (CM m) (VF r0) = if rin s r0 && (min s m || mem_l l m) then sto s r0 m else 0).
        { rewrite E. cbn [exp_co]. destruct (rin s r0) eqn:Er0; cbn [andb]; [|reflexivity].
          destruct (min s m) eqn:Emin; cbn [orb]; [reflexivity|]. destruct (mem_l l m); [|reflexivity].
          destruct (Z.eq_dec (sto s r0 m) 0) as [Z0|Z0]; [congruence|]. destruct (J r0 m Er0 Z0). congruence. }
        destruct (mem_l l m); exact Hgoal.
    + destruct (Z.eqb_spec r0 r) as [->|N]; cbn [andb].
      * destruct (mem_l l m) eqn:Em; [rewrite orb_true_r; reflexivity|].
        rewrite (assz_notin _ _ Em), orb_false_r.
        rewrite (Hco0 (CM m) (VR r)) by (cbn [vname_eqb]; rewrite Z.eqb_refl; reflexivity).
        destruct (min s m); reflexivity.
      * assert (Hgoal : co s (CM m) (VR r0) = if rin s r0 && (min s m || mem_l l m) then - sto s r0 m else 0).
        { rewrite E. cbn [exp_co]. destruct (rin s r0) eqn:Er0; cbn [andb]; [|reflexivity].
          destruct (min s m) eqn:Emin; cbn [orb]; [reflexivity|]. destruct (mem_l l m); [|reflexivity].
          destruct (Z.eq_dec (sto s r0 m) 0) as [Z0|Z0]; [rewrite Z0; reflexivity|]. destruct (J r0 m Er0 Z0). congruence. }
        destruct (mem_l l m); exact Hgoal.
    + rewrite (E (CM m) (VU k)). cbn [exp_co]. destruct (mem_l l m); reflexivity.
  - intros v Hv. rewrite Sv in Hv. apply orb_false_iff in Hv as [_ Hv]. rewrite So. apply F, Hv.
  - intros k. rewrite So. apply G.
  - intros r0. rewrite So. apply H.
  - intros k v. rewrite Suct, Suc. intros Hne. destruct (I k v Hne) as [I1 I2]. split; [exact I1|].
    destruct v as [r0|r0|k']; cbn [exp_vin] in *; rewrite ?Sr, ?Suv; unfold updz; try exact I2;
      destruct (r0 =? r); try reflexivity; exact I2.
  - intros r0 m. rewrite Sr, Ss, Sm, Sk. unfold updz. destruct (Z.eqb_spec r0 r) as [->|N]; intros H1 H2.
    + assert (Em : mem_l l m = true).
      { destruct (mem_l l m) eqn:Em; [reflexivity|]. rewrite (assz_notin _ _ Em) in H2. congruence. }
      rewrite Em, !orb_true_r. split; reflexivity.
    + destruct (J r0 m H1 H2) as [J1 J2]. rewrite J1, J2. split; reflexivity.
  - intros m r0. rewrite Sr, Ss, Sm, Sk. unfold updz. intros H1 H2. destruct (Z.eqb_spec r0 r) as [->|N].
    + split; [reflexivity|]. destruct (mem_l l m) eqn:Em.
      * apply assz_in_nz; [apply sto_okb_nz, Hl|exact Em].
      * cbn [andb] in H2. rewrite orb_false_r in H2. pose proof (L _ _ H2) as Hm.
        destruct (K _ _ Hm H2). congruence.
    + rewrite andb_false_r, orb_false_r in H2. exact (K _ _ (L _ _ H2) H2).
  - intros m r0. rewrite Sm, Sk. intros H1. apply orb_true_iff in H1 as [H1|H1].
    + rewrite (L _ _ H1). reflexivity.
    + apply andb_true_iff in H1 as [H1 _]. rewrite H1. apply orb_true_r.
Qed.

(* ---------- lists ---------- *)
Lemma memz_In k l : memz k l = true <-> In k l.
Proof.
  unfold memz. rewrite existsb_exists. split.
  - intros [x [Hx E]]. apply Z.eqb_eq in E. subst. exact Hx.
  - intros H. exists k. split; [exact H|apply Z.eqb_refl].
Qed.
Lemma memz_notIn k l : memz k l = false -> ~ In k l.
Proof. intros H Hin. apply memz_In in Hin. congruence. Qed.
Lemma memz_map_filter {A} (g : A -> Z) f l k : memz k (map g (filter f l)) = true -> memz k (map g l) = true.
Proof.
  rewrite !memz_In, !in_map_iff. intros [x [E Hx]]. apply filter_In in Hx as [Hx _]. exists x. split; assumption.
Qed.
Lemma nodupb_map_filter {A} (g : A -> Z) f l : nodupb (map g l) = true -> nodupb (map g (filter f l)) = true.
Proof.
  induction l as [|a l IH]; cbn [map filter nodupb]; [trivial|]. intros H. apply andb_true_iff in H as [H1 H2].
  destruct (f a); cbn [map nodupb]; [|apply IH, H2]. rewrite (IH H2), andb_true_r.
  apply negb_true_iff. apply negb_true_iff in H1. destruct (memz (g a) (map g (filter f l))) eqn:E; [|reflexivity].
  apply memz_map_filter in E. congruence.
Qed.
Lemma nodupb_NoDup l : nodupb l = true -> NoDup l.
Proof.
  induction l as [|a l IH]; cbn [nodupb]; intros H; constructor; apply andb_true_iff in H as [H1 H2].
  - apply memz_notIn, negb_true_iff, H1.
  - apply IH, H2.
Qed.

(* ---------- Model.merge ---------- *)
Definition add_rxns (l : list rrxn) (s : st) : st := fold_left (fun s x => add_rxn (rr_id x) (rr_b x) (rr_sto x) s) l s.

Lemma add_rxn_rin r b l s : Inv s -> sto_okb l = true -> forall r', rin (add_rxn r b l s) r' = rin s r' || (r' =? r).
Proof.
  intros HI Hl r'. destruct (rin s r) eqn:Er.
  - rewrite add_rxn_existing by exact Er. destruct (Z.eqb_spec r' r) as [->|N]; [rewrite Er|rewrite orb_false_r]; reflexivity.
  - destruct (add_rxn_spec r b l s HI Er (sto_okb_nodup l Hl)) as (Sr & _). rewrite Sr. unfold updz.
    destruct (r' =? r); [rewrite orb_true_r|rewrite orb_false_r]; reflexivity.
Qed.

Lemma add_rxns_Inv : forall l s, Inv s -> forallb (fun x => sto_okb (rr_sto x)) l = true -> Inv (add_rxns l s).
Proof.
  induction l as [|x l IH]; intros s HI Hl; cbn [add_rxns fold_left]; [exact HI|].
  cbn [forallb] in Hl. apply andb_true_iff in Hl as [H1 H2]. apply IH; [apply add_rxn_Inv; assumption|exact H2].
Qed.
Lemma add_rxns_rin : forall l s, Inv s -> forallb (fun x => sto_okb (rr_sto x)) l = true ->
  forall r, rin (add_rxns l s) r = rin s r || memz r (map rr_id l).
Proof.
  induction l as [|x l IH]; intros s HI Hl r; cbn [add_rxns fold_left map]; [rewrite orb_false_r; reflexivity|].
  cbn [forallb] in Hl. apply andb_true_iff in Hl as [H1 H2].
  fold (add_rxns l (add_rxn (rr_id x) (rr_b x) (rr_sto x) s)).
  rewrite IH; [|apply add_rxn_Inv; assumption|exact H2]. rewrite add_rxn_rin by assumption.
  unfold memz. cbn [existsb]. rewrite (Z.eqb_sym r), orb_assoc. reflexivity.
Qed.

Lemma add_user_vars_Inv : forall (l : list (Z * bb)) s, Inv s -> nodupb (map fst l) = true ->
  (forall x, In x l -> vin s (VU (fst x)) = false) ->
  Inv (fold_left (fun s x => add_user_var (fst x) (snd x) s) l s).
Proof.
  induction l as [|[k b] l IH]; intros s HI Hnd Hv; cbn [fold_left]; [exact HI|].
  cbn [map fst nodupb] in Hnd. apply andb_true_iff in Hnd as [H1 H2]. apply negb_true_iff in H1. cbn [fst snd].
  apply IH; [apply add_user_var_Inv; [exact HI|apply (Hv (k, b)); left; reflexivity]|exact H2|].
  intros x Hx. unfold add_user_var. prj. unfold updv. cbn [vname_eqb].
  destruct (Z.eqb_spec (fst x) k) as [E|N]; [|apply Hv; right; exact Hx].
  exfalso. apply (memz_notIn _ _ H1). rewrite <- E. apply in_map, Hx.
Qed.

Lemma merge_vars_Inv l s : Inv s -> nodupb (map fst l) = true -> Inv (merge_vars l s).
Proof.
  intros HI Hnd. unfold merge_vars. apply add_user_vars_Inv; [exact HI|apply nodupb_map_filter, Hnd|].
  intros x Hx. apply filter_In in Hx as [_ Hx]. apply negb_true_iff in Hx. exact Hx.
Qed.

Definition ckey (x : Z * bb * list (vname * Z)) : Z := fst (fst x).
Lemma merge_cons_Inv : forall l s, Inv s -> nodupb (map ckey l) = true ->
  (forall x, In x l -> cin s (CU (ckey x)) = false) -> Inv (fst (merge_cons l s)).
Proof.
  induction l as [|[[k b] t] l IH]; intros s HI Hnd Hc; cbn [merge_cons]; [exact HI|].
  cbn [map nodupb] in Hnd. apply andb_true_iff in Hnd as [H1 H2]. apply negb_true_iff in H1. cbn [ckey fst] in H1.
  destruct (forallb (fun x => vin s (fst x)) t) eqn:Et; [|exact HI].
  apply IH; [apply add_user_cons_Inv; [exact HI|apply (Hc (k, b, t)); left; reflexivity|exact Et]|exact H2|].
  intros x Hx. unfold add_user_cons. prj. unfold updc. cbn [cname_eqb].
  destruct (Z.eqb_spec (ckey x) k) as [E|N]; [|apply Hc; right; exact Hx].
  exfalso. apply (memz_notIn _ _ H1). rewrite <- E. apply in_map, Hx.
Qed.

Lemma merge_objective_Inv v rm mode s : Inv s -> nodupb (map fst (rm_obj rm)) = true ->
  forallb (fun x => rin s (fst x)) (rm_obj rm) = true -> Inv (merge_objective v rm mode s).
Proof.
  intros HI Hnd Hl. unfold merge_objective. destruct (mode =? 1).
  - apply set_dir_Inv, set_obj_Inv; assumption.
  - destruct (mode =? 2); [|exact HI].
    assert (H1 : Inv (set_oc s (fun n => oc s n + obj_of (rm_obj rm) (fun _ => 0) n))).
    { apply set_oc_Inv; [exact HI|..].
      - intros n Hn. rewrite (I_oc_abs s HI n Hn), (obj_of_absent s _ n HI Hl Hn). reflexivity.
      - intros k. rewrite (I_oc_user s HI), obj_of_user. reflexivity.
      - intros r. rewrite (I_oc_net s HI), (obj_of_net (rm_obj rm) (fun _ => 0)) by reflexivity. lia. }
    destruct (fx_sumdir v); [exact H1|apply set_dir_Inv, H1].
Qed.

(* frames of the user-item loops *)
Lemma merge_vars_rin l s : rin (merge_vars l s) = rin s.
Proof.
  unfold merge_vars. generalize (filter (fun x => negb (vin s (VU (fst x)))) l). intros l'. revert s.
  induction l' as [|x l' IH]; intros s; cbn [fold_left]; [reflexivity|]. rewrite IH. reflexivity.
Qed.
Lemma merge_cons_rin : forall l s, rin (fst (merge_cons l s)) = rin s.
Proof.
  induction l as [|[[k b] t] l IH]; intros s; cbn [merge_cons]; [reflexivity|].
  destruct (forallb (fun x => vin s (fst x)) t); [|reflexivity]. rewrite IH. reflexivity.
Qed.

Definition renamed (s : st) (pfx : bool) (rm : rmodel) : list rrxn :=
  map (fun x => mkRR (new_id s pfx x) (rr_b x) (rr_sto x)) (rm_rxns rm).
Definition pruned (s : st) (pfx : bool) (rm : rmodel) : list rrxn :=
  filter (fun x => negb (rin s (rr_id x))) (renamed s pfx rm).

Lemma renamed_ids s pfx rm : map rr_id (renamed s pfx rm) = map (new_id s pfx) (rm_rxns rm).
Proof. unfold renamed. rewrite map_map. reflexivity. Qed.
Lemma pruned_sto_ok s pfx rm : forallb (fun x => sto_okb (rr_sto x)) (rm_rxns rm) = true ->
  forallb (fun x => sto_okb (rr_sto x)) (pruned s pfx rm) = true.
Proof.
  intros H. apply forallb_forall. intros x Hx. unfold pruned, renamed in Hx. apply filter_In in Hx as [Hx _].
  apply in_map_iff in Hx as [y [E Hy]]. subst x. cbn [rr_sto]. rewrite forallb_forall in H. apply H, Hy.
Qed.
Lemma pruned_rin s pfx rm r : rin s r || memz r (map rr_id (pruned s pfx rm)) = rin s r || memz r (map rr_id (renamed s pfx rm)).
Proof.
  unfold pruned. generalize (renamed s pfx rm). intros l. destruct (rin s r) eqn:Er; [reflexivity|]. cbn [orb].
  induction l as [|x l IH]; [reflexivity|]. cbn [filter map].
  destruct (Z.eqb_spec (rr_id x) r) as [E|N].
  - rewrite E, Er. cbn [negb map]. unfold memz. cbn [existsb]. rewrite E, Z.eqb_refl. reflexivity.
  - destruct (negb (rin s (rr_id x))); cbn [map]; unfold memz in *; cbn [existsb];
      [rewrite IH; reflexivity|]. rewrite IH. apply Z.eqb_neq in N. rewrite N. reflexivity.
Qed.

(* every reaction identifier of `right` is in the model once its reactions are added (or ignored) *)
Lemma right_ids_in s pfx rm : Inv s -> forallb (fun x => sto_okb (rr_sto x)) (rm_rxns rm) = true ->
  forall r, memz r (map rr_id (rm_rxns rm)) = true -> rin (add_rxns (pruned s pfx rm) s) r = true.
Proof.
  intros HI Hs r Hr. rewrite add_rxns_rin by (try exact HI; apply pruned_sto_ok, Hs).
  rewrite pruned_rin, renamed_ids. destruct (rin s r) eqn:Er; [reflexivity|]. cbn [orb].
  apply memz_In in Hr. apply in_map_iff in Hr as [y [E Hy]]. subst r. apply memz_In, in_map_iff.
  exists y. split; [|exact Hy]. unfold new_id. rewrite Er, andb_false_r. reflexivity.
Qed.

Lemma rm_okb_parts s rm pfx : rm_okb s rm pfx = true ->
  nodupb (map (new_id s pfx) (rm_rxns rm)) = true /\
  forallb (fun x => sto_okb (rr_sto x)) (rm_rxns rm) = true /\
  nodupb (map fst (rm_uvars rm)) = true /\ nodupb (map ckey (rm_ucons rm)) = true /\
  nodupb (map fst (rm_obj rm)) = true /\ forallb (fun x => memz (fst x) (map rr_id (rm_rxns rm))) (rm_obj rm) = true.
Proof. unfold rm_okb. rewrite !andb_true_iff. tauto. Qed.

Lemma merge_result_vfix rm pfx mode s :
  merge_result vfix rm pfx mode s =
  let s1 := add_rxns (pruned s pfx rm) s in
  let s2 := merge_vars (rm_uvars rm) s1 in
  let news := filter (fun x => negb (cin s2 (CU (ckey x)))) (rm_ucons rm) in
  match snd (merge_cons news s2) with
  | Ok => (merge_objective vfix rm mode (fst (merge_cons news s2)), Ok)
  | r => (fst (merge_cons news s2), r)
  end.
Proof.
  unfold merge_result. cbn [vfix fx_back fx_rows]. cbv zeta. fold (renamed s pfx rm). fold (pruned s pfx rm).
  fold (add_rxns (pruned s pfx rm) s). unfold ckey.
  destruct (merge_cons _ (merge_vars (rm_uvars rm) (add_rxns (pruned s pfx rm) s))) as [s4 r4]. cbn [fst snd].
  destruct r4; reflexivity.
Qed.

Lemma merge_Inv rm pfx mode s : Inv s -> rm_okb s rm pfx = true -> Inv (fst (merge_result vfix rm pfx mode s)).
Proof.
  intros HI Hok. destruct (rm_okb_parts s rm pfx Hok) as (H1 & H2 & H3 & H4 & H5 & H6).
  rewrite merge_result_vfix. cbv zeta.
  set (s1 := add_rxns (pruned s pfx rm) s).
  assert (I1 : Inv s1) by (apply add_rxns_Inv; [exact HI|apply pruned_sto_ok, H2]).
  set (s2 := merge_vars (rm_uvars rm) s1).
  assert (I2 : Inv s2) by (apply merge_vars_Inv; assumption).
  set (news := filter (fun x => negb (cin s2 (CU (ckey x)))) (rm_ucons rm)).
  assert (I4 : Inv (fst (merge_cons news s2))).
  { apply merge_cons_Inv; [exact I2|apply nodupb_map_filter, H4|].
    intros x Hx. apply filter_In in Hx as [_ Hx]. apply negb_true_iff in Hx. exact Hx. }
  destruct (snd (merge_cons news s2)); cbn [fst]; try exact I4.
  apply merge_objective_Inv; [exact I4|exact H5|].
  apply forallb_forall. intros x Hx. rewrite merge_cons_rin. unfold s2. rewrite merge_vars_rin.
  apply right_ids_in; [exact HI|exact H2|]. rewrite forallb_forall in H6. apply H6, Hx.
Qed.

(* ---------- histories ---------- *)
Theorem step_Inv : forall s o, Inv s -> op_ok s o -> Inv (fst (step vfix s o)).
Proof.
  intros s o HI Hok. unfold op_ok in Hok.
  destruct o as [k lb ub|k lb ub t|k|k|k|k|r lb ub l|r|r lb ub|l|d|e|rm pfx mode inplace]; cbn [step op_okb fst] in *.
  - apply add_user_var_Inv; [exact HI|apply negb_true_iff, Hok].
  - apply andb_true_iff in Hok as [H1 H2]. apply add_user_cons_Inv; [exact HI|apply negb_true_iff, H1|exact H2].
  - apply remove_user_var_Inv; assumption.
  - apply remove_user_cons_Inv; assumption.
  - unfold remove_var_by_name. destruct (vin s (VU k)) eqn:E; cbn [fst]; [apply remove_user_var_Inv|]; assumption.
  - unfold remove_cons_by_name. destruct (cin s (CU k)) eqn:E; cbn [fst]; [apply remove_user_cons_Inv|]; assumption.
  - apply add_rxn_Inv; assumption.
  - apply remove_rxn_Inv; assumption.
  - apply set_bounds_Inv; assumption.
  - apply andb_true_iff in Hok as [H1 H2]. apply set_obj_Inv; assumption.
  - apply set_dir_Inv; assumption.
  - apply switch_solver_Inv; assumption.
  - destruct inplace; [apply merge_Inv; assumption|exact HI].
Qed.

Theorem run_Inv : forall ops s, Inv s -> ok_run vfix s ops -> Inv (run vfix ops s).
Proof.
  induction ops as [|o ops IH]; intros s HI Hok; cbn [run fold_left ok_run] in *; [exact HI|].
  destruct Hok as [H1 H2]. apply (IH (fst (step vfix s o))); [apply step_Inv; assumption|exact H2].
Qed.

(* ---------- the code as found does not preserve the invariant ---------- *)
(* left: R1 over M0, M1.  right: R1 over M1, M5 (ignored: the identifier exists) and R2 over M2, M5 (joins and brings
   M5): M5 lists the ignored copy of R1, the R1 of the merged model does not list M5 *)
Theorem merge_stale_back_refuted : exists s rm, Inv s /\ rm_okb s rm false = true /\
  ~ Inv (fst (merge_result (mkV false true true) rm false 0 s)).
Proof.
  exists (run vfix [AddRxn 1 0 10 [(0, -1); (1, 1)]] (init false)).
  exists (mkRM [mkRR 1 (0, 10) [(1, -1); (5, 1)]; mkRR 2 (0, 10) [(2, -1); (5, 1)]] [1; 2; 5] [] [] [] true).
  split; [|split].
  - apply run_Inv; [apply init_Inv|]. cbn [ok_run]. split; [vm_compute; reflexivity|exact I].
  - vm_compute. reflexivity.
  - intros H. destruct (I_wf2 _ H 5 1) as [_ K]; [vm_compute; reflexivity..|]. apply K. vm_compute. reflexivity.
Qed.

(* right's R1 is ignored and is the only reaction over M5: M5 does not join the model, its row does *)
Theorem merge_rows_refuted : exists s rm, Inv s /\ rm_okb s rm false = true /\
  ~ Inv (fst (merge_result (mkV true false true) rm false 0 s)).
Proof.
  exists (run vfix [AddRxn 1 0 10 [(0, -1); (1, 1)]] (init false)).
  exists (mkRM [mkRR 1 (0, 10) [(1, -1); (5, 1)]] [1; 5] [] [] [] true).
  split; [|split].
  - apply run_Inv; [apply init_Inv|]. cbn [ok_run]. split; [vm_compute; reflexivity|exact I].
  - vm_compute. reflexivity.
  - intros H. pose proof (I_cin _ H (CM 5)) as K. vm_compute in K. discriminate K.
Qed.
