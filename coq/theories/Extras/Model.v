(* Kernel IV of the stateful core (properties C01, C02, C03): what the properties name and kernels I-III leave out --
   user constraints and variables (`model.add_cons_vars`, `remove_cons_vars` by object and by name) and what the
   structural edits do to them, switching the solver interface (`model.solver = "glpk_exact"`), and
   `Model.merge(right, prefix_existing, inplace, objective)`.

   Executable model.  Every cobra object is identified by an integer (one Python object per identifier), all maps are
   total functions (a default means "absent").  The state has three parts:
     - the Python-side content: reactions in the model with bounds and stoichiometry, metabolites, back references;
     - the solver problem (optlang / GLPK): variables by NAME with bounds and objective coefficient, rows by NAME with
       bounds and coefficients, direction, and the interface tag;
     - the LEDGER: what the user added (user variables and constraints, each with its bounds and -- for a constraint --
       its linear terms over variable names).  The ledger is specification state: the implementation has no such
       thing, the invariant (Inv.v) says that the solver is exactly the flux-balance problem of the content plus the
       ledger.  A term of a user constraint lives as long as its variable: removing a reaction (or a user variable)
       removes the variable from the problem and with it the term (optlang's container semantics, which
       `remove_reactions` relies on); nothing else ever changes a ledger entry.

   Names: a solver variable is `VF r` (forward variable "R<r>" of reaction r), `VR r` (reverse variable) or `VU k`
   (user variable "x<k>"); a row is `CM m` (metabolite "M<m>") or `CU k` (user constraint "uc<k>").  Reaction
   identifiers: r >= 0 is "R<r>", `pref r` = r + 1000 is "p_R<r>" (merge with prefix_existing = "p_").
   Numbers are integers; `None` is an absent bound.                                                            *)
From Coq Require Import ZArith List Bool.
Import ListNotations.
Open Scope Z_scope.

Inductive vname := VF (r : Z) | VR (r : Z) | VU (k : Z).
Inductive cname := CM (m : Z) | CU (k : Z).
Definition bnd := option Z.
Definition bb := (bnd * bnd)%type.
Definition free : bb := (None, None).
Inductive res := Ok | RaiseValueError | RaiseKeyError | RaiseLookupError | RaiseOther.

Definition vname_eqb (a b : vname) : bool :=
  match a, b with VF x, VF y | VR x, VR y | VU x, VU y => x =? y | _, _ => false end.
Definition cname_eqb (a b : cname) : bool :=
  match a, b with CM x, CM y | CU x, CU y => x =? y | _, _ => false end.

Definition updz {A} (f : Z -> A) (k : Z) (v : A) : Z -> A := fun k' => if k' =? k then v else f k'.
Definition updv {A} (f : vname -> A) (k : vname) (v : A) : vname -> A := fun k' => if vname_eqb k' k then v else f k'.
Definition updc {A} (f : cname -> A) (k : cname) (v : A) : cname -> A := fun k' => if cname_eqb k' k then v else f k'.

(* Reaction.update_variable_bounds: (forward (lb, ub), reverse (lb, ub)) *)
Definition split (b : Z * Z) : bb * bb :=
  let '(lb, ub) := b in
  if 0 <? lb then ((Some lb, Some ub), (Some 0, Some 0))
  else if ub <? 0 then ((Some 0, Some 0), (Some (- ub), Some (- lb)))
  else ((Some 0, Some ub), (Some 0, Some (- lb))).

(* a linear expression given as a list of terms; optlang canonicalises: coefficients of one variable are summed *)
Fixpoint tfun (l : list (vname * Z)) (v : vname) : Z :=
  match l with [] => 0 | (a, c) :: r => if vname_eqb a v then c + tfun r v else tfun r v end.
Fixpoint assz (l : list (Z * Z)) (k : Z) : Z :=
  match l with [] => 0 | (a, c) :: r => if a =? k then c else assz r k end.

Record st := mkSt {
  (* Python objects *)
  rin : Z -> bool;                 (* reaction is in the model *)
  rb : Z -> Z * Z;                 (* reaction.bounds *)
  sto : Z -> Z -> Z;               (* reaction -> metabolite -> coefficient (0 = not listed) *)
  min : Z -> bool;                 (* metabolite is in the model *)
  back : Z -> Z -> bool;           (* metabolite -> reaction identifier: listed in m._reaction *)
  (* solver *)
  vin : vname -> bool; vb : vname -> bb; oc : vname -> Z;
  cin : cname -> bool; cb : cname -> bb; co : cname -> vname -> Z;
  odir : bool;                     (* true = max *)
  exact : bool;                    (* the interface: false = glpk, true = glpk_exact *)
  (* ledger: what the user added *)
  uv : Z -> option bb;             (* user variable k: bounds *)
  uc : Z -> option bb;             (* user constraint k: bounds *)
  uct : Z -> vname -> Z            (* ... and its terms *)
}.

Definition set_rin s x := mkSt x (rb s) (sto s) (min s) (back s) (vin s) (vb s) (oc s) (cin s) (cb s) (co s) (odir s) (exact s) (uv s) (uc s) (uct s).
Definition set_rb s x := mkSt (rin s) x (sto s) (min s) (back s) (vin s) (vb s) (oc s) (cin s) (cb s) (co s) (odir s) (exact s) (uv s) (uc s) (uct s).
Definition set_sto s x := mkSt (rin s) (rb s) x (min s) (back s) (vin s) (vb s) (oc s) (cin s) (cb s) (co s) (odir s) (exact s) (uv s) (uc s) (uct s).
Definition set_min s x := mkSt (rin s) (rb s) (sto s) x (back s) (vin s) (vb s) (oc s) (cin s) (cb s) (co s) (odir s) (exact s) (uv s) (uc s) (uct s).
Definition set_back s x := mkSt (rin s) (rb s) (sto s) (min s) x (vin s) (vb s) (oc s) (cin s) (cb s) (co s) (odir s) (exact s) (uv s) (uc s) (uct s).
Definition set_vin s x := mkSt (rin s) (rb s) (sto s) (min s) (back s) x (vb s) (oc s) (cin s) (cb s) (co s) (odir s) (exact s) (uv s) (uc s) (uct s).
Definition set_vb s x := mkSt (rin s) (rb s) (sto s) (min s) (back s) (vin s) x (oc s) (cin s) (cb s) (co s) (odir s) (exact s) (uv s) (uc s) (uct s).
Definition set_oc s x := mkSt (rin s) (rb s) (sto s) (min s) (back s) (vin s) (vb s) x (cin s) (cb s) (co s) (odir s) (exact s) (uv s) (uc s) (uct s).
Definition set_cin s x := mkSt (rin s) (rb s) (sto s) (min s) (back s) (vin s) (vb s) (oc s) x (cb s) (co s) (odir s) (exact s) (uv s) (uc s) (uct s).
Definition set_cb s x := mkSt (rin s) (rb s) (sto s) (min s) (back s) (vin s) (vb s) (oc s) (cin s) x (co s) (odir s) (exact s) (uv s) (uc s) (uct s).
Definition set_co s x := mkSt (rin s) (rb s) (sto s) (min s) (back s) (vin s) (vb s) (oc s) (cin s) (cb s) x (odir s) (exact s) (uv s) (uc s) (uct s).
Definition set_odir s x := mkSt (rin s) (rb s) (sto s) (min s) (back s) (vin s) (vb s) (oc s) (cin s) (cb s) (co s) x (exact s) (uv s) (uc s) (uct s).
Definition set_exact s x := mkSt (rin s) (rb s) (sto s) (min s) (back s) (vin s) (vb s) (oc s) (cin s) (cb s) (co s) (odir s) x (uv s) (uc s) (uct s).
Definition set_uv s x := mkSt (rin s) (rb s) (sto s) (min s) (back s) (vin s) (vb s) (oc s) (cin s) (cb s) (co s) (odir s) (exact s) x (uc s) (uct s).
Definition set_uc s x := mkSt (rin s) (rb s) (sto s) (min s) (back s) (vin s) (vb s) (oc s) (cin s) (cb s) (co s) (odir s) (exact s) (uv s) x (uct s).
Definition set_uct s x := mkSt (rin s) (rb s) (sto s) (min s) (back s) (vin s) (vb s) (oc s) (cin s) (cb s) (co s) (odir s) (exact s) (uv s) (uc s) x.

(* an empty Model() on the given interface *)
Definition init (e : bool) : st :=
  mkSt (fun _ => false) (fun _ => (0, 0)) (fun _ _ => 0) (fun _ => false) (fun _ _ => false)
       (fun _ => false) (fun _ => free) (fun _ => 0) (fun _ => false) (fun _ => free) (fun _ _ => 0) true e
       (fun _ => None) (fun _ => None) (fun _ _ => 0).

(* ---------- solver primitives (optlang container semantics) ---------- *)
Definition sv_add_var (v : vname) (b : bb) (s : st) : st :=
  set_vb (set_vin s (updv (vin s) v true)) (updv (vb s) v b).
(* solver.remove(variable): the column disappears from every row and from the objective *)
Definition sv_remove_var (v : vname) (s : st) : st :=
  let s := set_vb (set_vin s (updv (vin s) v false)) (updv (vb s) v free) in
  let s := set_oc s (updv (oc s) v 0) in
  set_co s (fun c v' => if vname_eqb v' v then 0 else co s c v').
Definition sv_add_cons (c : cname) (b : bb) (t : vname -> Z) (s : st) : st :=
  set_co (set_cb (set_cin s (updc (cin s) c true)) (updc (cb s) c b)) (updc (co s) c t).
Definition sv_remove_cons (c : cname) (s : st) : st :=
  set_co (set_cb (set_cin s (updc (cin s) c false)) (updc (cb s) c free)) (updc (co s) c (fun _ => 0)).
Definition var_set_bounds (v : vname) (b : bb) (s : st) : st := set_vb s (updv (vb s) v b).

(* ---------- (a) user variables and constraints ---------- *)
(* model.add_cons_vars([model.problem.Variable("x<k>", lb=.., ub=..)]) *)
Definition add_user_var (k : Z) (b : bb) (s : st) : st :=
  set_uv (sv_add_var (VU k) b s) (updz (uv s) k (Some b)).
(* model.add_cons_vars([model.problem.Constraint(sum(c * model.variables[name]), lb=.., ub=.., name="uc<k>")]) *)
Definition add_user_cons (k : Z) (b : bb) (t : list (vname * Z)) (s : st) : st :=
  let s1 := sv_add_cons (CU k) b (tfun t) s in
  set_uct (set_uc s1 (updz (uc s) k (Some b))) (updz (uct s) k (tfun t)).
(* model.remove_cons_vars([x]): the variable leaves every row, hence every user constraint *)
Definition remove_user_var (k : Z) (s : st) : st :=
  let s1 := sv_remove_var (VU k) s in
  set_uct (set_uv s1 (updz (uv s) k None)) (fun k' v => if vname_eqb v (VU k) then 0 else uct s k' v).
Definition remove_user_cons (k : Z) (s : st) : st :=
  let s1 := sv_remove_cons (CU k) s in
  set_uct (set_uc s1 (updz (uc s) k None)) (updz (uct s) k (fun _ => 0)).
(* model.remove_cons_vars(["x<k>"]) / (["uc<k>"]): optlang looks the name up in the variables, then in the constraints;
   LookupError when there is neither, and nothing has changed *)
Definition remove_var_by_name (k : Z) (s : st) : st * res :=
  if vin s (VU k) then (remove_user_var k s, Ok) else (s, RaiseLookupError).
Definition remove_cons_by_name (k : Z) (s : st) : st * res :=
  if cin s (CU k) then (remove_user_cons k s, Ok) else (s, RaiseLookupError).

(* ---------- structural edits as far as they touch the solver and the user items ---------- *)
(* Model.add_metabolites([m]) for a metabolite that is not in the model *)
Definition add_met (m : Z) (s : st) : st :=
  let s1 := set_min s (updz (min s) m true) in
  if cin s (CM m) then s1 else sv_add_cons (CM m) (Some 0, Some 0) (fun _ => 0) s1.

(* the metabolite loop of Model.add_reactions for one reaction *)
Fixpoint adopt_mets (r : Z) (l : list (Z * Z)) (s : st) : st :=
  match l with
  | [] => s
  | (m, _) :: l' =>
      let s1 := if min s m then s else add_met m s in
      adopt_mets r l' (set_back s1 (fun m' r' => if (m' =? m) && (r' =? r) then true else back s1 m' r'))
  end.
(* the coefficient loop of Model._populate_solver for one reaction *)
Fixpoint set_rows (r : Z) (l : list (Z * Z)) (s : st) : st :=
  match l with
  | [] => s
  | (m, c) :: l' =>
      set_rows r l' (set_co s (fun cn v => if cname_eqb cn (CM m) then
                                             (if vname_eqb v (VF r) then c else if vname_eqb v (VR r) then - c else co s cn v)
                                           else co s cn v))
  end.
(* Model.add_reactions([reaction]) for a reaction object outside the model with identifier r, bounds b, stoichiometry l;
   "Reactions with identifiers identical to a reaction already in the model are ignored." *)
Definition add_rxn (r : Z) (b : Z * Z) (l : list (Z * Z)) (s : st) : st :=
  if rin s r then s else
  let s1 := set_sto (set_rb (set_rin s (updz (rin s) r true)) (updz (rb s) r b)) (updz (sto s) r (assz l)) in
  let s2 := adopt_mets r l s1 in
  (* _populate_solver([reaction]) *)
  let s3 := if vin s2 (VF r) then s2 else sv_add_var (VR r) free (sv_add_var (VF r) free s2) in
  let s4 := set_rows r l s3 in
  var_set_bounds (VR r) (snd (split b)) (var_set_bounds (VF r) (fst (split b)) s4).

(* Model.remove_reactions([reaction]) (remove_orphans=False); a reaction that is not in the model: a warning *)
Definition remove_rxn (r : Z) (s : st) : st :=
  if negb (rin s r) then s else
  (* the objective forgets the two variables, remove_cons_vars([forward, reverse]) takes them out of every row *)
  let s1 := sv_remove_var (VR r) (sv_remove_var (VF r) s) in
  let s2 := set_rin s1 (updz (rin s1) r false) in
  let s3 := set_back s2 (fun m r' => if r' =? r then false else back s2 m r') in
  (* ledger: a term lives as long as its variable *)
  set_uct s3 (fun k v => if vname_eqb v (VF r) || vname_eqb v (VR r) then 0 else uct s3 k v).

(* reaction.bounds = (lb, ub) for a reaction of the model *)
Definition set_bounds (r lb ub : Z) (s : st) : st * res :=
  if ub <? lb then (s, RaiseValueError) else
  let s1 := set_rb s (updz (rb s) r (lb, ub)) in
  if rin s r then (var_set_bounds (VR r) (snd (split (lb, ub))) (var_set_bounds (VF r) (fst (split (lb, ub))) s1), Ok)
  else (s1, Ok).

(* model.objective = {reaction: coefficient, ...} (reactions of the model): a new zero objective, then the coefficients *)
Fixpoint obj_of (l : list (Z * Z)) (f : vname -> Z) : vname -> Z :=
  match l with
  | [] => f
  | (r, c) :: l' => obj_of l' (updv (updv f (VF r) c) (VR r) (- c))
  end.
Definition set_obj (l : list (Z * Z)) (s : st) : st := set_oc s (obj_of l (fun _ => 0)).

(* ---------- (b) model.solver = "glpk" | "glpk_exact" ----------
   Nothing happens when the interface is the one in use; otherwise the problem is rebuilt by
   `interface.Model.clone` (through a JSON form): the variables with their bounds, the constraints with their bounds
   and their expressions over variable NAMES, the objective expression and direction.  What does not exist is not
   carried over.  Reactions and metabolites find their variables / rows by name, so they belong to the new problem. *)
Definition clone_problem (s : st) : st :=
  let s := set_vb s (fun v => if vin s v then vb s v else free) in
  let s := set_cb s (fun c => if cin s c then cb s c else free) in
  let s := set_co s (fun c v => if cin s c && vin s v then co s c v else 0) in
  set_oc s (fun v => if vin s v then oc s v else 0).
Definition switch_solver (e : bool) (s : st) : st :=
  if Bool.eqb (exact s) e then s else set_exact (clone_problem s) e.

(* ---------- (c) Model.merge(right, prefix_existing, inplace, objective) ----------
   `right` is given as data: its reactions, its metabolites (with or without reactions), its user variables and
   constraints, its objective (reaction -> coefficient) and direction.  It is a cobra model in its own right, so its
   solver holds the variables VF/VR of its reactions, the rows CM of its metabolites and its user items. *)
Record rrxn := mkRR { rr_id : Z; rr_b : Z * Z; rr_sto : list (Z * Z) }.
Record rmodel := mkRM {
  rm_rxns : list rrxn; rm_mets : list Z;
  rm_uvars : list (Z * bb); rm_ucons : list (Z * bb * list (vname * Z));
  rm_obj : list (Z * Z); rm_dir : bool }.

Definition PFX : Z := 1000.
Definition pref (r : Z) : Z := r + PFX.

(* Three places where the code as found departs from what merge documents / from the invariants; `vfix` is the repaired
   behaviour (fixes/merge-*.patch), `vimpl` the code as found.  harness/extras.py probe_variant decides which one the
   check compares with.
     fx_back:   the copies of right's reactions that are ignored (identifier exists) stay registered in the `_reaction`
                set of the metabolite copies that join the model;
     fx_rows:   the rows of right's metabolites that do not join the model (they belong only to ignored reactions, or
                to no reaction) are copied like custom constraints;
     fx_sumdir: objective="sum" resets the direction to "max". *)
Record variant := mkV { fx_back : bool; fx_rows : bool; fx_sumdir : bool }.
Definition vfix : variant := mkV true true true.
Definition vimpl : variant := mkV false false false.

(* new identifier of a reaction of right: prefixed when prefix_existing is given and the left model has it *)
Definition new_id (s : st) (pfx : bool) (x : rrxn) : Z := if pfx && rin s (rr_id x) then pref (rr_id x) else rr_id x.

Definition memz (k : Z) (l : list Z) : bool := existsb (fun x => x =? k) l.

(* as found: a metabolite that joins through right's reaction copies knows every copy that lists it, also an ignored one *)
Definition stale_back (s0 s : st) (skipped : list rrxn) : st :=
  set_back s (fun m r => back s m r ||
     (min s m && negb (min s0 m) && existsb (fun x => (rr_id x =? r) && negb (assz (rr_sto x) m =? 0)) skipped)).

(* interface.Variable.clone(v) for v in right.variables if v.name not in new_model.variables: only user variables can be
   new (the variables of right's reactions exist by name once the reactions are added or ignored) *)
Definition merge_vars (l : list (Z * bb)) (s : st) : st :=
  let news := filter (fun x => negb (vin s (VU (fst x)))) l in
  fold_left (fun s x => add_user_var (fst x) (snd x) s) news s.

(* interface.Constraint.clone(c, model=new_model.solver) for c in right.constraints if c.name not in new_model.constraints:
   the expression is rebuilt over the variables found by NAME in the merged model (KeyError for a missing name) *)
Fixpoint merge_cons (l : list (Z * bb * list (vname * Z))) (s : st) : st * res :=
  match l with
  | [] => (s, Ok)
  | (k, b, t) :: l' =>
      if forallb (fun x => vin s (fst x)) t then merge_cons l' (add_user_cons k b t s) else (s, RaiseKeyError)
  end.
(* as found: the row of a metabolite of right that did not join the model, over the variables found by name *)
Definition right_row (rm : rmodel) (m : Z) (v : vname) : Z :=
  match v with
  | VF r => fold_right (fun x acc => if rr_id x =? r then assz (rr_sto x) m + acc else acc) 0 (rm_rxns rm)
  | VR r => fold_right (fun x acc => if rr_id x =? r then - assz (rr_sto x) m + acc else acc) 0 (rm_rxns rm)
  | VU _ => 0
  end.
Definition merge_met_rows (rm : rmodel) (l : list Z) (s : st) : st :=
  fold_left (fun s m => sv_add_cons (CM m) (Some 0, Some 0) (right_row rm m) s) l s.

Definition merge_objective (v : variant) (rm : rmodel) (mode : Z) (s : st) : st :=
  if mode =? 1 then set_odir (set_obj (rm_obj rm) s) (rm_dir rm)
  else if mode =? 2 then
    let s1 := set_oc s (fun n => oc s n + obj_of (rm_obj rm) (fun _ => 0) n) in
    if fx_sumdir v then s1 else set_odir s1 true
  else s.

(* the merged model (`self` when inplace, otherwise a copy of it) *)
Definition merge_result (v : variant) (rm : rmodel) (pfx : bool) (mode : Z) (s : st) : st * res :=
  (* new_reactions = deepcopy(right.reactions), prefixed where the identifier exists; add_reactions ignores those whose
     identifier (still) exists *)
  let renamed := map (fun x => mkRR (new_id s pfx x) (rr_b x) (rr_sto x)) (rm_rxns rm) in
  let pruned := filter (fun x => negb (rin s (rr_id x))) renamed in
  let skipped := filter (fun x => rin s (rr_id x)) renamed in
  let s1 := fold_left (fun s x => add_rxn (rr_id x) (rr_b x) (rr_sto x) s) pruned s in
  let s1 := if fx_back v then s1 else stale_back s s1 skipped in
  let s2 := merge_vars (rm_uvars rm) s1 in
  let rows := filter (fun m => negb (cin s2 (CM m))) (rm_mets rm) in
  let news := filter (fun x => negb (cin s2 (CU (fst (fst x))))) (rm_ucons rm) in
  let s3 := if fx_rows v then s2 else merge_met_rows rm rows s2 in
  let '(s4, r) := merge_cons news s3 in
  match r with
  | Ok => (merge_objective v rm mode s4, Ok)
  | _ => (s4, r)
  end.

(* ---------- operations ---------- *)
Inductive op :=
| AddUserVar (k : Z) (lb ub : bnd)
| AddUserCons (k : Z) (lb ub : bnd) (t : list (vname * Z))
| RemoveUserVar (k : Z)                  (* by object *)
| RemoveUserCons (k : Z)
| RemoveVarByName (k : Z)
| RemoveConsByName (k : Z)
| AddRxn (r lb ub : Z) (l : list (Z * Z))
| RemoveRxn (r : Z)
| SetBounds (r lb ub : Z)
| SetObj (l : list (Z * Z))
| SetDir (d : bool)
| SwitchSolver (e : bool)
| Merge (rm : rmodel) (pfx : bool) (mode : Z) (inplace : bool).

Definition step (v : variant) (s : st) (o : op) : st * res :=
  match o with
  | AddUserVar k lb ub => (add_user_var k (lb, ub) s, Ok)
  | AddUserCons k lb ub t => (add_user_cons k (lb, ub) t s, Ok)
  | RemoveUserVar k => (remove_user_var k s, Ok)
  | RemoveUserCons k => (remove_user_cons k s, Ok)
  | RemoveVarByName k => remove_var_by_name k s
  | RemoveConsByName k => remove_cons_by_name k s
  | AddRxn r lb ub l => (add_rxn r (lb, ub) l s, Ok)
  | RemoveRxn r => (remove_rxn r s, Ok)
  | SetBounds r lb ub => set_bounds r lb ub s
  | SetObj l => (set_obj l s, Ok)
  | SetDir d => (set_odir s d, Ok)
  | SwitchSolver e => (switch_solver e s, Ok)
  | Merge rm pfx mode inplace =>
      (* inplace=False: "create a new model leaving the left model untouched" -- the returned model is
         `merge_result`, compared by the check (Check.v) on the observation of the returned object *)
      if inplace then merge_result v rm pfx mode s else (s, snd (merge_result v rm pfx mode s))
  end.

Definition run (v : variant) (ops : list op) (s : st) : st := fold_left (fun s o => fst (step v s o)) ops s.

(* ---------- `with model:` at SPECIFICATION level (property C03) ----------
   Entering a block saves the state, leaving it puts the saved state back.  That the implementation does the same for
   the operations it documents as reversible is what the C03 check compares (Check.v codes 4, 5). *)
Record cst := mkC { cur : st; saved : list st }.
Inductive cop := Do (o : op) | Enter | Exit.
Definition cstep (v : variant) (c : cst) (o : cop) : cst * res :=
  match o with
  | Do o => let '(s, r) := step v (cur c) o in (mkC s (saved c), r)
  | Enter => (mkC (cur c) (cur c :: saved c), Ok)
  | Exit => match saved c with e :: rest => (mkC e rest, Ok) | [] => (c, Ok) end
  end.
Definition crun (v : variant) (ops : list cop) (c : cst) : cst := fold_left (fun c o => fst (cstep v c o)) ops c.
