(* The invariant of kernel IV: the solver problem is exactly the flux-balance problem of the model's content plus what
   the user added (the ledger), each user item exactly as added; the objective is a function of net fluxes over
   variables that exist; the cross references of the content are consistent (the Core invariant's WF).  Statements
   only; the proofs are in Proofs.v. *)
From Coq Require Import ZArith List Bool.
From Cobra.Extras Require Import Model.
Import ListNotations.
Open Scope Z_scope.

Definition is_some {A} (o : option A) : bool := match o with Some _ => true | None => false end.

(* ---------- the problem the solver must hold, as a function of content and ledger ---------- *)
Definition exp_vin (s : st) (v : vname) : bool :=
  match v with VF r | VR r => rin s r | VU k => is_some (uv s k) end.
Definition exp_vb (s : st) (v : vname) : bb :=
  match v with
  | VF r => if rin s r then fst (split (rb s r)) else free
  | VR r => if rin s r then snd (split (rb s r)) else free
  | VU k => match uv s k with Some b => b | None => free end
  end.
Definition exp_cin (s : st) (c : cname) : bool :=
  match c with CM m => min s m | CU k => is_some (uc s k) end.
Definition exp_cb (s : st) (c : cname) : bb :=
  match c with
  | CM m => if min s m then (Some 0, Some 0) else free
  | CU k => match uc s k with Some b => b | None => free end
  end.
Definition exp_co (s : st) (c : cname) (v : vname) : Z :=
  match c with
  | CM m => match v with
            | VF r => if rin s r && min s m then sto s r m else 0
            | VR r => if rin s r && min s m then - sto s r m else 0
            | VU _ => 0
            end
  | CU k => uct s k v
  end.

Record Inv (s : st) : Prop := mkInv {
  (* C01: exactly the flux-balance problem of the content and the user items, nothing else *)
  I_vin : forall v, vin s v = exp_vin s v;
  I_vb : forall v, vb s v = exp_vb s v;
  I_cin : forall c, cin s c = exp_cin s c;
  I_cb : forall c, cb s c = exp_cb s c;
  I_co : forall c v, co s c v = exp_co s c v;
  (* the objective: net fluxes of reactions of the model *)
  I_oc_abs : forall v, vin s v = false -> oc s v = 0;
  I_oc_user : forall k, oc s (VU k) = 0;
  I_oc_net : forall r, oc s (VR r) = - oc s (VF r);
  (* the ledger: terms only of constraints that exist, over variables that exist *)
  I_lg : forall k v, uct s k v <> 0 -> is_some (uc s k) = true /\ exp_vin s v = true;
  (* C02: cross references *)
  I_wf1 : forall r m, rin s r = true -> sto s r m <> 0 -> min s m = true /\ back s m r = true;
  I_wf2 : forall m r, min s m = true -> back s m r = true -> rin s r = true /\ sto s r m <> 0;
  (* a metabolite that is not in the model has no back references (needed for the invariant to be inductive: adding a
     reaction brings its metabolites into the model with whatever they list) *)
  I_bk : forall m r, back s m r = true -> min s m = true
}.

(* ---------- the domain of the operations (boolean, so that examples are decided by computation) ---------- *)
Fixpoint nodupb (l : list Z) : bool :=
  match l with [] => true | a :: r => negb (memz a r) && nodupb r end.
Definition sto_okb (l : list (Z * Z)) : bool :=
  nodupb (map fst l) && forallb (fun x => negb (snd x =? 0)) l.

(* `right` is a well-formed model description: identifiers distinct (after prefixing), stoichiometries well formed, user
   items named apart, the objective over its own reactions *)
Definition rm_okb (s : st) (rm : rmodel) (pfx : bool) : bool :=
  nodupb (map (new_id s pfx) (rm_rxns rm)) &&
  forallb (fun x => sto_okb (rr_sto x)) (rm_rxns rm) &&
  nodupb (map fst (rm_uvars rm)) && nodupb (map (fun x => fst (fst x)) (rm_ucons rm)) &&
  nodupb (map fst (rm_obj rm)) && forallb (fun x => memz (fst x) (map rr_id (rm_rxns rm))) (rm_obj rm).

Definition op_okb (s : st) (o : op) : bool :=
  match o with
  | AddUserVar k _ _ => negb (vin s (VU k))                                   (* a new name *)
  | AddUserCons k _ _ t => negb (cin s (CU k)) && forallb (fun x => vin s (fst x)) t   (* over variables that exist *)
  | RemoveUserVar k => vin s (VU k)                                            (* the object is in the problem *)
  | RemoveUserCons k => cin s (CU k)
  | AddRxn _ _ _ l => sto_okb l
  | SetObj l => nodupb (map fst l) && forallb (fun x => rin s (fst x)) l
  | Merge rm pfx _ _ => rm_okb s rm pfx
  | _ => true
  end.
Definition op_ok (s : st) (o : op) : Prop := op_okb s o = true.

Fixpoint ok_run (v : variant) (s : st) (ops : list op) : Prop :=
  match ops with [] => True | o :: ops' => op_ok s o /\ ok_run v (fst (step v s o)) ops' end.
