(* `with model:` at specification level (Model.v `cst`, `cstep`): the invariant also holds along histories with
   blocks, and a closed block gives back the state at its entry.  The second statement is the specification itself
   (Exit is defined as putting the saved state back); that the implementation meets it is what the C03 check compares
   on the real objects. *)
From Coq Require Import ZArith List Bool Lia.
From Cobra.Extras Require Import Model Inv Proofs.
Import ListNotations.
Open Scope Z_scope.

(* the invariant with blocks: the current state and every saved state are consistent *)
Definition CInv (c : cst) : Prop := Inv (cur c) /\ Forall Inv (saved c).

(* every operation of the kernel is allowed inside a block (on its domain) *)
Definition cop_ok (c : cst) (o : cop) : Prop :=
  match o with
  | Do o => op_ok (cur c) o
  | _ => True
  end.

Theorem cstep_CInv : forall c o, CInv c -> cop_ok c o -> CInv (fst (cstep vfix c o)).
Proof.
  intros [s st0] o [H1 H2] Hok. unfold CInv. cbn [cur saved] in *. destruct o as [o| |]; cbn [cstep cop_ok cur saved] in *.
  - destruct (step vfix s o) as [s' r] eqn:E. cbn [fst cur saved].
    assert (Es : s' = fst (step vfix s o)) by (rewrite E; reflexivity). split; [|exact H2].
    rewrite Es. apply step_Inv; [exact H1|apply Hok].
  - cbn [fst cur saved]. split; [exact H1|]. constructor; assumption.
  - destruct st0 as [|e rest]; cbn [fst cur saved]; [split; assumption|].
    inversion H2; subst. split; assumption.
Qed.

Fixpoint cok_run (c : cst) (ops : list cop) : Prop :=
  match ops with [] => True | o :: ops' => cop_ok c o /\ cok_run (fst (cstep vfix c o)) ops' end.

Theorem crun_CInv : forall ops c, CInv c -> cok_run c ops -> CInv (crun vfix ops c).
Proof.
  induction ops as [|o ops IH]; intros c H Hok; cbn [crun fold_left cok_run] in *; [exact H|].
  destruct Hok as [A B]. apply (IH (fst (cstep vfix c o))); [apply cstep_CInv; assumption|exact B].
Qed.

(* a well-bracketed piece of history leaves the stack of saved states as it found it ... *)
Fixpoint balanced (d : nat) (ops : list cop) : bool :=
  match ops with
  | [] => Nat.eqb d 0
  | Enter :: r => balanced (S d) r
  | Exit :: r => match d with O => false | S d' => balanced d' r end
  | Do _ :: r => balanced d r
  end.

Lemma crun_saved : forall v ops d c, balanced d ops = true -> (d <= length (saved c))%nat ->
  saved (crun v ops c) = skipn d (saved c).
Proof.
  intros v. induction ops as [|o ops IH]; intros d c Hb Hd; cbn [crun fold_left].
  - cbn in Hb. apply Nat.eqb_eq in Hb. subst. reflexivity.
  - fold (crun v ops (fst (cstep v c o))). destruct o as [o| |]; cbn [balanced] in Hb.
    + rewrite (IH d); [|exact Hb|]; cbn [cstep]; destruct (step v (cur c) o); cbn [fst saved]; [reflexivity|exact Hd].
    + rewrite (IH (S d)); [|exact Hb|]; cbn [cstep fst saved]; [reflexivity|cbn; lia].
    + destruct d as [|d']; [discriminate|]. destruct c as [s [|e rest]]; cbn [saved length] in Hd; [lia|].
      rewrite (IH d'); [|exact Hb|]; cbn [cstep fst saved]; [reflexivity|lia].
Qed.

Lemma crun_app : forall v a b c, crun v (a ++ b) c = crun v b (crun v a c).
Proof. intros. unfold crun. apply fold_left_app. Qed.

(* ... so a block `Enter; ops; Exit` with well-bracketed ops ends in the very state saved at its entry, on top of the
   same enclosing blocks: the specification the implementation is compared with *)
Theorem block_restores : forall v ops c, balanced 0 ops = true ->
  crun v (Enter :: ops ++ [Exit]) c = c.
Proof.
  intros v ops c Hb. change (Enter :: ops ++ [Exit]) with ([Enter] ++ ops ++ [Exit]). rewrite !crun_app.
  change (crun v [Enter] c) with (mkC (cur c) (cur c :: saved c)).
  set (c1 := mkC (cur c) (cur c :: saved c)).
  pose proof (crun_saved v ops 0 c1 Hb (Nat.le_0_l _)) as Hs. cbn [skipn] in Hs.
  destruct (crun v ops c1) as [s2 st2] eqn:E. cbn [saved] in Hs. subst st2. destruct c. reflexivity.
Qed.
