(* Correspondence and monitor functions of kernel IV (user constraints and variables, solver switch, merge) for C01 / C02 /
   C03, evaluated by vm_compute on what the harness (harness/extras.py) observed of the real cobra Model after every
   operation.  Nothing here is a theorem.

   codes:  1  the Gallina model (Model.v `step` / `cstep`) and the implementation differ (state, raised exception class)
           2  C01: the observed solver problem is not "flux-balance problem of the OBSERVED content + the ledger"
              (`exp_*` of Inv.v evaluated on the implementation's own content and the ledger of what the user added)
           3  C02: cross references of the observed object graph
           4  C03: the observation after leaving a block is not the one at its entry        5  __exit__ raised
           7  C02 documented effect: merge(objective="sum") changed the direction; merge(inplace=False) ...
           8  C01 documented effect: after `model.solver = ...` the observation is not the previous one with the
              requested interface                                                                         *)
From Coq Require Import ZArith List Bool.
From Cobra.Extras Require Import Model Inv.
Import ListNotations.
Open Scope Z_scope.

Record robs := mkR { ro_id : Z; ro_lb : Z; ro_ub : Z; ro_st : list (Z * Z) }.       (* a reaction of model.reactions *)
Record mobs := mkM { mo_id : Z; mo_back : list Z; mo_foreign : list Z }.          (* a metabolite of model.metabolites:
      identifiers of m._reaction; those of them that are not the object model.reactions has under that identifier *)
Record vobs := mkVo { vo_name : vname; vo_lb : bnd; vo_ub : bnd; vo_obj : Z }.    (* raw GLPK column *)
Record cobs := mkCo { co_name : cname; co_lb : bnd; co_ub : bnd; co_coefs : list (vname * Z) }.   (* raw GLPK row *)
Record obs := mkO {
  o_rx : list robs; o_mt : list mobs; o_vars : list vobs; o_cons : list cobs;
  o_dir : bool; o_exact : bool;
  o_shape : bool;     (* every name decodes; names unique; optlang view = raw problem; every reaction's forward / reverse
                         variable, every metabolite's constraint, the objective belong to model.solver; _model pointers;
                         metabolite keys are the model's objects; genes; DictList indices; tolerance carried over *)
  o_depth : Z; o_res : res }.
(* the identifier universe of a case: reactions, metabolites, user variables, user constraints *)
Record univ := mkU { u_r : list Z; u_m : list Z; u_v : list Z; u_c : list Z }.

Definition bnd_eqb (a b : bnd) : bool :=
  match a, b with None, None => true | Some x, Some y => x =? y | _, _ => false end.
Definition bb_eqb (a b : bb) : bool := bnd_eqb (fst a) (fst b) && bnd_eqb (snd a) (snd b).
Definition res_eqb (a b : res) : bool :=
  match a, b with
  | Ok, Ok | RaiseValueError, RaiseValueError | RaiseKeyError, RaiseKeyError | RaiseLookupError, RaiseLookupError
  | RaiseOther, RaiseOther => true
  | _, _ => false end.
Fixpoint assv (k : vname) (l : list (vname * Z)) : Z :=
  match l with [] => 0 | (a, b) :: r => if vname_eqb a k then b else assv k r end.
Definition find_var (k : vname) (l : list vobs) : option vobs := find (fun x => vname_eqb (vo_name x) k) l.
Definition find_con (k : cname) (l : list cobs) : option cobs := find (fun x => cname_eqb (co_name x) k) l.
Definition find_r (k : Z) (l : list robs) : option robs := find (fun x => ro_id x =? k) l.
Definition find_m (k : Z) (l : list mobs) : option mobs := find (fun x => mo_id x =? k) l.
Definition vnames (u : univ) : list vname := flat_map (fun r => [VF r; VR r]) (u_r u) ++ map VU (u_v u).
Definition cnames (u : univ) : list cname := map CM (u_m u) ++ map CU (u_c u).

(* ---- code 1 ---- *)
Definition agree (u : univ) (s : st) (o : obs) : bool :=
  forallb (fun r => match find_r r (o_rx o) with
     | Some x => rin s r && (fst (rb s r) =? ro_lb x) && (snd (rb s r) =? ro_ub x) &&
                 forallb (fun m => sto s r m =? assz (ro_st x) m) (u_m u)
     | None => negb (rin s r) end) (u_r u) &&
  forallb (fun m => match find_m m (o_mt o) with
     | Some x => min s m && forallb (fun r => Bool.eqb (back s m r) (memz r (mo_back x))) (u_r u)
     | None => negb (min s m) end) (u_m u) &&
  forallb (fun n => match find_var n (o_vars o) with
     | Some v => vin s n && bb_eqb (vb s n) (vo_lb v, vo_ub v) && (oc s n =? vo_obj v)
     | None => negb (vin s n) end) (vnames u) &&
  forallb (fun c => match find_con c (o_cons o) with
     | Some x => cin s c && bb_eqb (cb s c) (co_lb x, co_ub x) &&
                 forallb (fun n => co s c n =? assv n (co_coefs x)) (vnames u)
     | None => negb (cin s c) end) (cnames u) &&
  Bool.eqb (odir s) (o_dir o) && Bool.eqb (exact s) (o_exact o).

(* ---- code 2 (C01): the state whose content is the OBSERVED content and whose ledger is the model's ---- *)
Definition content_of (o : obs) (s : st) : st :=
  let s := set_rin s (fun r => is_some (find_r r (o_rx o))) in
  let s := set_rb s (fun r => match find_r r (o_rx o) with Some x => (ro_lb x, ro_ub x) | None => (0, 0) end) in
  let s := set_sto s (fun r m => match find_r r (o_rx o) with Some x => assz (ro_st x) m | None => 0 end) in
  set_min s (fun m => is_some (find_m m (o_mt o))).
Definition sync_b (u : univ) (s : st) (o : obs) : bool :=
  let e := content_of o s in
  o_shape o &&
  forallb (fun n => match find_var n (o_vars o) with
     | Some v => exp_vin e n && bb_eqb (exp_vb e n) (vo_lb v, vo_ub v)
     | None => negb (exp_vin e n) end) (vnames u) &&
  (* the objective: net fluxes only *)
  forallb (fun v => match vo_name v with
     | VF r => match find_var (VR r) (o_vars o) with Some w => vo_obj w =? - vo_obj v | None => false end
     | VR _ => true
     | VU _ => vo_obj v =? 0 end) (o_vars o) &&
  forallb (fun c => match find_con c (o_cons o) with
     | Some x => exp_cin e c && bb_eqb (exp_cb e c) (co_lb x, co_ub x) &&
                 forallb (fun n => exp_co e c n =? assv n (co_coefs x)) (vnames u)
     | None => negb (exp_cin e c) end) (cnames u) &&
  (* nothing else: every column / row is one of the universe's names (the harness lists every name it met) *)
  (Nat.eqb (length (o_vars o)) (length (filter (fun n => is_some (find_var n (o_vars o))) (vnames u)))) &&
  (Nat.eqb (length (o_cons o)) (length (filter (fun c => is_some (find_con c (o_cons o))) (cnames u)))).

(* ---- code 3 (C02) ---- *)
Definition wf_b (o : obs) : bool :=
  forallb (fun x => forallb (fun mc => negb (snd mc =? 0) &&
                       match find_m (fst mc) (o_mt o) with Some m => memz (ro_id x) (mo_back m) | None => false end)
                    (ro_st x)) (o_rx o) &&
  forallb (fun m => match mo_foreign m with [] => true | _ => false end &&
                    forallb (fun r => match find_r r (o_rx o) with
                                      | Some x => negb (assz (ro_st x) (mo_id m) =? 0) | None => false end) (mo_back m))
          (o_mt o).

(* ---- code 4 (C03) ---- *)
Definition same_zz (a b : list (Z * Z)) : bool :=
  forallb (fun x => assz b (fst x) =? snd x) a && forallb (fun x => assz a (fst x) =? snd x) b.
Definition same_set (a b : list Z) : bool := forallb (fun x => memz x b) a && forallb (fun x => memz x a) b.
Definition same_terms (a b : list (vname * Z)) : bool :=
  forallb (fun x => assv (fst x) b =? snd x) a && forallb (fun x => assv (fst x) a =? snd x) b.
Definition restored (a b : obs) : bool :=
  Nat.eqb (length (o_rx a)) (length (o_rx b)) &&
  forallb (fun x => match find_r (ro_id x) (o_rx b) with
     | Some y => (ro_lb x =? ro_lb y) && (ro_ub x =? ro_ub y) && same_zz (ro_st x) (ro_st y) | None => false end) (o_rx a) &&
  Nat.eqb (length (o_mt a)) (length (o_mt b)) &&
  forallb (fun x => match find_m (mo_id x) (o_mt b) with
     | Some y => same_set (mo_back x) (mo_back y) && same_set (mo_foreign x) (mo_foreign y) | None => false end) (o_mt a) &&
  Nat.eqb (length (o_vars a)) (length (o_vars b)) &&
  forallb (fun x => match find_var (vo_name x) (o_vars b) with
     | Some y => bb_eqb (vo_lb x, vo_ub x) (vo_lb y, vo_ub y) && (vo_obj x =? vo_obj y) | None => false end) (o_vars a) &&
  Nat.eqb (length (o_cons a)) (length (o_cons b)) &&
  forallb (fun x => match find_con (co_name x) (o_cons b) with
     | Some y => bb_eqb (co_lb x, co_ub x) (co_lb y, co_ub y) && same_terms (co_coefs x) (co_coefs y) | None => false end)
          (o_cons a) &&
  Bool.eqb (o_dir a) (o_dir b) && Bool.eqb (o_exact a) (o_exact b) && Bool.eqb (o_shape a) (o_shape b) &&
  (o_depth a =? o_depth b).

(* ---- codes 7, 8: documented effects, on the implementation's own observations before / after ---- *)
Definition same_problem (a b : obs) : bool :=       (* everything but the interface tag *)
  restored a (mkO (o_rx b) (o_mt b) (o_vars b) (o_cons b) (o_dir b) (o_exact a) (o_shape b) (o_depth b) (o_res b)).
Definition effect7 (o : cop) (prev ob : obs) : bool :=
  match o with
  | Do (Merge _ _ mode _) => negb (mode =? 2) || negb (res_eqb (o_res ob) Ok) || Bool.eqb (o_dir prev) (o_dir ob)
  | _ => true
  end.
Definition effect8 (o : cop) (prev ob : obs) : bool :=
  match o with
  | Do (SwitchSolver e) => same_problem prev ob && Bool.eqb (o_exact ob) e
  | _ => true
  end.

Definition is_exit (o : cop) : bool := match o with Exit => true | _ => false end.
Definition is_enter (o : cop) : bool := match o with Enter => true | _ => false end.
Definition flag (b : bool) (n c : nat) : list (nat * nat) := if b then [] else [(n, c)].

(* a step: the operation, the observation of the model afterwards, and -- for merge(inplace=False) -- the observation of
   the returned model *)
Fixpoint check_steps (v : variant) (u : univ) (c : cst) (synced : bool) (stack : list obs) (prev : obs)
                     (steps : list (cop * obs * list obs)) (n : nat) : list (nat * nat) :=
  match steps with
  | [] => []
  | (o, ob, aux) :: rest =>
      let '(c', r) := cstep v c o in
      let s' := cur c' in
      let c1 := negb synced || (agree u s' ob && res_eqb r (o_res ob)) in
      let c2 := negb synced || sync_b u s' ob in
      let c3 := wf_b ob in
      (* merge(inplace=False): the returned model against `merge_result`, the left model (ob) against the unchanged state *)
      let '(a1, a2, a3) :=
        match o, aux with
        | Do (Merge rm pfx mode false), ret :: _ =>
            let m := fst (merge_result v rm pfx mode (cur c)) in
            (negb synced || agree u m ret, negb synced || sync_b u m ret, wf_b ret)
        | _, _ => (true, true, true)
        end in
      let '(c4, c5, stack') :=
        if is_enter o then (true, true, prev :: stack)
        else if is_exit o then
          match stack with
          | e :: st' => (restored e ob, res_eqb (o_res ob) Ok, st')
          | [] => (true, true, [])
          end
        else (true, true, stack) in
      flag (c1 && a1) n 1 ++ flag (c2 && a2) n 2 ++ flag (c3 && a3) n 3 ++ flag c4 n 4 ++ flag c5 n 5 ++
      flag (effect7 o prev ob) n 7 ++ flag (effect8 o prev ob) n 8 ++
      check_steps v u c' (synced && c1) stack' ob rest (S n)
  end.

Definition check_case (v : variant) (c : univ * obs * list (cop * obs * list obs)) : list (nat * nat) :=
  let '(u, ob0, steps) := c in
  let s0 := init (o_exact ob0) in
  flag (agree u s0 ob0) 0 1 ++ flag (sync_b u s0 ob0) 0 2 ++ flag (wf_b ob0) 0 3 ++
  check_steps v u (mkC s0 []) true [] ob0 steps 1.

Definition failing (v : variant) (cases : list (Z * (univ * obs * list (cop * obs * list obs)))) : list (Z * list (nat * nat)) :=
  filter (fun r => match snd r with [] => false | _ => true end)
         (map (fun c => (fst c, check_case v (snd c))) cases).
(* C03: the same evaluation; the C03 check reports codes 4 and 5 *)
Definition failing_ctx := failing.
