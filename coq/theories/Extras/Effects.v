(* Kernel IV: what each operation does and what it leaves alone (C01: exactly the documented effect, nothing else).
   All statements are pointwise (no functional extensionality); an equation between two fields (`rin s' = rin s`)
   holds by computation. *)
From Coq Require Import ZArith List Bool Lia.
From Cobra.Extras Require Import Model Inv Proofs.
Import ListNotations.
Open Scope Z_scope.

Ltac neq_v := match goal with N : ?v <> ?w |- _ => destruct (vname_eqb_spec v w); [contradiction|] end.
Ltac neq_c := match goal with N : ?v <> ?w |- _ => destruct (cname_eqb_spec v w); [contradiction|] end.
Ltac neq_z := match goal with N : ?a <> ?b |- _ => apply Z.eqb_neq in N; rewrite N end.
Ltac fin := repeat split; intros; try reflexivity; try (neq_v; reflexivity); try (neq_c; reflexivity);
  try (neq_z; reflexivity).

(* ---------- the solver interface ---------- *)
Theorem switch_solver_same : forall s e, exact s = e -> switch_solver e s = s.
Proof. intros s e H. unfold switch_solver. rewrite H, Bool.eqb_reflx. reflexivity. Qed.

(* the problem is rebuilt by names; under the invariant nothing is lost *)
Theorem switch_solver_effect : forall s e, Inv s ->
  let s' := switch_solver e s in
  exact s' = e /\
  (forall v, vin s' v = vin s v /\ vb s' v = vb s v /\ oc s' v = oc s v) /\
  (forall c, cin s' c = cin s c /\ cb s' c = cb s c) /\
  (forall c v, co s' c v = co s c v) /\
  odir s' = odir s /\ rin s' = rin s /\ rb s' = rb s /\ sto s' = sto s /\ min s' = min s /\ back s' = back s /\
  uv s' = uv s /\ uc s' = uc s /\ uct s' = uct s.
Proof.
  intros s e HI s'. unfold s', switch_solver. destruct (Bool.eqb (exact s) e) eqn:Ee.
  - apply Bool.eqb_prop in Ee. repeat split; try reflexivity. exact Ee.
  - unfold clone_problem. prj. repeat split; try reflexivity.
    + destruct (vin s v) eqn:Ev; [reflexivity|]. symmetry. apply F_vb0; assumption.
    + destruct (vin s v) eqn:Ev; [reflexivity|]. symmetry. apply (I_oc_abs s HI), Ev.
    + destruct (cin s c) eqn:Ec; [reflexivity|]. symmetry. apply F_cb0; assumption.
    + intros c v. destruct (cin s c) eqn:Ec; cbn [andb]; [destruct (vin s v) eqn:Ev; [reflexivity|]|]; symmetry.
      * apply F_co0v; assumption.
      * apply F_co0c; assumption.
Qed.

(* ---------- user variables and constraints ---------- *)
Theorem add_user_var_effect : forall k lb ub s,
  let s' := add_user_var k (lb, ub) s in
  vin s' (VU k) = true /\ vb s' (VU k) = (lb, ub) /\ uv s' k = Some (lb, ub) /\
  (forall v, v <> VU k -> vin s' v = vin s v /\ vb s' v = vb s v) /\
  (forall k', k' <> k -> uv s' k' = uv s k') /\
  oc s' = oc s /\ cin s' = cin s /\ cb s' = cb s /\ co s' = co s /\ odir s' = odir s /\ exact s' = exact s /\
  rin s' = rin s /\ rb s' = rb s /\ sto s' = sto s /\ min s' = min s /\ back s' = back s /\
  uc s' = uc s /\ uct s' = uct s.
Proof.
  intros k lb ub s s'. unfold s', add_user_var. prj. unfold updv, updz. rewrite vname_eqb_refl, Z.eqb_refl. fin.
Qed.

Theorem add_user_cons_effect : forall k lb ub t s,
  let s' := add_user_cons k (lb, ub) t s in
  cin s' (CU k) = true /\ cb s' (CU k) = (lb, ub) /\ (forall v, co s' (CU k) v = tfun t v) /\
  uc s' k = Some (lb, ub) /\ (forall v, uct s' k v = tfun t v) /\
  (forall c, c <> CU k -> cin s' c = cin s c /\ cb s' c = cb s c /\ forall v, co s' c v = co s c v) /\
  (forall k', k' <> k -> uc s' k' = uc s k' /\ forall v, uct s' k' v = uct s k' v) /\
  vin s' = vin s /\ vb s' = vb s /\ oc s' = oc s /\ odir s' = odir s /\ exact s' = exact s /\
  rin s' = rin s /\ rb s' = rb s /\ sto s' = sto s /\ min s' = min s /\ back s' = back s /\ uv s' = uv s.
Proof.
  intros k lb ub t s s'. unfold s', add_user_cons. prj. unfold updc, updz. rewrite cname_eqb_refl, Z.eqb_refl. fin.
Qed.

(* the variable leaves the problem: every row and the objective, hence every user constraint, forget it *)
Theorem remove_user_var_effect : forall k s,
  let s' := remove_user_var k s in
  vin s' (VU k) = false /\ vb s' (VU k) = free /\ oc s' (VU k) = 0 /\ uv s' k = None /\
  (forall c, co s' c (VU k) = 0) /\ (forall k', uct s' k' (VU k) = 0) /\
  (forall v, v <> VU k -> vin s' v = vin s v /\ vb s' v = vb s v /\ oc s' v = oc s v /\
                          (forall c, co s' c v = co s c v) /\ (forall k', uct s' k' v = uct s k' v)) /\
  (forall k', k' <> k -> uv s' k' = uv s k') /\
  cin s' = cin s /\ cb s' = cb s /\ odir s' = odir s /\ exact s' = exact s /\
  rin s' = rin s /\ rb s' = rb s /\ sto s' = sto s /\ min s' = min s /\ back s' = back s /\ uc s' = uc s.
Proof.
  intros k s s'. unfold s', remove_user_var. prj. unfold updv, updz. rewrite vname_eqb_refl, Z.eqb_refl. fin.
Qed.

Theorem remove_user_cons_effect : forall k s,
  let s' := remove_user_cons k s in
  cin s' (CU k) = false /\ cb s' (CU k) = free /\ (forall v, co s' (CU k) v = 0) /\
  uc s' k = None /\ (forall v, uct s' k v = 0) /\
  (forall c, c <> CU k -> cin s' c = cin s c /\ cb s' c = cb s c /\ forall v, co s' c v = co s c v) /\
  (forall k', k' <> k -> uc s' k' = uc s k' /\ forall v, uct s' k' v = uct s k' v) /\
  vin s' = vin s /\ vb s' = vb s /\ oc s' = oc s /\ odir s' = odir s /\ exact s' = exact s /\
  rin s' = rin s /\ rb s' = rb s /\ sto s' = sto s /\ min s' = min s /\ back s' = back s /\ uv s' = uv s.
Proof.
  intros k s s'. unfold s', remove_user_cons. prj. unfold updc, updz. rewrite cname_eqb_refl, Z.eqb_refl. fin.
Qed.

(* removal by name: LookupError and no change when there is no such item, otherwise the removal by object *)
Theorem remove_var_by_name_absent : forall k s, vin s (VU k) = false -> remove_var_by_name k s = (s, RaiseLookupError).
Proof. intros k s H. unfold remove_var_by_name. rewrite H. reflexivity. Qed.
Theorem remove_cons_by_name_absent : forall k s, cin s (CU k) = false -> remove_cons_by_name k s = (s, RaiseLookupError).
Proof. intros k s H. unfold remove_cons_by_name. rewrite H. reflexivity. Qed.
Theorem remove_var_by_name_present : forall k s, vin s (VU k) = true -> remove_var_by_name k s = (remove_user_var k s, Ok).
Proof. intros k s H. unfold remove_var_by_name. rewrite H. reflexivity. Qed.
Theorem remove_cons_by_name_present : forall k s, cin s (CU k) = true -> remove_cons_by_name k s = (remove_user_cons k s, Ok).
Proof. intros k s H. unfold remove_cons_by_name. rewrite H. reflexivity. Qed.
Theorem remove_by_name_absent : forall k s,
  (vin s (VU k) = false -> remove_var_by_name k s = (s, RaiseLookupError)) /\
  (cin s (CU k) = false -> remove_cons_by_name k s = (s, RaiseLookupError)).
Proof. intros k s. split; [apply remove_var_by_name_absent|apply remove_cons_by_name_absent]. Qed.
Theorem remove_by_name_present : forall k s,
  (vin s (VU k) = true -> step vfix s (RemoveVarByName k) = step vfix s (RemoveUserVar k)) /\
  (cin s (CU k) = true -> step vfix s (RemoveConsByName k) = step vfix s (RemoveUserCons k)).
Proof.
  intros k s. cbn [step]. split; intros H; [apply remove_var_by_name_present|apply remove_cons_by_name_present]; exact H.
Qed.

(* ---------- reactions ---------- *)
Theorem remove_rxn_absent : forall r s, rin s r = false -> remove_rxn r s = s.
Proof. intros r s H. unfold remove_rxn. rewrite H. reflexivity. Qed.

(* the reaction leaves with its two variables: every row -- also every user constraint -- and the objective forget
   them; nothing else moves (the metabolites stay: remove_orphans=False) *)
Theorem remove_rxn_effect : forall r s, rin s r = true ->
  let s' := remove_rxn r s in
  rin s' r = false /\ vin s' (VF r) = false /\ vin s' (VR r) = false /\
  vb s' (VF r) = free /\ vb s' (VR r) = free /\ oc s' (VF r) = 0 /\ oc s' (VR r) = 0 /\
  (forall c, co s' c (VF r) = 0 /\ co s' c (VR r) = 0) /\
  (forall k, uct s' k (VF r) = 0 /\ uct s' k (VR r) = 0) /\
  (forall m, back s' m r = false) /\
  (forall v, v <> VF r -> v <> VR r ->
     vin s' v = vin s v /\ vb s' v = vb s v /\ oc s' v = oc s v /\
     (forall c, co s' c v = co s c v) /\ (forall k, uct s' k v = uct s k v)) /\
  (forall r', r' <> r -> rin s' r' = rin s r' /\ forall m, back s' m r' = back s m r') /\
  rb s' = rb s /\ sto s' = sto s /\ min s' = min s /\ cin s' = cin s /\ cb s' = cb s /\
  uv s' = uv s /\ uc s' = uc s /\ odir s' = odir s /\ exact s' = exact s.
Proof.
  intros r s Hr s'. unfold s', remove_rxn. rewrite Hr. cbn [negb]. prj. unfold updv, updz.
  cbn [vname_eqb]. rewrite !Z.eqb_refl. cbn [orb].
  repeat split; intros; try reflexivity;
    try (destruct (vname_eqb_spec v (VF r)); [contradiction|]; destruct (vname_eqb_spec v (VR r)); [contradiction|];
         reflexivity);
    try (neq_z; reflexivity).
Qed.

(* Model.add_reactions for a new identifier: the user items, the objective and the other reactions are untouched *)
Theorem add_rxn_effect : forall r b l s, Inv s -> rin s r = false -> sto_okb l = true ->
  let s' := add_rxn r b l s in
  (* the reaction *)
  rin s' r = true /\ rb s' r = b /\ (forall m, sto s' r m = assz l m) /\
  vin s' (VF r) = true /\ vin s' (VR r) = true /\ vb s' (VF r) = fst (split b) /\ vb s' (VR r) = snd (split b) /\
  (forall m, co s' (CM m) (VF r) = assz l m /\ co s' (CM m) (VR r) = - assz l m) /\
  (forall m, min s' m = min s m || memz m (map fst l)) /\
  (forall m, back s' m r = memz m (map fst l)) /\
  (* the user items *)
  uv s' = uv s /\ uc s' = uc s /\ uct s' = uct s /\
  (forall k, vin s' (VU k) = vin s (VU k) /\ vb s' (VU k) = vb s (VU k)) /\
  (forall k, cin s' (CU k) = cin s (CU k) /\ cb s' (CU k) = cb s (CU k) /\ forall v, co s' (CU k) v = co s (CU k) v) /\
  (* the other reactions, the metabolites that were there *)
  (forall r', r' <> r -> rin s' r' = rin s r' /\ rb s' r' = rb s r' /\ (forall m, sto s' r' m = sto s r' m) /\
     vin s' (VF r') = vin s (VF r') /\ vin s' (VR r') = vin s (VR r') /\
     vb s' (VF r') = vb s (VF r') /\ vb s' (VR r') = vb s (VR r') /\
     (forall m, back s' m r' = back s m r') /\
     (forall m, co s' (CM m) (VF r') = co s (CM m) (VF r') /\ co s' (CM m) (VR r') = co s (CM m) (VR r'))) /\
  (forall m k, co s' (CM m) (VU k) = co s (CM m) (VU k)) /\
  (forall m, min s m = true -> cb s' (CM m) = cb s (CM m)) /\
  oc s' = oc s /\ odir s' = odir s /\ exact s' = exact s.
Proof.
  intros r b l s HI Hr Hl s'.
  destruct (add_rxn_spec r b l s HI Hr (sto_okb_nodup l Hl))
    as (Sr & Sb & Ss & So & Sd & Se & Suv & Suc & Suct & Sm & Sk & Sv & Svb & Sci & Scb & Sco).
  fold s' in Sr, Sb, Ss, So, Sd, Se, Suv, Suc, Suct, Sm, Sk, Sv, Svb, Sci, Scb, Sco.
  assert (Hback : forall m, back s m r = false).
  { intros m. destruct (back s m r) eqn:E; [|reflexivity]. pose proof (I_bk s HI _ _ E) as Hm.
    destruct (I_wf2 s HI _ _ Hm E). congruence. }
  assert (Hco0 : forall c, co s c (VF r) = 0 /\ co s c (VR r) = 0).
  { intros c. split; apply F_co0v; try exact HI; rewrite (I_vin s HI); exact Hr. }
  rewrite Sr, Sb, Ss, So, Sd, Se, Suv, Suc, Suct. unfold updz. rewrite !Z.eqb_refl.
  repeat split; try reflexivity.
  - rewrite Sv. cbn [vname_eqb]. rewrite Z.eqb_refl. reflexivity.
  - rewrite Sv. cbn [vname_eqb]. rewrite Z.eqb_refl. reflexivity.
  - rewrite Svb. cbn [vname_eqb]. rewrite Z.eqb_refl. reflexivity.
  - rewrite Svb. cbn [vname_eqb]. rewrite Z.eqb_refl. reflexivity.
  - rewrite Sco. cbn [vname_eqb]. rewrite Z.eqb_refl. destruct (mem_l l m) eqn:Em; [reflexivity|].
    rewrite (assz_notin _ _ Em). apply Hco0.
  - rewrite Sco. cbn [vname_eqb]. rewrite Z.eqb_refl. destruct (mem_l l m) eqn:Em; [reflexivity|].
    rewrite (assz_notin _ _ Em). apply Hco0.
  - intros m. apply Sm.
  - intros m. rewrite Sk, Hback, Z.eqb_refl, andb_true_r. reflexivity.
  - rewrite Sv. reflexivity.
  - rewrite Svb. reflexivity.
  - rewrite Sci. reflexivity.
  - rewrite Scb. reflexivity.
  - intros v. rewrite Sco. reflexivity.
  - apply Z.eqb_neq in H. rewrite H. reflexivity.
  - apply Z.eqb_neq in H. rewrite H. reflexivity.
  - intros m. apply Z.eqb_neq in H. rewrite H. reflexivity.
  - rewrite Sv. cbn [vname_eqb]. apply Z.eqb_neq in H. rewrite H. reflexivity.
  - rewrite Sv. cbn [vname_eqb]. apply Z.eqb_neq in H. rewrite H. reflexivity.
  - rewrite Svb. cbn [vname_eqb]. apply Z.eqb_neq in H. rewrite H. reflexivity.
  - rewrite Svb. cbn [vname_eqb]. apply Z.eqb_neq in H. rewrite H. reflexivity.
  - intros m. rewrite Sk. apply Z.eqb_neq in H. rewrite H, andb_false_r, orb_false_r. reflexivity.
  - rewrite Sco. cbn [vname_eqb]. apply Z.eqb_neq in H. rewrite H. destruct (mem_l l m); reflexivity.
  - rewrite Sco. cbn [vname_eqb]. apply Z.eqb_neq in H. rewrite H. destruct (mem_l l m); reflexivity.
  - intros m k. rewrite Sco. cbn [vname_eqb]. destruct (mem_l l m); reflexivity.
  - intros m Hm. rewrite Scb, Hm. reflexivity.
Qed.

(* reaction.bounds = (lb, ub) *)
Theorem set_bounds_effect : forall r lb ub s,
  (ub < lb -> set_bounds r lb ub s = (s, RaiseValueError)) /\
  (lb <= ub ->
   let s' := fst (set_bounds r lb ub s) in
   snd (set_bounds r lb ub s) = Ok /\ rb s' r = (lb, ub) /\
   (rin s r = true -> vb s' (VF r) = fst (split (lb, ub)) /\ vb s' (VR r) = snd (split (lb, ub))) /\
   (rin s r = false -> vb s' = vb s) /\
   (forall r', r' <> r -> rb s' r' = rb s r') /\
   (forall v, v <> VF r -> v <> VR r -> vb s' v = vb s v) /\
   rin s' = rin s /\ sto s' = sto s /\ min s' = min s /\ back s' = back s /\ vin s' = vin s /\ oc s' = oc s /\
   cin s' = cin s /\ cb s' = cb s /\ co s' = co s /\ odir s' = odir s /\ exact s' = exact s /\
   uv s' = uv s /\ uc s' = uc s /\ uct s' = uct s).
Proof.
  intros r lb ub s. unfold set_bounds. split; intros Hb.
  - apply Z.ltb_lt in Hb. rewrite Hb. reflexivity.
  - assert (E : ub <? lb = false) by (apply Z.ltb_ge; exact Hb). rewrite E.
    destruct (rin s r) eqn:Er; cbn [fst snd]; prj; unfold updv, updz; cbn [vname_eqb]; rewrite ?Z.eqb_refl;
      repeat split; intros; try reflexivity; try discriminate; try (neq_z; reflexivity).
    destruct (vname_eqb_spec v (VF r)); [contradiction|]; destruct (vname_eqb_spec v (VR r)); [contradiction|].
    reflexivity.
Qed.

(* model.objective = {reaction: coefficient}: the net flux of each listed reaction, nothing else *)
Lemma obj_of_coeff l : forall f, nodupb (map fst l) = true -> forall r,
  obj_of l f (VF r) = (if memz r (map fst l) then assz l r else f (VF r)) /\
  obj_of l f (VR r) = (if memz r (map fst l) then - assz l r else f (VR r)).
Proof.
  induction l as [|[r0 c] l IH]; intros f Hnd r; cbn [obj_of]; [split; reflexivity|].
  cbn [map fst nodupb] in Hnd. apply andb_true_iff in Hnd as [H1 H2]. apply negb_true_iff in H1.
  destruct (IH (updv (updv f (VF r0) c) (VR r0) (- c)) H2 r) as [A B]. rewrite A, B.
  assert (Em : memz r (map fst ((r0, c) :: l)) = (r0 =? r) || memz r (map fst l)) by reflexivity.
  rewrite Em. cbn [assz].
  destruct (Z.eqb_spec r0 r) as [->|N]; cbn [orb].
  - rewrite H1. unfold updv. cbn [vname_eqb]. rewrite Z.eqb_refl. split; reflexivity.
  - unfold updv. cbn [vname_eqb]. assert (E : r =? r0 = false) by (apply Z.eqb_neq; congruence). rewrite E.
    split; reflexivity.
Qed.

Theorem set_obj_effect : forall l s, nodupb (map fst l) = true ->
  let s' := set_obj l s in
  (forall r, oc s' (VF r) = assz l r /\ oc s' (VR r) = - assz l r) /\ (forall k, oc s' (VU k) = 0) /\
  odir s' = odir s /\ rin s' = rin s /\ rb s' = rb s /\ sto s' = sto s /\ min s' = min s /\ back s' = back s /\
  vin s' = vin s /\ vb s' = vb s /\ cin s' = cin s /\ cb s' = cb s /\ co s' = co s /\ exact s' = exact s /\
  uv s' = uv s /\ uc s' = uc s /\ uct s' = uct s.
Proof.
  intros l s Hnd s'. unfold s', set_obj. prj. repeat split; try reflexivity.
  - destruct (obj_of_coeff l (fun _ => 0) Hnd r) as [A _]. rewrite A.
    destruct (memz r (map fst l)) eqn:E; [reflexivity|]. symmetry. apply assz_notin, E.
  - destruct (obj_of_coeff l (fun _ => 0) Hnd r) as [_ B]. rewrite B.
    destruct (memz r (map fst l)) eqn:E; [reflexivity|]. rewrite (assz_notin l r E). reflexivity.
  - intros k. apply obj_of_user.
Qed.

Theorem set_dir_effect : forall d s,
  let s' := fst (step vfix s (SetDir d)) in
  odir s' = d /\ rin s' = rin s /\ rb s' = rb s /\ sto s' = sto s /\ min s' = min s /\ back s' = back s /\
  vin s' = vin s /\ vb s' = vb s /\ oc s' = oc s /\ cin s' = cin s /\ cb s' = cb s /\ co s' = co s /\
  exact s' = exact s /\ uv s' = uv s /\ uc s' = uc s /\ uct s' = uct s.
Proof. intros d s s'. unfold s'. cbn [step fst]. prj. repeat split; reflexivity. Qed.

(* ---------- Model.merge ---------- *)
Theorem merge_not_inplace : forall v s rm pfx mode, fst (step v s (Merge rm pfx mode false)) = s.
Proof. reflexivity. Qed.

Fixpoint lookup {A} (k : Z) (l : list (Z * A)) : option A :=
  match l with [] => None | (a, x) :: r => if a =? k then Some x else lookup k r end.
Fixpoint lookc (k : Z) (l : list (Z * bb * list (vname * Z))) : option (bb * list (vname * Z)) :=
  match l with [] => None | (a, b, t) :: r => if a =? k then Some (b, t) else lookc k r end.

Lemma lookup_notin {A} k (l : list (Z * A)) : memz k (map fst l) = false -> lookup k l = None.
Proof.
  induction l as [|[a x] l IH]; [reflexivity|]. unfold memz. cbn [map fst existsb lookup]. intros H.
  apply orb_false_iff in H as [H1 H2]. rewrite H1. apply IH, H2.
Qed.
Lemma lookc_notin k l : memz k (map ckey l) = false -> lookc k l = None.
Proof.
  induction l as [|[[a b] t] l IH]; [reflexivity|]. unfold memz. cbn [map ckey fst existsb lookc]. intros H.
  apply orb_false_iff in H as [H1 H2]. rewrite H1. apply IH, H2.
Qed.
Lemma lookup_filter {A} (f : Z -> bool) k (l : list (Z * A)) :
  lookup k (filter (fun x => f (fst x)) l) = if f k then lookup k l else None.
Proof.
  induction l as [|[a x] l IH]; cbn [filter lookup fst]; [destruct (f k); reflexivity|].
  destruct (Z.eqb_spec a k) as [->|N].
  - destruct (f k) eqn:E; cbn [lookup]; [rewrite Z.eqb_refl; reflexivity|exact IH].
  - apply Z.eqb_neq in N. destruct (f a); cbn [lookup]; [rewrite N|]; exact IH.
Qed.
Lemma lookc_filter (f : Z -> bool) k l :
  lookc k (filter (fun x => f (ckey x)) l) = if f k then lookc k l else None.
Proof.
  induction l as [|[[a b] t] l IH]; cbn [filter lookc ckey fst]; [destruct (f k); reflexivity|].
  destruct (Z.eqb_spec a k) as [->|N].
  - destruct (f k) eqn:E; cbn [lookc]; [rewrite Z.eqb_refl; reflexivity|exact IH].
  - apply Z.eqb_neq in N. destruct (f a); cbn [lookc]; [rewrite N|]; exact IH.
Qed.

(* the reaction loop *)
Lemma add_rxn_frame r b l s : Inv s -> sto_okb l = true ->
  let s' := add_rxn r b l s in
  oc s' = oc s /\ odir s' = odir s /\ exact s' = exact s /\ uv s' = uv s /\ uc s' = uc s /\ uct s' = uct s /\
  (forall r', rin s r' = true -> rb s' r' = rb s r' /\ sto s' r' = sto s r') /\
  (forall m, min s m = true -> min s' m = true).
Proof.
  intros HI Hl s'. unfold s'. destruct (rin s r) eqn:Er.
  - rewrite add_rxn_existing by exact Er. repeat split; trivial.
  - destruct (add_rxn_spec r b l s HI Er (sto_okb_nodup l Hl))
      as (Sr & Sb & Ss & So & Sd & Se & Suv & Suc & Suct & Sm & _).
    rewrite Sb, Ss, So, Sd, Se, Suv, Suc, Suct. unfold updz. repeat split; try reflexivity.
    + destruct (Z.eqb_spec r' r); [congruence|reflexivity].
    + destruct (Z.eqb_spec r' r); [congruence|reflexivity].
    + intros m Hm. rewrite Sm, Hm. reflexivity.
Qed.

Lemma add_rxns_frame : forall l s, Inv s -> forallb (fun x => sto_okb (rr_sto x)) l = true ->
  let s' := add_rxns l s in
  oc s' = oc s /\ odir s' = odir s /\ exact s' = exact s /\ uv s' = uv s /\ uc s' = uc s /\ uct s' = uct s /\
  (forall r', rin s r' = true -> rb s' r' = rb s r' /\ sto s' r' = sto s r') /\
  (forall m, min s m = true -> min s' m = true).
Proof.
  induction l as [|x l IH]; intros s HI Hl; cbn [add_rxns fold_left]; [repeat split; trivial|].
  cbn [forallb] in Hl. apply andb_true_iff in Hl as [H1 H2].
  fold (add_rxns l (add_rxn (rr_id x) (rr_b x) (rr_sto x) s)).
  destruct (add_rxn_frame (rr_id x) (rr_b x) (rr_sto x) s HI H1) as (A1 & A2 & A3 & A4 & A5 & A6 & A7 & A8).
  pose proof (add_rxn_Inv (rr_id x) (rr_b x) (rr_sto x) s HI H1) as HI1.
  destruct (IH _ HI1 H2) as (B1 & B2 & B3 & B4 & B5 & B6 & B7 & B8). cbv zeta in *.
  rewrite B1, B2, B3, B4, B5, B6, A1, A2, A3, A4, A5, A6. repeat split; try reflexivity.
  - destruct (A7 _ H) as [E1 _]. rewrite <- E1. apply B7.
    rewrite add_rxn_rin by assumption. rewrite H. reflexivity.
  - destruct (A7 _ H) as [_ E2]. rewrite <- E2. apply B7.
    rewrite add_rxn_rin by assumption. rewrite H. reflexivity.
  - intros m Hm. apply B8, A8, Hm.
Qed.

(* the user variables of `right` that are new by name *)
Definition add_user_vars (l : list (Z * bb)) (s : st) : st := fold_left (fun s x => add_user_var (fst x) (snd x) s) l s.
Lemma add_user_vars_frame : forall l s,
  add_user_vars l s = set_uv (set_vb (set_vin s (vin (add_user_vars l s))) (vb (add_user_vars l s))) (uv (add_user_vars l s)).
Proof.
  induction l as [|x l IH]; intros s; cbn [add_user_vars fold_left]; [destruct s; reflexivity|].
  fold (add_user_vars l (add_user_var (fst x) (snd x) s)). etransitivity; [apply IH|reflexivity].
Qed.
Lemma merge_vars_same l s :
  let s' := merge_vars l s in
  rin s' = rin s /\ rb s' = rb s /\ sto s' = sto s /\ min s' = min s /\ back s' = back s /\ oc s' = oc s /\
  cin s' = cin s /\ cb s' = cb s /\ co s' = co s /\ odir s' = odir s /\ exact s' = exact s /\
  uc s' = uc s /\ uct s' = uct s.
Proof.
  intros s'. unfold s', merge_vars. fold (add_user_vars (filter (fun x => negb (vin s (VU (fst x)))) l) s).
  rewrite add_user_vars_frame. prj. repeat split; reflexivity.
Qed.
Lemma add_user_vars_uv : forall l s, nodupb (map fst l) = true -> forall k,
  uv (add_user_vars l s) k = match lookup k l with Some b => Some b | None => uv s k end.
Proof.
  induction l as [|[a b] l IH]; intros s Hnd k; cbn [add_user_vars fold_left lookup]; [reflexivity|].
  cbn [map fst nodupb] in Hnd. apply andb_true_iff in Hnd as [H1 H2]. apply negb_true_iff in H1.
  fold (add_user_vars l (add_user_var (fst (a, b)) (snd (a, b)) s)). rewrite (IH _ H2). cbn [fst snd].
  unfold add_user_var. prj. unfold updz. destruct (Z.eqb_spec a k) as [->|N].
  - rewrite (lookup_notin _ _ H1), Z.eqb_refl. reflexivity.
  - assert (E : k =? a = false) by (apply Z.eqb_neq; congruence). rewrite E. reflexivity.
Qed.

(* ... and its user constraints *)
Definition add_user_conss (l : list (Z * bb * list (vname * Z))) (s : st) : st :=
  fold_left (fun s x => add_user_cons (ckey x) (snd (fst x)) (snd x) s) l s.
Lemma merge_cons_ok : forall l s, snd (merge_cons l s) = Ok -> fst (merge_cons l s) = add_user_conss l s.
Proof.
  induction l as [|[[k b] t] l IH]; intros s H; cbn [merge_cons add_user_conss fold_left] in *; [reflexivity|].
  destruct (forallb (fun x => vin s (fst x)) t); [|discriminate]. apply IH, H.
Qed.
Lemma add_user_conss_frame : forall l s,
  add_user_conss l s =
  set_uct (set_uc (set_co (set_cb (set_cin s (cin (add_user_conss l s))) (cb (add_user_conss l s)))
                          (co (add_user_conss l s))) (uc (add_user_conss l s))) (uct (add_user_conss l s)).
Proof.
  induction l as [|x l IH]; intros s; cbn [add_user_conss fold_left]; [destruct s; reflexivity|].
  fold (add_user_conss l (add_user_cons (ckey x) (snd (fst x)) (snd x) s)). etransitivity; [apply IH|reflexivity].
Qed.
Lemma add_user_conss_same l s :
  let s' := add_user_conss l s in
  rin s' = rin s /\ rb s' = rb s /\ sto s' = sto s /\ min s' = min s /\ back s' = back s /\ oc s' = oc s /\
  vin s' = vin s /\ vb s' = vb s /\ odir s' = odir s /\ exact s' = exact s /\ uv s' = uv s.
Proof. intros s'. unfold s'. rewrite add_user_conss_frame. prj. repeat split; reflexivity. Qed.
Lemma add_user_conss_uc : forall l s, nodupb (map ckey l) = true -> forall k,
  uc (add_user_conss l s) k = match lookc k l with Some bt => Some (fst bt) | None => uc s k end /\
  forall v, uct (add_user_conss l s) k v = match lookc k l with Some bt => tfun (snd bt) v | None => uct s k v end.
Proof.
  induction l as [|[[a b] t] l IH]; intros s Hnd k; cbn [add_user_conss fold_left lookc]; [split; reflexivity|].
  cbn [map nodupb] in Hnd. apply andb_true_iff in Hnd as [H1 H2]. apply negb_true_iff in H1. cbn [ckey fst snd] in *.
  fold (add_user_conss l (add_user_cons a b t s)). destruct (IH (add_user_cons a b t s) H2 k) as [E1 E2].
  rewrite E1. unfold add_user_cons in *. prj. unfold updz in *. destruct (Z.eqb_spec a k) as [->|N].
  - rewrite (lookc_notin _ _ H1) in *. rewrite Z.eqb_refl. split; [reflexivity|]. intros v. rewrite E2.
    prj. rewrite Z.eqb_refl. reflexivity.
  - assert (E : k =? a = false) by (apply Z.eqb_neq; congruence). rewrite E. split; [reflexivity|].
    intros v. rewrite E2. prj. rewrite E. reflexivity.
Qed.

Lemma merge_objective_same v rm mode s :
  let s' := merge_objective v rm mode s in
  rin s' = rin s /\ rb s' = rb s /\ sto s' = sto s /\ min s' = min s /\ back s' = back s /\
  vin s' = vin s /\ vb s' = vb s /\ cin s' = cin s /\ cb s' = cb s /\ co s' = co s /\ exact s' = exact s /\
  uv s' = uv s /\ uc s' = uc s /\ uct s' = uct s.
Proof.
  intros s'. unfold s', merge_objective. destruct (mode =? 1); [unfold set_obj; prj; repeat split; reflexivity|].
  destruct (mode =? 2); [|repeat split; reflexivity]. destruct (fx_sumdir v); prj; repeat split; reflexivity.
Qed.

(* The repaired merge, when it succeeds.
   (i)   the reactions of `right` join under their new identifiers unless the identifier exists; a reaction of the left
         model keeps its bounds and stoichiometry;
   (ii)  the metabolites of the left model stay;
   (iii) user items: those of the left model are unchanged ("assumed the same if they have the same name"), those of
         `right` with a new name join as they are;
   (iv)  the objective: left (mode 0), right (mode 1), sum (mode 2, direction of the left model);
   (v)   the interface is the left model's. *)
Theorem merge_effect : forall rm pfx mode s, Inv s -> rm_okb s rm pfx = true ->
  snd (merge_result vfix rm pfx mode s) = Ok ->
  let s' := fst (merge_result vfix rm pfx mode s) in
  (forall r, rin s' r = rin s r || memz r (map (new_id s pfx) (rm_rxns rm))) /\
  (forall r, rin s r = true -> rb s' r = rb s r /\ forall m, sto s' r m = sto s r m) /\
  (forall m, min s m = true -> min s' m = true) /\
  (forall k, uv s' k = match uv s k with Some b => Some b | None => lookup k (rm_uvars rm) end) /\
  (forall k, uc s' k = match uc s k with Some b => Some b | None => option_map fst (lookc k (rm_ucons rm)) end) /\
  (forall k v, uct s' k v = match uc s k with
                            | Some _ => uct s k v
                            | None => match lookc k (rm_ucons rm) with Some bt => tfun (snd bt) v | None => 0 end
                            end) /\
  (mode <> 1 -> mode <> 2 -> odir s' = odir s /\ forall n, oc s' n = oc s n) /\
  (mode = 1 -> odir s' = rm_dir rm /\ forall n, oc s' n = obj_of (rm_obj rm) (fun _ => 0) n) /\
  (mode = 2 -> odir s' = odir s /\ forall n, oc s' n = oc s n + obj_of (rm_obj rm) (fun _ => 0) n) /\
  exact s' = exact s.
Proof.
  intros rm pfx mode s HI Hok Hres. destruct (rm_okb_parts s rm pfx Hok) as (H1 & H2 & H3 & H4 & H5 & H6).
  rewrite merge_result_vfix in *. cbv zeta in *.
  pose proof (pruned_sto_ok s pfx rm H2) as Hp.
  set (s1 := add_rxns (pruned s pfx rm) s) in *.
  assert (I1 : Inv s1) by (apply add_rxns_Inv; assumption).
  destruct (add_rxns_frame (pruned s pfx rm) s HI Hp) as (A1 & A2 & A3 & A4 & A5 & A6 & A7 & A8). fold s1 in A1, A2, A3, A4, A5, A6, A7, A8.
  set (s2 := merge_vars (rm_uvars rm) s1) in *.
  assert (I2 : Inv s2) by (apply merge_vars_Inv; assumption).
  destruct (merge_vars_same (rm_uvars rm) s1) as (B1 & B2 & B3 & B4 & B5 & B6 & B7 & B8 & B9 & B10 & B11 & B12 & B13).
  fold s2 in B1, B2, B3, B4, B5, B6, B7, B8, B9, B10, B11, B12, B13.
  set (news := filter (fun x => negb (cin s2 (CU (ckey x)))) (rm_ucons rm)) in *.
  assert (Hc : snd (merge_cons news s2) = Ok) by (destruct (snd (merge_cons news s2)); cbn [snd] in Hres; congruence).
  rewrite Hc. cbn [fst]. rewrite (merge_cons_ok news s2 Hc).
  set (s4 := add_user_conss news s2).
  destruct (add_user_conss_same news s2) as (C1 & C2 & C3 & C4 & C5 & C6 & C7 & C8 & C9 & C10 & C11).
  fold s4 in C1, C2, C3, C4, C5, C6, C7, C8, C9, C10, C11.
  destruct (merge_objective_same vfix rm mode s4) as (D1 & D2 & D3 & D4 & D5 & D6 & D7 & D8 & D9 & D10 & D11 & D12 & D13 & D14).
  assert (Hnews : nodupb (map ckey news) = true) by (apply nodupb_map_filter, H4).
  assert (Hlk : forall k, lookc k news = if is_some (uc s k) then None else lookc k (rm_ucons rm)).
  { intros k. unfold news. pose proof (lookc_filter (fun k => negb (cin s2 (CU k))) k (rm_ucons rm)) as Hf.
    cbv beta in Hf. rewrite Hf, (F_cinU s2 I2), B12, A5. destruct (is_some (uc s k)); reflexivity. }
  rewrite D1, D2, D3, D4, D11, D12, D13, D14, C1, C2, C3, C4, C10, C11, B1, B2, B3, B4, B11, A3.
  repeat split.
  - intros r. unfold s1. rewrite add_rxns_rin by assumption. rewrite pruned_rin, renamed_ids. reflexivity.
  - apply A7, H.
  - intros m. destruct (A7 _ H) as [_ E]. rewrite E. reflexivity.
  - exact A8.
  - intros k. unfold s2, merge_vars. fold (add_user_vars (filter (fun x => negb (vin s1 (VU (fst x)))) (rm_uvars rm)) s1).
    rewrite add_user_vars_uv by (apply nodupb_map_filter, H3).
    pose proof (lookup_filter (fun k => negb (vin s1 (VU k))) k (rm_uvars rm)) as Hf. cbv beta in Hf.
    rewrite Hf, (F_vinU s1 I1), A4. destruct (uv s k); cbn [is_some negb]; [reflexivity|].
    destruct (lookup k (rm_uvars rm)); reflexivity.
  - intros k. destruct (add_user_conss_uc news s2 Hnews k) as [E _]. fold s4 in E. rewrite E, Hlk, B12, A5.
    destruct (uc s k); cbn [is_some]; [reflexivity|]. destruct (lookc k (rm_ucons rm)); reflexivity.
  - intros k v. destruct (add_user_conss_uc news s2 Hnews k) as [_ E]. fold s4 in E. rewrite E, Hlk, B13, A6.
    destruct (uc s k) eqn:Eu; cbn [is_some]; [reflexivity|]. destruct (lookc k (rm_ucons rm)); [reflexivity|].
    apply F_uct0'; assumption.
  - unfold merge_objective. apply Z.eqb_neq in H, H0. rewrite H, H0, C9, B10, A2. reflexivity.
  - intros n. unfold merge_objective. apply Z.eqb_neq in H, H0. rewrite H, H0, C6, B6, A1. reflexivity.
  - subst mode. reflexivity.
  - subst mode. reflexivity.
  - subst mode. cbn [merge_objective Z.eqb Pos.eqb vfix fx_sumdir]. prj. rewrite C9, B10, A2. reflexivity.
  - subst mode. cbn [merge_objective Z.eqb Pos.eqb vfix fx_sumdir]. prj. intros n. rewrite C6, B6, A1. reflexivity.
Qed.

(* at the solver: a user constraint and a user variable of the left model are in the merged problem as they were *)
Corollary merge_effect_left_user : forall rm pfx mode s, Inv s -> rm_okb s rm pfx = true ->
  snd (merge_result vfix rm pfx mode s) = Ok ->
  let s' := fst (merge_result vfix rm pfx mode s) in
  (forall k, cin s (CU k) = true -> cin s' (CU k) = true /\ cb s' (CU k) = cb s (CU k) /\
                                    forall v, co s' (CU k) v = co s (CU k) v) /\
  (forall k, vin s (VU k) = true -> vin s' (VU k) = true /\ vb s' (VU k) = vb s (VU k)).
Proof.
  intros rm pfx mode s HI Hok Hres s'.
  pose proof (merge_Inv rm pfx mode s HI Hok) as HI'. fold s' in HI'.
  destruct (merge_effect rm pfx mode s HI Hok Hres) as (_ & _ & _ & Euv & Euc & Euct & _). fold s' in Euv, Euc, Euct.
  split; intros k Hk.
  - rewrite (F_cinU s HI) in Hk. rewrite (F_cinU s' HI'), (I_cb s' HI'), (I_cb s HI). cbn [exp_cb]. rewrite Euc.
    destruct (uc s k) eqn:Eu; [|discriminate]. repeat split.
    intros v. rewrite (I_co s' HI'), (I_co s HI). cbn [exp_co]. rewrite Euct, Eu. reflexivity.
  - rewrite (F_vinU s HI) in Hk. rewrite (F_vinU s' HI'), (I_vb s' HI'), (I_vb s HI). cbn [exp_vb]. rewrite Euv.
    destruct (uv s k) eqn:Eu; [|discriminate]. split; reflexivity.
Qed.

(* the code as found: objective="sum" leaves the direction "max" whatever the left model's was (fx_sumdir = false);
   this does not break the invariant, it departs from `merge_effect` (mode 2) *)
Theorem merge_sumdir_as_found : forall b1 b2 rm s, odir (merge_objective (mkV b1 b2 false) rm 2 s) = true.
Proof. reflexivity. Qed.
