(* Non-vacuity: a concrete history that uses every operation of the kernel is inside the domain of the theorems
   (`ok_run`), so `run_Inv` applies to it; a few facts about its states, decided by computation. *)
From Coq Require Import ZArith List Bool Lia.
From Cobra.Extras Require Import Model Inv Proofs Ctx.
Import ListNotations.
Open Scope Z_scope.

(* `right` of the merge: R2 overlaps (becomes p_R2 = 1002), R5 is new; M2 is shared, M6 is new; the user variable x7
   has the name of one of the left model, the user constraint uc11 is new (over R5 and x7) *)
Definition right : rmodel :=
  mkRM [mkRR 2 (0, 7) [(2, -1); (6, 1)]; mkRR 5 (-3, 3) [(6, -1); (0, 2)]]
       [0; 2; 6]
       [(7, (Some 1, Some 2))]
       [(11, (Some 0, None), [(VF 5, 1); (VR 5, -1); (VU 7, 3)])]
       [(2, 1); (5, 1)] true.

(* up to the moment the reaction mentioned by the user constraints has been removed and added again *)
Definition ops1 : list op :=
  [ AddRxn 1 0 10 [(0, -1); (1, 1)];
    AddRxn 2 (-5) 5 [(1, -1); (2, 1)];
    AddRxn 1 0 99 [(3, 1)];                                        (* the identifier exists: ignored *)
    AddUserVar 7 (Some 0) (Some 4);
    AddUserVar 8 None (Some 1);
    AddUserVar 9 None None;
    AddUserCons 3 None (Some 8) [(VF 2, 1); (VR 2, -1); (VU 7, 2)];
    AddUserCons 4 (Some 0) (Some 0) [(VF 2, 5); (VF 1, 1); (VU 8, 1); (VU 7, 2); (VF 1, 1)];
    SetBounds 1 1 6;
    SetObj [(1, 1); (2, -1)];
    SetDir false;
    SwitchSolver true;
    RemoveRxn 2;
    AddRxn 2 (-5) 5 [(1, -1); (2, 1)] ].
Definition ops2 : list op :=
  [ RemoveConsByName 9;                                            (* absent: LookupError, nothing changes *)
    RemoveUserCons 3;
    RemoveVarByName 8;
    RemoveUserVar 9;
    Merge right true 2 true;
    SwitchSolver false ].
Definition ops : list op := ops1 ++ ops2.

Example history_nonvacuous : ok_run vfix (init false) ops.
Proof. vm_compute. repeat split. Qed.

Example history_Inv : Inv (run vfix ops (init false)).
Proof. apply run_Inv; [apply init_Inv|exact history_nonvacuous]. Qed.

Definition mid : st := run vfix ops1 (init false).
Definition fin : st := run vfix ops (init false).

(* the user constraints lost the terms over the removed reaction and do not get them back; the others stay *)
Example mid_facts :
  co mid (CU 3) (VF 2) = 0 /\ co mid (CU 3) (VR 2) = 0 /\ co mid (CU 3) (VU 7) = 2 /\
  co mid (CU 4) (VF 2) = 0 /\ co mid (CU 4) (VF 1) = 2 /\ uct mid 4 (VF 2) = 0 /\
  vin mid (VF 2) = true /\ vb mid (VF 2) = (Some 0, Some 5) /\ vb mid (VR 2) = (Some 0, Some 5) /\
  oc mid (VF 2) = 0 /\ oc mid (VF 1) = 1 /\ oc mid (VR 1) = -1 /\ odir mid = false /\ exact mid = true /\
  rb mid 1 = (1, 6) /\ vb mid (VF 1) = (Some 1, Some 6) /\ sto mid 1 3 = 0 /\ min mid 3 = false /\
  co mid (CM 1) (VF 2) = -1 /\ co mid (CM 1) (VR 2) = 1.
Proof. vm_compute. repeat split. Qed.

Example fin_facts :
  exact fin = false /\ odir fin = false /\
  rin fin 1002 = true /\ rin fin 5 = true /\ rb fin 1002 = (0, 7) /\ rb fin 2 = (-5, 5) /\
  sto fin 1002 6 = 1 /\ min fin 6 = true /\ back fin 6 1002 = true /\ back fin 2 1002 = true /\ back fin 2 2 = true /\
  co fin (CM 6) (VF 1002) = 1 /\ co fin (CM 6) (VR 5) = 1 /\ co fin (CM 0) (VF 5) = 2 /\
  co fin (CU 4) (VF 2) = 0 /\ co fin (CU 4) (VF 1) = 2 /\ co fin (CU 4) (VU 8) = 0 /\ co fin (CU 4) (VU 7) = 2 /\
  cin fin (CU 3) = false /\ vin fin (VU 8) = false /\ vin fin (VU 9) = false /\
  uv fin 7 = Some (Some 0, Some 4) /\ vb fin (VU 7) = (Some 0, Some 4) /\
  uc fin 11 = Some (Some 0, None) /\ co fin (CU 11) (VF 5) = 1 /\ co fin (CU 11) (VU 7) = 3 /\
  oc fin (VF 1) = 1 /\ oc fin (VF 2) = 1 /\ oc fin (VR 2) = -1 /\ oc fin (VF 5) = 1 /\ oc fin (VF 1002) = 0.
Proof. vm_compute. repeat split. Qed.

(* the two lookups by name: absent -> LookupError and the same state; the results of the history's steps *)
Example by_name_absent : snd (step vfix mid (RemoveConsByName 9)) = RaiseLookupError /\
  snd (step vfix mid (RemoveVarByName 8)) = Ok /\ snd (step vfix mid (RemoveVarByName 5)) = RaiseLookupError.
Proof. vm_compute. repeat split. Qed.

(* a user constraint of `right` over a variable the merged model does not have: KeyError *)
Example merge_keyerror :
  snd (merge_result vfix (mkRM [] [] [] [(12, free, [(VU 44, 1)])] [] true) false 0 mid) = RaiseKeyError.
Proof. vm_compute. reflexivity. Qed.

(* ---------- blocks ---------- *)
Definition c0 : cst := mkC mid [].
Definition inner : list cop :=
  [ Do (RemoveRxn 1); Enter; Do (AddUserVar 20 None None); Do (Merge right true 1 true); Exit;
    Do (SetBounds 2 0 1); Enter; Enter; Do (SwitchSolver false); Exit; Do (RemoveUserCons 4); Exit; Do (SetDir true) ].

Example block_nonvacuous :
  crun vfix (Enter :: inner ++ [Exit]) c0 = c0 /\
  (* ... and something did happen inside *)
  rin (cur (crun vfix (Enter :: inner) c0)) 1 = false /\ rin (cur c0) 1 = true /\
  odir (cur (crun vfix (Enter :: inner) c0)) = true /\ odir (cur c0) = false /\
  length (saved (crun vfix (Enter :: inner) c0)) = 1%nat.
Proof. split; [apply block_restores; reflexivity|]. vm_compute. repeat split. Qed.

Example block_CInv : CInv (crun vfix (Enter :: inner ++ [Exit]) c0).
Proof.
  apply crun_CInv.
  - split; [apply run_Inv; [apply init_Inv|]|constructor]. vm_compute. repeat split.
  - vm_compute. repeat split.
Qed.
