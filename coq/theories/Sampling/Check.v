(* Correspondence + monitor functions for C16 (vm_compute on what the harness observed).
   Nothing here is a theorem.  Codes: 1 model and implementation differ (step / validate
   differential); 2 a returned sample is not feasible (feasible_tol); 3 validate() disagrees with
   the independent check; 4 step returned a point outside the guard's bounds or off the equalities. *)
From Coq Require Import ZArith List Bool QArith Qabs.
From Cobra.Sampling Require Import Step.
Import ListNotations.
Open Scope Q_scope.

Definition letter_eqb (a b : letter) : bool :=
  match a, b with Lv, Lv | Ll, Ll | Lu, Lu | Le, Le => true | _, _ => false end.
Fixpoint list_eqb {A B} (eq : A -> B -> bool) (a : list A) (b : list B) : bool :=
  match a, b with
  | [], [] => true
  | x :: r, y :: s => eq x y && list_eqb eq r s
  | _, _ => false
  end.

(* flux-space network data; variable space is derived: variables are fwd, rev per reaction in order *)
Record net := mkNet {
  n_S : mat; n_lb : vec; n_ub : vec;                  (* finite reaction bounds *)
  n_extra : mat; n_elb : list ebound; n_eub : list ebound }.   (* user constraints over net fluxes *)

Definition expand_row (r : vec) : vec := flat_map (fun c => [c; - c]) r.
Definition var_lb (N : net) : list ebound :=
  flat_map (fun lu => let '(a, _, c, _) := var_bounds_of (fst lu) (snd lu) in [Some a; Some c]) (combine (n_lb N) (n_ub N)).
Definition var_ub (N : net) : list ebound :=
  flat_map (fun lu => let '(_, b, _, d) := var_bounds_of (fst lu) (snd lu) in [Some b; Some d]) (combine (n_lb N) (n_ub N)).
Definition zeros {A} (l : list A) : vec := map (fun _ => 0) l.

Inductive case :=
(* real samples: tol, network, variable space?, rows, validate() codes *)
| SampleCase (tol : Q) (N : net) (varspace : bool) (rows : list vec) (codes : list (list letter))
(* validate() differential on constructed rows *)
| ValidateCase (tol : Q) (N : net) (varspace : bool) (rows : list vec) (codes : list (list letter))
(* step differential: sampler, x, delta, theta, scripted retries, observed result, eps *)
| StepCase (Sm : sampler) (x delta : vec) (theta : Q) (retries : list (nat * Q)) (res : option vec) (eps : Q).

Definition Qmax (a b : Q) : Q := if Qle_bool a b then b else a.
Definition approx (eps a b : Q) : bool := Qle_bool (Qabs (a - b)) (eps * Qmax 1 (Qabs b)).

Definition feasible_row (tol : Q) (N : net) (varspace : bool) (v : vec) : bool :=
  if varspace then
    feasible_tol tol (map expand_row (n_S N)) (zeros (n_S N)) (var_lb N) (var_ub N)
                 (map expand_row (n_extra N)) (n_elb N) (n_eub N) v
  else
    feasible_tol tol (n_S N) (zeros (n_S N)) (map Some (n_lb N)) (map Some (n_ub N))
                 (n_extra N) (n_elb N) (n_eub N) v.

(* validate() as the (repaired) code computes it.  Flux space: S, metabolite right-hand sides and
   reaction bounds only (user constraints are ignored).  Variable space: prob.equalities / prob.b
   = metabolite rows + user constraints classified as equalities + unit rows of fixed non-zero
   variables; prob.inequalities = the remaining user constraints.                              *)
Definition model_validate (tol : Q) (N : net) (varspace : bool) (v : vec) : list letter :=
  if varspace then
    let '((em, eb), (im, il, iu)) := classify tol (map expand_row (n_extra N)) (n_elb N) (n_eub N) in
    let '(fm, fb) := fixed_nonzero_rows tol (var_lb N) (var_ub N) in
    validate_row tol tol (map expand_row (n_S N) ++ em ++ fm) (zeros (n_S N) ++ eb ++ fb)
                 (var_lb N) (var_ub N) im il iu v
  else
    validate_row tol tol (n_S N) (zeros (n_S N)) (map Some (n_lb N)) (map Some (n_ub N)) [] [] [] v.

Definition is_v (c : list letter) : bool := match c with [Lv] => true | _ => false end.

(* ill-conditioned step cases: some comparison of the guard is within rounding distance of its
   threshold somewhere on the path the model takes; such cases are skipped ("away from guard
   thresholds", DESIGN 4 C16)                                                                  *)
Fixpoint near_lower (tol m : Q) (bnd : list ebound) (p : vec) : bool :=
  match bnd, p with
  | b :: bs, v :: vs =>
      match b with Some q => Qle_bool (Qabs ((v - q) + tol)) (m * Qmax 1 (Qabs q)) | None => false end
      || near_lower tol m bs vs
  | _, _ => false
  end.
Fixpoint near_upper (tol m : Q) (bnd : list ebound) (p : vec) : bool :=
  match bnd, p with
  | b :: bs, v :: vs =>
      match b with Some q => Qle_bool (Qabs ((q - v) + tol)) (m * Qmax 1 (Qabs q)) | None => false end
      || near_upper tol m bs vs
  | _, _ => false
  end.

Definition near_here (Sm : sampler) (rng : Q * Q) (delta p : vec) : bool :=
  let P := s_prob Sm in let t := s_btol Sm in let m := 1 # 100000000000 in
  near_lower t m (p_vlb P) p || near_upper t m (p_vub P) p ||
  near_lower t m (p_ilb P) (mulv (p_ineq P) p) || near_upper t m (p_iub P) (mulv (p_ineq P) p) ||
  (let a := if Qle_bool (Qabs (fst rng)) (Qabs (snd rng)) then Qabs (snd rng) else Qabs (fst rng) in
   match qmax_list (map (fun d => Qabs (a * d)) delta) with
   | Some mm => Qle_bool (Qabs (mm - t)) (t * (1 # 1000000))
   | None => false end).

Fixpoint near_threshold (fuel : nat) (Sm : sampler) (x delta : vec) (theta : Q) (retries : list (nat * Q)) : bool :=
  let rng := alpha_range Sm x delta in
  let alpha := Qred (fst rng + theta * (snd rng - fst rng)) in
  let p := axpy alpha delta x in
  near_here Sm rng delta p ||
  (if negb (bounds_ok Sm p) || stuck Sm rng delta then
     match fuel, retries with
     | S fuel', (k, th) :: more =>
         match nth_error (s_warmup Sm) k with
         | Some w => near_threshold fuel' Sm (s_center Sm) (vsub w (s_center Sm)) th more
         | None => false end
     | _, _ => false end
   else false).

Fixpoint flags {A} (f : A -> bool) (l : list A) (i : nat) (code : nat) : list (nat * nat) :=
  match l with [] => [] | x :: r => (if f x then [] else [(i, code)]) ++ flags f r (S i) code end.

Definition check_case (c : case) : list (nat * nat) :=
  match c with
  | SampleCase tol N vs rows codes =>
      flags (feasible_row tol N vs) rows 0 2 ++
      (if Nat.eqb (length rows) (length codes) then [] else [(0%nat, 3%nat)]) ++
      flags (fun rc => Bool.eqb (is_v (snd rc)) (feasible_row tol N vs (fst rc))) (combine rows codes) 0 3 ++
      flags (fun rc => list_eqb letter_eqb (model_validate tol N vs (fst rc)) (snd rc)) (combine rows codes) 0 1
  | ValidateCase tol N vs rows codes =>
      (if Nat.eqb (length rows) (length codes) then [] else [(0%nat, 1%nat)]) ++
      flags (fun rc => list_eqb letter_eqb (model_validate tol N vs (fst rc)) (snd rc)) (combine rows codes) 0 1
  | StepCase Sm x delta theta retries res eps =>
      (* code 0 = skipped as ill-conditioned (counted by the harness, never a failure) *)
      if near_threshold 102 Sm x delta theta retries then [(0%nat, 0%nat)] else
      match step Sm x delta theta retries, res with
      | Some p, Some q =>
          (if list_eqb (fun a b => approx eps b a) p q then [] else [(0%nat, 1%nat)]) ++
          (* the guard's promise, with eps slack, on the implementation's own result *)
          (let S' := mkS (s_prob Sm) (s_ftol Sm) (s_btol Sm + eps) (s_center Sm) (s_warmup Sm) (s_thinning Sm) (s_nproj Sm) in
           if bounds_ok S' q then [] else [(0%nat, 4%nat)])
      | None, None => []
      | _, _ => [(0%nat, 1%nat)]
      end
  end.

Definition failing (cases : list (Z * case)) : list (Z * list (nat * nat)) :=
  filter (fun r => match snd r with [] => false | _ => true end)
         (map (fun c => (fst c, check_case (snd c))) cases).

