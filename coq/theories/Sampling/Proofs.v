(* Proofs about the sampling model (C16). *)
From Coq Require Import ZArith List Bool QArith Qabs Lia Lqa Setoid Morphisms.
From Cobra.Sampling Require Import Step.
Import ListNotations.
Open Scope Q_scope.

Lemma Qltb_iff a b : Qltb a b = true <-> a < b.
Proof.
  unfold Qltb. rewrite negb_true_iff. split; intro H.
  - apply Qnot_le_lt. intro Hle. apply Qle_bool_iff in Hle. congruence.
  - destruct (Qle_bool b a) eqn:E; auto. apply Qle_bool_iff in E. lra.
Qed.
Lemma Qltb_false a b : Qltb a b = false <-> b <= a.
Proof. unfold Qltb. rewrite negb_false_iff. apply Qle_bool_iff. Qed.
Lemma Qle_bool_false a b : Qle_bool a b = false <-> b < a.
Proof.
  split; intro H.
  - apply Qnot_le_lt. intro Hle. apply Qle_bool_iff in Hle. congruence.
  - destruct (Qle_bool a b) eqn:E; auto. apply Qle_bool_iff in E. lra.
Qed.
Ltac qb :=
  repeat match goal with
  | H : Qltb _ _ = true |- _ => apply Qltb_iff in H
  | H : Qltb _ _ = false |- _ => apply Qltb_false in H
  | H : Qle_bool _ _ = true |- _ => apply Qle_bool_iff in H
  | H : Qle_bool _ _ = false |- _ => apply Qle_bool_false in H
  end.

(* ------------------------------------------------------------------ linear algebra on lists *)
Lemma axpy_length a d x : length d = length x -> length (axpy a d x) = length x.
Proof. revert x. induction d; destruct x; cbn; intros; try discriminate; auto. Qed.
Lemma vsub_length a b : length a = length b -> length (vsub a b) = length b.
Proof. revert b. induction a; destruct b; cbn; intros; try discriminate; auto. Qed.
Lemma vadd_length a b : length a = length b -> length (vadd a b) = length b.
Proof. revert b. induction a; destruct b; cbn; intros; try discriminate; auto. Qed.
Lemma vscale_length a x : length (vscale a x) = length x.
Proof. apply map_length. Qed.

Lemma dot_axpy r a d x : length d = length x -> dot r (axpy a d x) == dot r x + a * dot r d.
Proof.
  revert d x. induction r as [|u r IH]; intros d x H; cbn [dot]; [ring|].
  destruct d as [|e d], x as [|y x]; cbn [dot axpy length] in *; try discriminate; [ring|].
  rewrite !Qred_correct. rewrite IH by lia. ring.
Qed.

Lemma dot_vsub r a b : length a = length b -> dot r (vsub a b) == dot r a - dot r b.
Proof.
  revert a b. induction r as [|u r IH]; intros a b H; cbn [dot]; [ring|].
  destruct a as [|e a], b as [|y b]; cbn [dot vsub length] in *; try discriminate; [ring|].
  rewrite !Qred_correct. rewrite IH by lia. ring.
Qed.

Lemma dot_vadd r a b : length a = length b -> dot r (vadd a b) == dot r a + dot r b.
Proof.
  revert a b. induction r as [|u r IH]; intros a b H; cbn [dot]; [ring|].
  destruct a as [|e a], b as [|y b]; cbn [dot vadd length] in *; try discriminate; [ring|].
  rewrite !Qred_correct. rewrite IH by lia. ring.
Qed.

Lemma dot_vscale r a x : dot r (vscale a x) == a * dot r x.
Proof.
  unfold vscale. revert x. induction r as [|u r IH]; intros x; cbn [dot map]; [ring|].
  destruct x as [|y x]; cbn [dot map]; [ring|]. rewrite !Qred_correct. rewrite IH. ring.
Qed.

(* A x = b, row by row *)
Definition eq_holds (A : mat) (b : vec) (x : vec) : Prop := Forall2 (fun r bi => dot r x == bi) A b.
Definition dir_zero (A : mat) (d : vec) : Prop := Forall (fun r => dot r d == 0) A.

Lemma eq_axpy A b x d a : length d = length x -> eq_holds A b x -> dir_zero A d -> eq_holds A b (axpy a d x).
Proof.
  intros Hl Hx Hd. unfold eq_holds, dir_zero in *. induction Hx as [|r bi A b Hr Hx IH]; constructor.
  - inversion Hd; subst. rewrite dot_axpy by exact Hl. rewrite Hr. rewrite H1. ring.
  - apply IH. inversion Hd; auto.
Qed.

Lemma dir_zero_vsub A b w c : length w = length c -> eq_holds A b w -> eq_holds A b c -> dir_zero A (vsub w c).
Proof.
  intros Hl Hw Hc. unfold eq_holds, dir_zero in *. revert Hc. induction Hw as [|r bi A b Hr Hw IH]; intros Hc; constructor.
  - inversion Hc; subst. rewrite dot_vsub by exact Hl. rewrite Hr. rewrite H2. ring.
  - apply IH. inversion Hc; auto.
Qed.

(* affine combinations keep A x = b *)
Lemma eq_affine A b x y s t : length x = length y -> s + t == 1 ->
  eq_holds A b x -> eq_holds A b y -> eq_holds A b (vadd (vscale s x) (vscale t y)).
Proof.
  intros Hl Hst Hx Hy. unfold eq_holds in *. revert Hy. induction Hx as [|r bi A b Hr Hx IH]; intros Hy; constructor.
  - inversion Hy; subst. rewrite dot_vadd by (rewrite !vscale_length; exact Hl).
    rewrite !dot_vscale, Hr, H2. transitivity ((s + t) * bi); [ring|]. rewrite Hst. ring.
  - apply IH. inversion Hy; auto.
Qed.

Lemma eq_mean2 A b x y : length x = length y -> eq_holds A b x -> eq_holds A b y -> eq_holds A b (mean2 x y).
Proof.
  intros Hl Hx Hy. unfold eq_holds, mean2 in *. revert Hy. induction Hx as [|r bi A b Hr Hx IH]; intros Hy; constructor.
  - inversion Hy; subst. rewrite dot_vscale, dot_vadd by exact Hl. rewrite Hr, H2. field.
  - apply IH. inversion Hy; auto.
Qed.

(* ------------------------------------------------------------------ what the guard gives *)
Definition Within (tol : Q) (lo hi : ebound) (v : Q) : Prop :=
  (forall q, lo = Some q -> q - tol <= v) /\ (forall q, hi = Some q -> v <= q + tol).

(* positionwise; lists of different length are cut at the shorter one, as numpy would refuse them *)
Fixpoint LowerOK (tol : Q) (bnd : list ebound) (p : vec) : Prop :=
  match bnd, p with
  | b :: bs, v :: vs => (forall q, b = Some q -> q - tol <= v) /\ LowerOK tol bs vs
  | _, _ => True
  end.
Fixpoint UpperOK (tol : Q) (bnd : list ebound) (p : vec) : Prop :=
  match bnd, p with
  | b :: bs, v :: vs => (forall q, b = Some q -> v <= q + tol) /\ UpperOK tol bs vs
  | _, _ => True
  end.

Lemma lower_ok_sound tol bnd p : lower_ok tol bnd p = true -> LowerOK tol bnd p.
Proof.
  revert p. induction bnd as [|b bs IH]; intros p H; cbn; auto.
  destruct p as [|v vs]; cbn in *; auto. apply andb_true_iff in H. destruct H as [H1 H2]. split; auto.
  intros q ->. qb. lra.
Qed.
Lemma upper_ok_sound tol bnd p : upper_ok tol bnd p = true -> UpperOK tol bnd p.
Proof.
  revert p. induction bnd as [|b bs IH]; intros p H; cbn; auto.
  destruct p as [|v vs]; cbn in *; auto. apply andb_true_iff in H. destruct H as [H1 H2]. split; auto.
  intros q ->. qb. lra.
Qed.

(* all variable bounds and all inequality rows hold within bounds_tol *)
Definition InBounds (S : sampler) (p : vec) : Prop :=
  let P := s_prob S in let t := s_btol S in
  LowerOK t (p_vlb P) p /\ UpperOK t (p_vub P) p /\
  LowerOK t (p_ilb P) (mulv (p_ineq P) p) /\ UpperOK t (p_iub P) (mulv (p_ineq P) p).

Lemma bounds_ok_sound S p : bounds_ok S p = true -> InBounds S p.
Proof.
  unfold bounds_ok, InBounds. rewrite !andb_true_iff. intros [[[A B] C] D].
  repeat split; [apply lower_ok_sound | apply upper_ok_sound | apply lower_ok_sound | apply upper_ok_sound]; assumption.
Qed.

(* ------------------------------------------------------------------ step *)
Section StepFacts.
  Variable S : sampler.
  Let A := p_eq (s_prob S).
  Let b := p_b (s_prob S).
  Hypothesis center_eq : eq_holds A b (s_center S).
  Hypothesis warm_eq : forall w, In w (s_warmup S) -> eq_holds A b w /\ length w = length (s_center S).

  Lemma step_from_feasible fuel x delta theta retries p :
    length delta = length x -> eq_holds A b x -> dir_zero A delta ->
    step_from fuel S x delta theta retries = Some p ->
    eq_holds A b p /\ InBounds S p /\ bounds_ok S p = true.
  Proof.
    revert x delta theta retries. induction fuel as [|fuel IH]; intros x delta theta retries Hl Hx Hd H.
    - cbn in H.
      destruct (negb (bounds_ok S _) || stuck S _ delta) eqn:G; [discriminate|].
      inversion H; subst. apply orb_false_iff in G. destruct G as [G _]. apply negb_false_iff in G.
      split; [apply eq_axpy; assumption|]. split; [apply bounds_ok_sound|]; exact G.
    - cbn in H.
      destruct (negb (bounds_ok S _) || stuck S _ delta) eqn:G.
      + destruct retries as [|[k th] more]; [discriminate|].
        destruct (nth_error (s_warmup S) k) as [w|] eqn:Ew; [|discriminate].
        apply nth_error_In in Ew. destruct (warm_eq w Ew) as [Hw Hlw].
        apply (IH _ _ _ _ (vsub_length _ _ Hlw) center_eq (dir_zero_vsub A b w _ Hlw Hw center_eq) H).
      + inversion H; subst. apply orb_false_iff in G. destruct G as [G _]. apply negb_false_iff in G.
        split; [apply eq_axpy; assumption|]. split; [apply bounds_ok_sound|]; exact G.
  Qed.
End StepFacts.

(* ------------------------------------------------------------------ chain *)
Definition with_center (S : sampler) (c : vec) : sampler :=
  mkS (s_prob S) (s_ftol S) (s_btol S) c (s_warmup S) (s_thinning S) (s_nproj S).

Definition from_warmup (S : sampler) (p : vec) : Prop :=
  exists a b, In a (s_warmup S) /\ In b (s_warmup S) /\ p = mean2 a b.

Definition Inv (S : sampler) (n : nat) (st : cstate) : Prop :=
  let A := p_eq (s_prob S) in let b := p_b (s_prob S) in
  eq_holds A b (c_prev st) /\ eq_holds A b (c_center st) /\
  length (c_prev st) = n /\ length (c_center st) = n /\ (0 <= c_n st)%Z.

Lemma mean2_length a b : length a = length b -> length (mean2 a b) = length b.
Proof. intros. unfold mean2. rewrite vscale_length. apply vadd_length. assumption. Qed.

Lemma reproject_ok S n p choice q :
  (forall w, In w (s_warmup S) -> eq_holds (p_eq (s_prob S)) (p_b (s_prob S)) w /\ length w = n) ->
  eq_holds (p_eq (s_prob S)) (p_b (s_prob S)) p -> length p = n ->
  reproject S p choice = Some q ->
  eq_holds (p_eq (s_prob S)) (p_b (s_prob S)) q /\ length q = n /\ (q = p \/ from_warmup S q).
Proof.
  intros Hw Hp Hl H. unfold reproject in H. destruct choice as [[i j]|].
  - destruct (nth_error (s_warmup S) i) as [a|] eqn:Ea; [|discriminate].
    destruct (nth_error (s_warmup S) j) as [c|] eqn:Ec; [|discriminate].
    inversion H; subst. apply nth_error_In in Ea, Ec.
    destruct (Hw a Ea) as [Ha La]. destruct (Hw c Ec) as [Hc Lc].
    split; [apply eq_mean2; congruence|]. split; [rewrite mean2_length; congruence|].
    right. exists a, c. auto.
  - inversion H; subst. auto.
Qed.

Lemma center_update_ok A b n c p : (0 <= n)%Z -> length c = length p ->
  eq_holds A b c -> eq_holds A b p -> eq_holds A b (center_update n c p) /\ length (center_update n c p) = length p.
Proof.
  intros Hn Hl Hc Hp. unfold center_update. split.
  - apply eq_affine; auto.
    assert (Hz : ~ inject_Z (n + 1) == 0).
    { intro E. unfold Qeq in E. cbn in E. lia. }
    rewrite inject_Z_plus. rewrite inject_Z_plus in Hz. field. exact Hz.
  - rewrite vadd_length; rewrite !vscale_length; auto.
Qed.

Lemma iteration_ok own S n st d st' :
  (forall w, In w (s_warmup S) -> eq_holds (p_eq (s_prob S)) (p_b (s_prob S)) w /\ length w = n) ->
  eq_holds (p_eq (s_prob S)) (p_b (s_prob S)) (s_center S) -> length (s_center S) = n ->
  Inv S n st -> iteration own S st d = Some st' ->
  Inv S n st' /\ (InBounds S (c_prev st') \/ from_warmup S (c_prev st')).
Proof.
  intros Hw Hc Hlc [Hp [Hcc [Lp [Lc Hn]]]] H. unfold iteration in H.
  destruct (nth_error (s_warmup S) (d_pi d)) as [w|] eqn:Ew; [|discriminate].
  apply nth_error_In in Ew. destruct (Hw w Ew) as [Hww Lw].
  set (S' := if own then _ else S) in H.
  destruct (step S' (c_prev st) (vsub w (c_center st)) (d_theta d) (d_retries d)) as [prev|] eqn:Es; [|discriminate].
  assert (Hstep : eq_holds (p_eq (s_prob S)) (p_b (s_prob S)) prev /\ InBounds S prev /\ length prev = n).
  { unfold step in Es.
    assert (PS : s_prob S' = s_prob S) by (subst S'; destruct own; reflexivity).
    assert (WS : s_warmup S' = s_warmup S) by (subst S'; destruct own; reflexivity).
    assert (BT : s_btol S' = s_btol S) by (subst S'; destruct own; reflexivity).
    assert (CS : eq_holds (p_eq (s_prob S')) (p_b (s_prob S')) (s_center S') /\ length (s_center S') = n).
    { rewrite PS. subst S'. destruct own; cbn; auto. }
    destruct CS as [CS1 CS2].
    pose proof (step_from_feasible S' CS1) as SF.
    assert (W' : forall w0, In w0 (s_warmup S') -> eq_holds (p_eq (s_prob S')) (p_b (s_prob S')) w0 /\
                                                   length w0 = length (s_center S')).
    { intros w0 H0. rewrite WS in H0. rewrite PS, CS2. auto. }
    specialize (SF W').
    assert (L1 : length (vsub w (c_center st)) = length (c_prev st)) by (rewrite vsub_length; congruence).
    rewrite PS in SF.
    assert (HD : dir_zero (p_eq (s_prob S)) (vsub w (c_center st))).
    { apply (dir_zero_vsub _ (p_b (s_prob S))); [congruence | exact Hww | exact Hcc]. }
    destruct (SF _ _ _ _ _ _ L1 Hp HD Es) as [E1 [E2 E3]]. split; [exact E1|]. split.
    - unfold InBounds in *. rewrite PS, BT in E2. exact E2.
    - (* length: the returned point is some axpy of vectors of length n *)
      clear E1 E2.
      assert (LL : forall fuel x delta theta retries p, length delta = length x -> length x = n ->
                 step_from fuel S' x delta theta retries = Some p -> length p = n).
      { induction fuel as [|fuel IHf]; intros x delta theta retries p Hl Hx Hs; cbn in Hs.
        - destruct (negb (bounds_ok S' _) || stuck S' _ delta); [discriminate|]. inversion Hs; subst.
          rewrite axpy_length; auto.
        - destruct (negb (bounds_ok S' _) || stuck S' _ delta).
          + destruct retries as [|[k th] more]; [discriminate|].
            destruct (nth_error (s_warmup S') k) as [w0|] eqn:E0; [|discriminate].
            apply nth_error_In in E0. destruct (W' w0 E0) as [_ L0].
            eapply IHf; [| |exact Hs]; [rewrite vsub_length; auto | congruence].
          + inversion Hs; subst. rewrite axpy_length; auto. }
      eapply LL; [| |exact Es]; congruence. }
  destruct Hstep as [Hprev [Bprev Lprev]].
  destruct (p_homogeneous (s_prob S) && ((c_n st * s_thinning S) mod s_nproj S =? 0)%Z).
  - destruct (reproject S prev (d_rp d)) as [prev'|] eqn:R1; [|discriminate].
    destruct (reproject S (c_center st) (d_rc d)) as [center'|] eqn:R2; [|discriminate].
    inversion H; subst st'; cbn.
    destruct (reproject_ok S n _ _ _ Hw Hprev Lprev R1) as [P1 [P2 P3]].
    destruct (reproject_ok S n _ _ _ Hw Hcc Lc R2) as [C1 [C2 _]].
    destruct (center_update_ok _ _ (c_n st) center' prev' Hn ltac:(congruence) C1 P1) as [U1 U2].
    split; [unfold Inv; cbn; repeat split; auto; try congruence; lia|].
    destruct P3 as [->|F]; auto.
  - inversion H; subst st'; cbn.
    destruct (center_update_ok _ _ (c_n st) (c_center st) prev Hn ltac:(congruence) Hcc Hprev) as [U1 U2].
    split; [unfold Inv; cbn; repeat split; auto; try congruence; lia|]. auto.
Qed.

Lemma chain_ok own S n ds : forall st l,
  (forall w, In w (s_warmup S) -> eq_holds (p_eq (s_prob S)) (p_b (s_prob S)) w /\ length w = n) ->
  eq_holds (p_eq (s_prob S)) (p_b (s_prob S)) (s_center S) -> length (s_center S) = n ->
  Inv S n st -> chain own S st ds = Some l ->
  Forall (fun st' => eq_holds (p_eq (s_prob S)) (p_b (s_prob S)) (c_prev st') /\
                     eq_holds (p_eq (s_prob S)) (p_b (s_prob S)) (c_center st') /\
                     (InBounds S (c_prev st') \/ from_warmup S (c_prev st'))) l.
Proof.
  induction ds as [|d ds IH]; intros st l Hw Hc Hl HI H; cbn in H.
  - inversion H; constructor.
  - destruct (iteration own S st d) as [st'|] eqn:E; [|discriminate].
    destruct (chain own S st' ds) as [l'|] eqn:E2; [|discriminate]. injection H as <-.
    destruct (iteration_ok own S n st d st' Hw Hc Hl HI E) as [I' B'].
    constructor; [|eapply IH; eauto].
    destruct I' as [A1 [A2 _]]. auto.
Qed.

(* ------------------------------------------------------------------ convexity: the mean of two
   points inside the (tolerance-widened) variable bounds is inside them                        *)
Lemma LowerOK_mean2 tol bnd a b : LowerOK tol bnd a -> LowerOK tol bnd b -> LowerOK tol bnd (mean2 a b).
Proof.
  revert a b. induction bnd as [|l bs IH]; intros a b Ha Hb; cbn; auto.
  destruct a as [|x a], b as [|y b]; cbn in *; auto.
  destruct Ha as [Ha1 Ha2], Hb as [Hb1 Hb2]. split; [|apply IH; auto].
  intros q E. specialize (Ha1 q E). specialize (Hb1 q E). lra.
Qed.
Lemma UpperOK_mean2 tol bnd a b : UpperOK tol bnd a -> UpperOK tol bnd b -> UpperOK tol bnd (mean2 a b).
Proof.
  revert a b. induction bnd as [|l bs IH]; intros a b Ha Hb; cbn; auto.
  destruct a as [|x a], b as [|y b]; cbn in *; auto.
  destruct Ha as [Ha1 Ha2], Hb as [Hb1 Hb2]. split; [|apply IH; auto].
  intros q E. specialize (Ha1 q E). specialize (Hb1 q E). lra.
Qed.

(* ------------------------------------------------------------------ validate *)
Lemma validate_code_v ftol btol feas l u :
  validate_code ftol btol feas l u = [Lv] <-> (feas < ftol /\ - btol < l /\ - btol < u).
Proof.
  unfold validate_code.
  destruct (Qltb feas ftol) eqn:A; destruct (Qltb (- btol) l) eqn:B; destruct (Qltb (- btol) u) eqn:C;
  destruct (Qle_bool l (- btol)) eqn:D; destruct (Qle_bool u (- btol)) eqn:E; destruct (Qltb ftol feas) eqn:F;
  cbn; qb; split; intro H; try discriminate; try reflexivity; try lra; try (destruct H as [? [? ?]]; lra);
  try (repeat split; lra).
Qed.

Lemma validate_code_letters ftol btol feas l u :
  (In Ll (validate_code ftol btol feas l u) <-> l <= - btol) /\
  (In Lu (validate_code ftol btol feas l u) <-> u <= - btol) /\
  (In Le (validate_code ftol btol feas l u) <-> ftol < feas).
Proof.
  unfold validate_code.
  destruct (Qltb feas ftol && Qltb (- btol) l && Qltb (- btol) u);
  destruct (Qle_bool l (- btol)) eqn:D; destruct (Qle_bool u (- btol)) eqn:E; destruct (Qltb ftol feas) eqn:F;
  cbn; qb; repeat split; intro H; try lra; auto;
  repeat (destruct H as [H|H]; try discriminate H); try contradiction; try lra.
Qed.

(* ------------------------------------------------------------------ forward/reverse variables *)
Lemma flux_of_vars_in_bounds lb ub f r t :
  lb <= ub -> 0 <= t ->
  let '(flb, fub, rlb, rub) := var_bounds_of lb ub in
  flb - t <= f <= fub + t -> rlb - t <= r <= rub + t ->
  lb - 2 * t <= f - r <= ub + 2 * t.
Proof.
  intros Hlu Ht. unfold var_bounds_of.
  destruct (Qltb 0 lb) eqn:A; [|destruct (Qltb ub 0) eqn:B]; qb; intros; lra.
Qed.

Lemma var_bounds_nonneg lb ub : lb <= ub ->
  let '(flb, fub, rlb, rub) := var_bounds_of lb ub in 0 <= flb <= fub /\ 0 <= rlb <= rub.
Proof.
  intros Hlu. unfold var_bounds_of.
  destruct (Qltb 0 lb) eqn:A; [|destruct (Qltb ub 0) eqn:B]; qb; lra.
Qed.

(* ------------------------------------------------------------------ the independent checker *)
Fixpoint AllClose (tol : Q) (a b : vec) : Prop :=
  match a, b with
  | x :: r, y :: s => Qabs (x - y) <= tol /\ AllClose tol r s
  | [], [] => True
  | _, _ => False
  end.
Fixpoint AllWithin (tol : Q) (lo hi : list ebound) (v : vec) : Prop :=
  match lo, hi, v with
  | l :: ls, h :: hs, x :: xs => Within tol l h x /\ AllWithin tol ls hs xs
  | [], [], [] => True
  | _, _, _ => False
  end.

Lemma all_close_sound tol a b : all_close tol a b = true -> AllClose tol a b.
Proof.
  revert b. induction a as [|x a IH]; destruct b as [|y b]; cbn; intros H; try discriminate; auto.
  apply andb_true_iff in H. destruct H as [H1 H2]. qb. auto.
Qed.
Lemma all_within_sound tol lo hi v : all_within tol lo hi v = true -> AllWithin tol lo hi v.
Proof.
  revert hi v. induction lo as [|l lo IH]; destruct hi as [|h hi]; destruct v as [|x v]; cbn; intros H;
    try discriminate; auto.
  apply andb_true_iff in H. destruct H as [H1 H2]. split; auto.
  unfold within in H1. apply andb_true_iff in H1. destruct H1 as [A B]. split; intros q ->; qb; lra.
Qed.

Lemma feasible_tol_sound tol Smat b lb ub extra elb eub v :
  feasible_tol tol Smat b lb ub extra elb eub v = true ->
  Forall (fun r => length r = length v) Smat /\ Forall (fun r => length r = length v) extra /\
  AllClose tol (mulv Smat v) b /\ AllWithin tol lb ub v /\ AllWithin tol elb eub (mulv extra v).
Proof.
  unfold feasible_tol. rewrite !andb_true_iff. intros [[[[A B] C] D] E].
  repeat split.
  - apply Forall_forall. intros r Hr. rewrite forallb_forall in A. apply Nat.eqb_eq. auto.
  - apply Forall_forall. intros r Hr. rewrite forallb_forall in B. apply Nat.eqb_eq. auto.
  - apply all_close_sound; auto.
  - apply all_within_sound; auto.
  - apply all_within_sound; auto.
Qed.
