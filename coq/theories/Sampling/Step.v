(* Executable model over Q of cobra.sampling.core.step, HRSampler._bounds_dist,
   HRSampler.validate, the fwd_idx/rev_idx projection and the chain iteration shared by
   ACHRSampler / OptGPSampler.  Randomness (numpy RNG) and the SVD null space are not modelled:
   every random draw is an argument.  Nothing in this file is a theorem.                     *)
From Coq Require Import ZArith List Bool QArith Qabs.
Import ListNotations.
Open Scope Q_scope.

Definition vec := list Q.
Definition mat := list vec.            (* rows *)
Definition ebound := option Q.         (* None = infinite (np.inf / -np.inf) *)

Definition Qltb (a b : Q) : bool := negb (Qle_bool b a).

(* Qred only normalises the representation (Qred q == q); it keeps vm_compute fast on doubles *)
Fixpoint dot (a b : vec) : Q :=
  match a, b with x :: r, y :: s => Qred (x * y + dot r s) | _, _ => 0 end.
Definition mulv (m : mat) (x : vec) : vec := map (fun r => dot r x) m.
Fixpoint axpy (a : Q) (d x : vec) : vec :=       (* x + a * d *)
  match d, x with u :: r, v :: s => (v + a * u) :: axpy a r s | _, _ => [] end.
Fixpoint vsub (a b : vec) : vec :=
  match a, b with x :: r, y :: s => (x - y) :: vsub r s | _, _ => [] end.
Definition vscale (a : Q) (x : vec) : vec := map (fun v => a * v) x.
Fixpoint vadd (a b : vec) : vec :=
  match a, b with x :: r, y :: s => (x + y) :: vadd r s | _, _ => [] end.

Record problem := mkProb {
  p_eq : mat; p_b : vec;                       (* equalities . vars = b *)
  p_ineq : mat; p_ilb : list ebound; p_iub : list ebound;   (* bounds[0,] <= inequalities . vars <= bounds[1,] *)
  p_fixed : list bool;                         (* variable_fixed *)
  p_vlb : list ebound; p_vub : list ebound;    (* variable_bounds[0,], [1,] *)
  p_homogeneous : bool }.

Record sampler := mkS {
  s_prob : problem; s_ftol : Q; s_btol : Q;    (* feasibility_tol, bounds_tol *)
  s_center : vec; s_warmup : list vec;
  s_thinning : Z; s_nproj : Z }.

Definition MAX_TRIES : nat := 100.

(* ---------------------------------------------------------------- alpha range *)
(* candidates ((1 - bounds_tol) * bound - at) / dir over the entries whose |dir| > feasibility_tol
   (and, for variables, which are not fixed); an infinite bound gives an infinite alpha that
   never wins the max of the negatives / min of the positives, so it is skipped                *)
Fixpoint alphas_of (btol ftol : Q) (bnd : list ebound) (at_ dir : vec) (skip : list bool) : list Q :=
  match bnd, at_, dir with
  | b :: bs, a :: as_, d :: ds =>
      let sk := match skip with s :: _ => s | [] => false end in
      let rest := alphas_of btol ftol bs as_ ds (tl skip) in
      if Qltb ftol (Qabs d) && negb sk then
        match b with Some q => Qred (((1 - btol) * q - a) / d) :: rest | None => rest end
      else rest
  | _, _, _ => []
  end.

Definition qmax_list (l : list Q) : option Q :=
  match l with [] => None | x :: r => Some (fold_left (fun m y => if Qle_bool m y then y else m) r x) end.
Definition qmin_list (l : list Q) : option Q :=
  match l with [] => None | x :: r => Some (fold_left (fun m y => if Qle_bool y m then y else m) r x) end.

Definition all_alphas (S : sampler) (x delta : vec) : list Q :=
  let P := s_prob S in
  let bt := s_btol S in let ft := s_ftol S in
  let valphas := alphas_of bt ft (p_vlb P) x delta (p_fixed P) ++ alphas_of bt ft (p_vub P) x delta (p_fixed P) in
  match p_ineq P with
  | [] => valphas
  | _ => let ineqs := mulv (p_ineq P) delta in
         let mx := mulv (p_ineq P) x in
         valphas ++ alphas_of bt ft (p_ilb P) mx ineqs [] ++ alphas_of bt ft (p_iub P) mx ineqs []
  end.

Definition alpha_range (S : sampler) (x delta : vec) : Q * Q :=
  let al := all_alphas S x delta in
  let pos := filter (fun a => Qltb 0 a) al in
  let neg := filter (fun a => Qle_bool a 0) al in
  (match qmax_list neg with Some m => m | None => 0 end,
   match qmin_list pos with Some m => m | None => 0 end).

(* ---------------------------------------------------------------- _bounds_dist and the guard *)
(* every distance "p - lower" / "upper - p" is > -tol   (min(...) < -tol is the failure)  *)
Fixpoint lower_ok (tol : Q) (bnd : list ebound) (p : vec) : bool :=
  match bnd, p with
  | b :: bs, v :: vs => match b with Some q => Qle_bool (- tol) (v - q) | None => true end && lower_ok tol bs vs
  | _, _ => true
  end.
Fixpoint upper_ok (tol : Q) (bnd : list ebound) (p : vec) : bool :=
  match bnd, p with
  | b :: bs, v :: vs => match b with Some q => Qle_bool (- tol) (q - v) | None => true end && upper_ok tol bs vs
  | _, _ => true
  end.

(* not (np.any(_bounds_dist(p) < -bounds_tol)) *)
Definition bounds_ok (S : sampler) (p : vec) : bool :=
  let P := s_prob S in let t := s_btol S in
  lower_ok t (p_vlb P) p && upper_ok t (p_vub P) p &&
  lower_ok t (p_ilb P) (mulv (p_ineq P) p) && upper_ok t (p_iub P) (mulv (p_ineq P) p).

(* np.abs(np.abs(alpha_range).max() * delta).max() < bounds_tol *)
Definition stuck (S : sampler) (rng : Q * Q) (delta : vec) : bool :=
  let a := if Qle_bool (Qabs (fst rng)) (Qabs (snd rng)) then Qabs (snd rng) else Qabs (fst rng) in
  match qmax_list (map (fun d => Qabs (a * d)) delta) with
  | Some m => Qltb m (s_btol S)
  | None => true
  end.

(* ---------------------------------------------------------------- step *)
(* theta: position in the alpha range (the `fraction` argument, or the uniform draw);
   retries: for each retry the warm-up row drawn and its uniform draw.
   None = RuntimeError (tries > MAX_TRIES) or the scripted draws ran out.                    *)
Fixpoint step_from (fuel : nat) (S : sampler) (x delta : vec) (theta : Q) (retries : list (nat * Q)) : option vec :=
  let rng := alpha_range S x delta in
  let alpha := Qred (fst rng + theta * (snd rng - fst rng)) in
  let p := axpy alpha delta x in
  if negb (bounds_ok S p) || stuck S rng delta then
    match fuel, retries with
    | S fuel', (k, th) :: more =>
        match nth_error (s_warmup S) k with
        | Some w => step_from fuel' S (s_center S) (vsub w (s_center S)) th more
        | None => None
        end
    | _, _ => None
    end
  else Some p.

Definition step (S : sampler) (x delta : vec) (theta : Q) (retries : list (nat * Q)) : option vec :=
  step_from (Datatypes.S MAX_TRIES) S x delta theta retries.

(* ---------------------------------------------------------------- validate *)
Inductive letter := Lv | Ll | Lu | Le.

Definition vmin (l : list Q) : option Q := qmin_list l.

(* codes from the three numbers validate() computes per sample *)
Definition validate_code (ftol btol feas lb_err ub_err : Q) : list letter :=
  (if Qltb feas ftol && Qltb (- btol) lb_err && Qltb (- btol) ub_err then [Lv] else []) ++
  (if Qle_bool lb_err (- btol) then [Ll] else []) ++
  (if Qle_bool ub_err (- btol) then [Lu] else []) ++
  (if Qltb ftol feas then [Le] else []).

Definition feas_of (Smat : mat) (b : vec) (x : vec) : Q :=
  match qmax_list (map Qabs (vsub (mulv Smat x) b)) with Some m => m | None => 0 end.

Definition opt_min (a b : option Q) : option Q :=
  match a, b with
  | Some x, Some y => Some (if Qle_bool x y then x else y)
  | Some x, None => Some x | None, y => y end.

(* finite bounds only (validate is applied to finite-bound models); None bound = +infinite distance *)
Definition dists_lower (bnd : list ebound) (x : vec) : list Q :=
  flat_map (fun bx => match fst bx with Some q => [snd bx - q] | None => [] end) (combine bnd x).
Definition dists_upper (bnd : list ebound) (x : vec) : list Q :=
  flat_map (fun bx => match fst bx with Some q => [q - snd bx] | None => [] end) (combine bnd x).

(* flux space: S, b = metabolite constraint lower bounds, reaction bounds; variable space:
   equalities, b, variable bounds and (after fixes/sampling-validate-inequalities.patch)
   per sample the inequality rows                                                            *)
Definition validate_row (ftol btol : Q) (Smat : mat) (b : vec) (lb ub : list ebound)
                        (ineq : mat) (ilb iub : list ebound) (x : vec) : list letter :=
  let feas := feas_of Smat b x in
  let c := mulv ineq x in
  let lbe := opt_min (vmin (dists_lower lb x)) (vmin (dists_lower ilb c)) in
  let ube := opt_min (vmin (dists_upper ub x)) (vmin (dists_upper iub c)) in
  match lbe, ube with
  | Some l, Some u => validate_code ftol btol feas l u
  | _, _ => []          (* no finite bound at all: outside the model *)
  end.

(* ---------------------------------------------------------------- constraint_matrices / __build_problem *)
(* util.array.constraint_matrices: a constraint is an equality row when (ub - lb) < zero_tol, with
   right-hand side lb (0 when |lb| <= zero_tol); otherwise an inequality row with bounds [lb, ub].
   A variable is fixed when ub - lb < zero_tol.  HRSampler.__build_problem adds a unit equality row
   x_j = ub_j for every fixed variable with |ub_j| > feasibility_tol (zero_tol = feasibility_tol). *)
Definition is_equality (tol : Q) (lb ub : ebound) : bool :=
  match lb, ub with Some l, Some u => Qltb (u - l) tol | _, _ => false end.
Definition eq_rhs (tol : Q) (lb : ebound) : Q :=
  match lb with Some l => if Qltb tol (Qabs l) then l else 0 | None => 0 end.

Fixpoint classify (tol : Q) (rows : mat) (lbs ubs : list ebound)
  : (mat * vec) * (mat * list ebound * list ebound) :=
  match rows, lbs, ubs with
  | r :: rs, l :: ls, u :: us =>
      let '((em, eb), (im, il, iu)) := classify tol rs ls us in
      if is_equality tol l u then ((r :: em, eq_rhs tol l :: eb), (im, il, iu))
      else ((em, eb), (r :: im, l :: il, u :: iu))
  | _, _, _ => (([], []), ([], [], []))
  end.

Definition unit_row (n j : nat) : vec := map (fun i => if Nat.eqb i j then 1 else 0) (seq 0 n).

Definition fixed_nonzero_rows (tol : Q) (vlb vub : list ebound) : mat * vec :=
  let n := length vlb in
  fold_right (fun jlu acc =>
                let '(j, (l, u)) := jlu in
                match l, u with
                | Some lo, Some hi =>
                    if Qltb (hi - lo) tol && Qltb tol (Qabs hi)
                    then (unit_row n j :: fst acc, hi :: snd acc) else acc
                | _, _ => acc
                end)
             ([], []) (combine (seq 0 n) (combine vlb vub)).

(* ---------------------------------------------------------------- projection to fluxes *)
Definition flux_of_vars (fwd rev : list nat) (x : vec) : vec :=
  map (fun fr => nth (fst fr) x 0 - nth (snd fr) x 0) (combine fwd rev).

(* Reaction.update_variable_bounds for finite bounds: (fwd_lb, fwd_ub, rev_lb, rev_ub) *)
Definition var_bounds_of (lb ub : Q) : Q * Q * Q * Q :=
  if Qltb 0 lb then (lb, ub, 0, 0)
  else if Qltb ub 0 then (0, 0, - ub, - lb)
  else (0, ub, 0, - lb).

(* ---------------------------------------------------------------- chain iteration *)
Definition mean2 (a b : vec) : vec := vscale (1 # 2) (vadd a b).

(* _reproject: returns the point itself, or (when the re-projection changed it) the mean of two
   warm-up rows; which of the two happens depends on floating point and is an argument *)
Definition reproject (S : sampler) (p : vec) (choice : option (nat * nat)) : option vec :=
  match choice with
  | None => Some p
  | Some (i, j) => match nth_error (s_warmup S) i, nth_error (s_warmup S) j with
                   | Some a, Some b => Some (mean2 a b) | _, _ => None end
  end.

Record cstate := mkC { c_prev : vec; c_center : vec; c_n : Z }.
Record draw := mkD { d_pi : nat; d_theta : Q; d_retries : list (nat * Q);
                     d_rp : option (nat * nat); d_rc : option (nat * nat) }.

(* center = (n * center) / (n + 1) + prev / (n + 1) *)
Definition center_update (n : Z) (center prev : vec) : vec :=
  vadd (vscale (inject_Z n / inject_Z (n + 1)) center) (vscale (1 / inject_Z (n + 1)) prev).

(* one iteration of ACHRSampler.__single_iteration / of the loop of optgp._sample_chain; the
   sampler's own centre (used by a retry inside step) is the chain's current centre for ACHR and
   the sampler-wide one for OptGP -- `own` selects it                                         *)
Definition iteration (own : bool) (S : sampler) (st : cstate) (d : draw) : option cstate :=
  let S' := if own then mkS (s_prob S) (s_ftol S) (s_btol S) (c_center st) (s_warmup S) (s_thinning S) (s_nproj S)
            else S in
  match nth_error (s_warmup S) (d_pi d) with
  | None => None
  | Some w =>
      match step S' (c_prev st) (vsub w (c_center st)) (d_theta d) (d_retries d) with
      | None => None
      | Some prev =>
          let do_reproject := p_homogeneous (s_prob S) && (((c_n st * s_thinning S) mod s_nproj S) =? 0)%Z in
          match (if do_reproject then reproject S prev (d_rp d) else Some prev),
                (if do_reproject then reproject S (c_center st) (d_rc d) else Some (c_center st)) with
          | Some prev', Some center' =>
              Some (mkC prev' (center_update (c_n st) center' prev') (c_n st + 1))
          | _, _ => None
          end
      end
  end.

(* run a chain; returns every state visited (the samples are the c_prev of every thinning-th) *)
Fixpoint chain (own : bool) (S : sampler) (st : cstate) (ds : list draw) : option (list cstate) :=
  match ds with
  | [] => Some []
  | d :: r => match iteration own S st d with
              | None => None
              | Some st' => match chain own S st' r with Some l => Some (st' :: l) | None => None end
              end
  end.

(* ---------------------------------------------------------------- independent feasibility checker *)
(* S v = b within tol (|residual| <= tol), bounds within tol, extra rows lb - tol <= row.v <= ub + tol *)
Definition within (tol : Q) (lo hi : ebound) (v : Q) : bool :=
  match lo with Some l => Qle_bool (l - tol) v | None => true end &&
  match hi with Some h => Qle_bool v (h + tol) | None => true end.

Fixpoint all_within (tol : Q) (lo hi : list ebound) (v : vec) : bool :=
  match lo, hi, v with
  | l :: ls, h :: hs, x :: xs => within tol l h x && all_within tol ls hs xs
  | [], [], [] => true
  | _, _, _ => false
  end.

Fixpoint all_close (tol : Q) (a b : vec) : bool :=
  match a, b with
  | x :: r, y :: s => Qle_bool (Qabs (x - y)) tol && all_close tol r s
  | [], [] => true
  | _, _ => false
  end.

Definition feasible_tol (tol : Q) (Smat : mat) (b : vec) (lb ub : list ebound)
                        (extra : mat) (elb eub : list ebound) (v : vec) : bool :=
  forallb (fun r => Nat.eqb (length r) (length v)) Smat &&
  forallb (fun r => Nat.eqb (length r) (length v)) extra &&
  all_close tol (mulv Smat v) b && all_within tol lb ub v && all_within tol elb eub (mulv extra v).
