(* The common shape of the problems add_moma and add_room build: cobrapy's forward/reverse LP of the
   model, one extra variable w tied to the old objective expression by  objective - w = 0, and per
   reaction i one auxiliary variable a_i with two rows
        flux_i + k_up(i) * a_i  in  [lo_up(i), hi_up(i)]       flux_i + k_lo(i) * a_i  in  [lo_lo(i), hi_lo(i)]
   minimising the sum of the a_i.  Variable order: forward_0, reverse_0, ..., w, a_0, ..., a_{n-1}.
   This file characterises feasibility and the objective of that LP pointwise.                  *)
From Coq Require Import QArith List Bool Lia Lqa.
From Cobra.LP Require Import Defs Cert Fba.
From Cobra.Secondary Require Import Aux Pfba.
Import ListNotations.
Open Scope Q_scope.

Definition auxrow := (Q * ebound * ebound)%type.

Record auxspec := mkAux {
  ax_wb : ebound * ebound;            (* bounds of the old-objective variable *)
  ax_vb : list (ebound * ebound);     (* bounds of the auxiliary variables, one per reaction *)
  ax_up : nat -> auxrow;              (* the "upper" row of reaction i *)
  ax_lo : nat -> auxrow }.            (* the "lower" row of reaction i *)

Definition aux_coef (n i : nat) (k : Q) : vec := dup (unit n i) ++ 0 :: vscale k (unit n i).
Definition aux_row (n : nat) (f : nat -> auxrow) (i : nat) : row :=
  mkRow (aux_coef n i (fst (fst (f i)))) (snd (fst (f i))) (snd (f i)).
Definition w_row (m : fbamodel) : row := mkRow (dup (raw_obj m) ++ [-1]) (Fin 0) (Fin 0).

Definition aux_lp (m : fbamodel) (a : auxspec) : lp :=
  let n := length (rxns m) in
  mkLP (vbounds (split_lp m) ++ ax_wb a :: ax_vb a)
       (rows (split_lp m) ++ w_row m :: map (aux_row n (ax_up a)) (seq 0 n) ++ map (aux_row n (ax_lo a)) (seq 0 n))
       (map (fun _ => 0) (vbounds (split_lp m)) ++ 0 :: map (fun _ => -1) (ax_vb a)).

Definition aux_ok (r : auxrow) (v x : Q) : Prop := inb (snd (fst r), snd r) (v + fst (fst r) * x).

(* ---- helpers ---- *)
Lemma inb_iff b x y : x == y -> (inb b x <-> inb b y).
Proof. intros E. split; apply inb_proper; [exact E|symmetry; exact E]. Qed.

Lemma dot_dup_app2 a : forall zs b y, length a = length zs ->
  dot (dup a ++ b) (flat zs ++ y) == dot a (nets zs) + dot b y.
Proof.
  induction a as [|a0 a IH]; intros [|[f r] zs] b y H; cbn in H; try discriminate;
    cbn [dup dot flat app nets map fst snd]; [lra|].
  fold (nets zs). rewrite IH by lia. lra.
Qed.

Lemma dot_zeros {A} (l : list A) : forall x, dot (map (fun _ => 0) l) x == 0.
Proof. induction l as [|a l IH]; intros [|x0 x]; cbn [map dot]; try lra. rewrite IH. lra. Qed.

Lemma dot_negones {A} (l : list A) : forall x, length l = length x -> dot (map (fun _ => -1) l) x == - vsum x.
Proof.
  induction l as [|a l IH]; intros [|x0 x] H; cbn in H; try discriminate; cbn [map dot vsum]; [lra|].
  rewrite IH by lia. lra.
Qed.

Lemma flat_length zs : length (flat zs) = (2 * length zs)%nat.
Proof. induction zs as [|[f r] zs IH]; cbn [flat length]; lia. Qed.

Lemma flat_bounds_length bs : length (flat_bounds bs) = (2 * length bs)%nat.
Proof. induction bs as [|[f r] bs IH]; cbn [flat_bounds length]; lia. Qed.

Lemma split_vbounds_length m : length (vbounds (split_lp m)) = (2 * length (rxns m))%nat.
Proof. cbn. rewrite flat_bounds_length, map_length. reflexivity. Qed.

Lemma met_row_length rs i : length (met_row rs i) = length rs.
Proof. unfold met_row. apply map_length. Qed.

Lemma stoich_rows_ext m zs rest :
  length zs = length (rxns m) ->
  (Forall (row_ok (flat zs ++ rest)) (rows (split_lp m)) <-> Forall (row_ok (flat zs)) (rows (split_lp m))).
Proof.
  intros H. cbn [rows split_lp]. rewrite !Forall_map_seq.
  split; intros A i Hi; specialize (A i Hi); unfold row_ok, zero_row in *; cbn [r_coef r_lo r_hi] in *.
  - eapply inb_iff; [|exact A]. rewrite dot_dup_app by (rewrite met_row_length; lia). rewrite dot_dup. reflexivity.
  - eapply inb_iff; [|exact A]. rewrite dot_dup_app by (rewrite met_row_length; lia). rewrite dot_dup. reflexivity.
Qed.

Lemma w_row_ok m zs w aux :
  length zs = length (rxns m) ->
  (row_ok (flat zs ++ w :: aux) (w_row m) <-> w == dot (raw_obj m) (nets zs)).
Proof.
  intros H. unfold row_ok, w_row, inb. cbn [r_coef r_lo r_hi fst snd le_lo le_hi].
  rewrite dot_dup_app2 by (unfold raw_obj; rewrite map_length; lia). cbn [dot]. split; intros; lra.
Qed.

Lemma aux_row_ok n f i zs w aux :
  length zs = n -> length aux = n -> (i < n)%nat ->
  (row_ok (flat zs ++ w :: aux) (aux_row n f i) <-> aux_ok (f i) (nth i (nets zs) 0) (nth i aux 0)).
Proof.
  intros Hz Ha Hi. unfold row_ok, aux_row, aux_ok, aux_coef. cbn [r_coef r_lo r_hi].
  apply inb_iff. rewrite dot_dup_app2 by (rewrite unit_length; lia). cbn [dot].
  rewrite dot_vscale, !dot_unit by (try rewrite nets_length; lia). lra.
Qed.

(* ---- feasibility, pointwise ---- *)
Theorem aux_feasible_iff m a zs w aux :
  let n := length (rxns m) in
  length zs = n -> length (ax_vb a) = n ->
  (feasible (aux_lp m a) (flat zs ++ w :: aux) <->
   feasible (split_lp m) (flat zs) /\ inb (ax_wb a) w /\ w == dot (raw_obj m) (nets zs) /\
   Forall2 inb (ax_vb a) aux /\
   (forall i, (i < n)%nat -> aux_ok (ax_up a i) (nth i (nets zs) 0) (nth i aux 0)) /\
   (forall i, (i < n)%nat -> aux_ok (ax_lo a i) (nth i (nets zs) 0) (nth i aux 0))).
Proof.
  intros n Hz Hvb. unfold feasible, aux_lp. fold n. cbn [vbounds rows].
  assert (Hlen : length (vbounds (split_lp m)) = length (flat zs))
    by (rewrite split_vbounds_length, flat_length; fold n; lia).
  split.
  - intros [Hb Hr].
    apply Forall2_app_inv_len in Hb as [Hb1 Hb2]; [|exact Hlen].
    inversion Hb2 as [|? ? ? ? Hw Hb3]; subst.
    assert (Ha : length aux = n) by (apply Forall2_len in Hb3; lia).
    apply Forall_app in Hr as [Hr1 Hr2]. inversion Hr2 as [|? ? Hwr Hr3]; subst.
    apply Forall_app in Hr3 as [Hup Hlo].
    rewrite Forall_map_seq in Hup, Hlo.
    split; [split; [exact Hb1|apply (stoich_rows_ext m zs (w :: aux)); [lia|exact Hr1]]|].
    split; [exact Hw|]. split; [apply (w_row_ok m zs w aux); [lia|exact Hwr]|]. split; [exact Hb3|].
    split; intros i Hi; [specialize (Hup i Hi)|specialize (Hlo i Hi)]; eapply aux_row_ok; eauto.
  - intros [[Hb1 Hr1] [Hw [Hwe [Hb3 [Hup Hlo]]]]].
    assert (Ha : length aux = n) by (apply Forall2_len in Hb3; lia).
    split.
    + apply Forall2_app_len; [exact Hb1|]. constructor; assumption.
    + apply Forall_app. split; [apply (stoich_rows_ext m zs (w :: aux)); [lia|exact Hr1]|].
      constructor; [apply (w_row_ok m zs w aux); [lia|exact Hwe]|].
      apply Forall_app. split; apply Forall_map_seq; intros i Hi; eapply aux_row_ok; eauto.
Qed.

(* the objective is minus the sum of the auxiliary variables *)
Theorem aux_value m a zs w aux :
  length zs = length (rxns m) -> length (ax_vb a) = length aux ->
  value (aux_lp m a) (flat zs ++ w :: aux) == - vsum aux.
Proof.
  intros Hz Ha. unfold value, aux_lp. cbn [obj].
  rewrite dot_app by (rewrite map_length, split_vbounds_length, flat_length; lia).
  rewrite dot_zeros. cbn [dot]. rewrite dot_negones by exact Ha. lra.
Qed.

(* ---- sums over seq ---- *)
Lemma vsum_seq_nth a : vsum a == vsum (map (fun i => nth i a 0) (seq 0 (length a))).
Proof.
  induction a as [|x a IH]; cbn [length seq map vsum nth]; [reflexivity|].
  rewrite <- seq_shift, map_map. cbn [nth]. rewrite <- IH. reflexivity.
Qed.

Lemma vsum_map_le {A} (f g : A -> Q) l : (forall i, In i l -> f i <= g i) -> vsum (map f l) <= vsum (map g l).
Proof.
  induction l as [|i l IH]; intros H; cbn [map vsum]; [lra|].
  pose proof (H i (or_introl eq_refl)). assert (vsum (map f l) <= vsum (map g l)) by (apply IH; intros; apply H; right; assumption).
  lra.
Qed.

Lemma vsum_map_eq {A} (f g : A -> Q) l : (forall i, In i l -> f i == g i) -> vsum (map f l) == vsum (map g l).
Proof.
  intros H. apply Qle_antisym; apply vsum_map_le; intros i Hi; rewrite (H i Hi); lra.
Qed.

Lemma nth_map_seq {A} (f : nat -> A) (d : A) n i : (i < n)%nat -> nth i (map f (seq 0 n)) d = f i.
Proof. intros H. rewrite (nth_indep _ d (f 0%nat)) by (rewrite map_length, seq_length; exact H).
  rewrite map_nth. rewrite seq_nth by exact H. reflexivity. Qed.
