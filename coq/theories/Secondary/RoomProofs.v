(* ROOM: the mixed problem built by add_room is equivalent to minimising the number of reactions whose
   flux leaves the tolerance band; the linear variant solves the documented relaxation.           *)
From Coq Require Import QArith List Bool Lia Lqa.
From Cobra.LP Require Import Defs Cert Fba Milp.
From Cobra.Optimize Require Import Model.
From Cobra.Secondary Require Import Aux Pfba AuxLp Moma MomaProofs Room.
Import ListNotations.
Open Scope Q_scope.

Lemma room_rows_iff m ref wub delta eps i v y :
  (aux_ok (ax_up (room_aux m ref wub delta eps) i) v y /\ aux_ok (ax_lo (room_aux m ref wub delta eps) i) v y) <->
  (v - y * (fin (rx_ub (nth i (rxns m) dr)) - band_hi delta eps (nth i ref 0)) <= band_hi delta eps (nth i ref 0) /\
   band_lo delta eps (nth i ref 0) <= v - y * (fin (rx_lb (nth i (rxns m) dr)) - band_lo delta eps (nth i ref 0))).
Proof.
  unfold aux_ok, room_aux, inb. cbn [ax_up ax_lo fst snd le_lo le_hi]. split.
  - intros [[_ A] [B _]]. split; lra.
  - intros [A B]. repeat split; try exact I; lra.
Qed.

(* the big-M switch: y = 0 confines the flux to the band, y = 1 leaves exactly the reaction's own bounds *)
Theorem room_switch m ref wub delta eps i v :
  let lb := fin (rx_lb (nth i (rxns m) dr)) in let ub := fin (rx_ub (nth i (rxns m) dr)) in
  ((aux_ok (ax_up (room_aux m ref wub delta eps) i) v 0 /\ aux_ok (ax_lo (room_aux m ref wub delta eps) i) v 0) <->
   (band_lo delta eps (nth i ref 0) <= v <= band_hi delta eps (nth i ref 0))) /\
  ((aux_ok (ax_up (room_aux m ref wub delta eps) i) v 1 /\ aux_ok (ax_lo (room_aux m ref wub delta eps) i) v 1) <->
   (lb <= v <= ub)).
Proof. cbv zeta. rewrite !room_rows_iff. split; split; intros [A B]; split; lra. Qed.

Lemma in_band_b_ok delta eps ref i v :
  in_band_b delta eps ref i v = true <-> band_lo delta eps (nth i ref 0) <= v <= band_hi delta eps (nth i ref 0).
Proof. unfold in_band_b. rewrite andb_true_iff, !Qle_bool_iff. tauto. Qed.

Lemma in_band_b_proper delta eps ref i v v' : v == v' -> in_band_b delta eps ref i v = in_band_b delta eps ref i v'.
Proof.
  intros E. destruct (in_band_b delta eps ref i v) eqn:A, (in_band_b delta eps ref i v') eqn:B; try reflexivity.
  - apply in_band_b_ok in A. assert (in_band_b delta eps ref i v' = true) by (apply in_band_b_ok; lra). congruence.
  - apply in_band_b_ok in B. assert (in_band_b delta eps ref i v = true) by (apply in_band_b_ok; lra). congruence.
Qed.

Lemma bounds01 {A} (l : list A) : forall ys,
  Forall2 inb (map (fun _ => (Fin 0, Fin 1)) l) ys -> forall i, 0 <= nth i ys 0 <= 1.
Proof.
  induction l as [|a l IH]; intros ys H i; inversion H as [|b d bs ys' Hb H']; subst.
  - destruct i; cbn; lra.
  - destruct i as [|i]; cbn [nth]; [destruct Hb as [Hb1 Hb2]; cbn in *; lra|apply IH; exact H'].
Qed.

(* flux within the reaction's own (finite) bounds, pointwise *)
Lemma net_bounds_nth m v i :
  finite_model_b m = true -> feasible (net_lp m) v -> (i < length (rxns m))%nat ->
  fin (rx_lb (nth i (rxns m) dr)) <= nth i v 0 <= fin (rx_ub (nth i (rxns m) dr)).
Proof.
  intros Hfin [Hb _] Hi. cbn in Hb.
  destruct (Forall2_nth_inv inb (Fin 0, Fin 0) 0 _ _ Hb) as [Hl Hn].
  rewrite map_length in Hn. specialize (Hn i Hi).
  change (Fin 0, Fin 0) with ((fun r => (rx_lb r, rx_ub r)) dr) in Hn. rewrite map_nth in Hn.
  unfold finite_model_b in Hfin. rewrite forallb_forall in Hfin.
  specialize (Hfin (nth i (rxns m) dr) (nth_In _ _ Hi)). apply andb_true_iff in Hfin as [F1 F2].
  destruct Hn as [H1 H2]. cbn [fst snd] in *.
  destruct (rx_lb (nth i (rxns m) dr)), (rx_ub (nth i (rxns m) dr)); cbn in *; try discriminate. lra.
Qed.

Lemma ys_nth zs w ys i n : length zs = n -> nth (2 * n + 1 + i) (flat zs ++ w :: ys) 0 = nth i ys 0.
Proof.
  intros H. rewrite app_nth2 by (rewrite flat_length; lia). rewrite flat_length.
  replace (2 * n + 1 + i - 2 * length zs)%nat with (S i) by lia. reflexivity.
Qed.

Lemma room_vb_len m ref wub delta eps : length (ax_vb (room_aux m ref wub delta eps)) = length (rxns m).
Proof. cbn. apply map_length. Qed.

(* (1) a point of the mixed problem projects onto the polytope, and every reaction outside the band has y = 1 *)
Theorem room_milp_to_spec m ref wub delta eps zs w ys :
  valid_model m -> length zs = length (rxns m) ->
  milp_feasible (room_lp m ref wub delta eps false) (room_ints m false) (flat zs ++ w :: ys) ->
  room_feasible m wub (nets zs) /\ w == dot (raw_obj m) (nets zs) /\
  count_out (length (rxns m)) delta eps ref (nets zs) <= vsum ys /\
  value (room_lp m ref wub delta eps false) (flat zs ++ w :: ys) == - vsum ys.
Proof.
  intros Hv Hz [H Hbin]. unfold room_lp in *. cbn [room_ints] in Hbin.
  set (a := room_aux m ref wub delta eps) in *.
  pose proof (room_vb_len m ref wub delta eps) as Hvb. fold a in Hvb.
  apply (aux_feasible_iff m a zs w ys Hz Hvb) in H as [Hs [Hwb [Hw [Hb [Hup Hlo]]]]].
  assert (Hd : length ys = length (rxns m)) by (apply Forall2_len in Hb; lia).
  destruct (split_to_net m zs Hv Hs) as [Hn _].
  split; [split; [exact Hn|]|].
  { destruct Hwb as [_ Hwb]. cbn [snd ax_wb a room_aux] in Hwb. destruct wub; cbn in *; try tauto. lra. }
  split; [exact Hw|]. split.
  - rewrite (vsum_seq_nth ys), Hd. unfold count_out. apply vsum_map_le. intros i Hi. apply in_seq in Hi.
    assert (Hi' : (i < length (rxns m))%nat) by lia.
    rewrite Forall_forall in Hbin.
    assert (B : is_bin (nth i ys 0)).
    { rewrite <- (ys_nth zs w ys i (length (rxns m)) Hz). apply Hbin. apply in_seq. lia. }
    unfold outside. destruct (in_band_b delta eps ref i (nth i (nets zs) 0)) eqn:E.
    + destruct B as [B|B]; rewrite B; lra.
    + destruct B as [B|B]; [|rewrite B; lra]. exfalso.
      assert (in_band_b delta eps ref i (nth i (nets zs) 0) = true); [|congruence].
      apply in_band_b_ok.
      pose proof (proj1 (room_rows_iff m ref wub delta eps i _ _) (conj (Hup i Hi') (Hlo i Hi'))) as [R1 R2].
      rewrite B in R1, R2. lra.
  - apply aux_value; [exact Hz|lia].
Qed.

(* (2) every flux vector of the polytope lifts, with y_i = 1 exactly for the reactions outside the band *)
Theorem room_spec_to_milp m ref wub delta eps v :
  valid_model m -> finite_model_b m = true -> room_feasible m wub v ->
  let ys := map (outside delta eps ref v) (seq 0 (length (rxns m))) in
  milp_feasible (room_lp m ref wub delta eps false) (room_ints m false) (flat (splits v) ++ dot (raw_obj m) v :: ys) /\
  vsum ys == count_out (length (rxns m)) delta eps ref v.
Proof.
  intros Hv Hfin [Hn Hobj] ys. split; [|reflexivity].
  assert (Hz : length (splits v) = length (rxns m)) by (rewrite splits_length; apply net_len; exact Hn).
  assert (Hys : forall i, (i < length (rxns m))%nat -> nth i ys 0 = outside delta eps ref v i)
    by (intros i Hi; unfold ys; apply (nth_map_seq (outside delta eps ref v)); exact Hi).
  assert (Hbin : forall i, (i < length (rxns m))%nat -> is_bin (nth i ys 0)).
  { intros i Hi. rewrite (Hys i Hi). unfold outside. destruct (in_band_b _ _ _ _ _); [left|right]; reflexivity. }
  split.
  - unfold room_lp. apply (aux_feasible_iff m _ (splits v) _ ys Hz (room_vb_len m ref wub delta eps)).
    destruct (net_to_split m v Hv Hn) as [Hs _]. split; [exact Hs|].
    split; [split; cbn; [exact I|exact Hobj]|]. split; [symmetry; apply dot_ext, nets_splits|].
    split.
    + cbn [ax_vb room_aux]. apply (Forall2_nth inb (Fin 0, Fin 1) 0).
      * unfold ys. rewrite !map_length, seq_length. reflexivity.
      * intros i Hi. rewrite map_length in Hi. rewrite nth_const_map.
        destruct (Hbin i Hi) as [B|B]; split; cbn; lra.
    + assert (P : forall i, (i < length (rxns m))%nat ->
                 aux_ok (ax_up (room_aux m ref wub delta eps) i) (nth i (nets (splits v)) 0) (nth i ys 0) /\
                 aux_ok (ax_lo (room_aux m ref wub delta eps) i) (nth i (nets (splits v)) 0) (nth i ys 0)).
      { intros i Hi. apply room_rows_iff. rewrite (Hys i Hi).
        pose proof (nets_splits_nth v i) as E.
        pose proof (net_bounds_nth m v i Hfin Hn Hi) as [L U].
        unfold outside. destruct (in_band_b delta eps ref i (nth i v 0)) eqn:B.
        - apply in_band_b_ok in B. split; lra.
        - split; lra. }
      split; intros i Hi; apply (P i Hi).
  - cbn [room_ints]. rewrite Forall_forall. intros j Hj. apply in_seq in Hj.
    replace j with (2 * length (rxns m) + 1 + (j - (2 * length (rxns m) + 1)))%nat by lia.
    rewrite (ys_nth (splits v) _ ys _ (length (rxns m)) Hz). apply Hbin. lia.
Qed.

Lemma count_out_ext n delta eps ref v v' :
  (forall i, nth i v 0 == nth i v' 0) -> count_out n delta eps ref v == count_out n delta eps ref v'.
Proof.
  intros E. unfold count_out. apply vsum_map_eq. intros i _. unfold outside.
  rewrite (in_band_b_proper delta eps ref i _ _ (E i)). reflexivity.
Qed.

(* (3) an optimum of the mixed problem projects onto a flux vector with the least number of reactions outside
       the band; the objective value (Solution.objective_value) is that number                        *)
Theorem room_milp_equiv m ref wub delta eps zs w ys :
  valid_model m -> finite_model_b m = true -> length zs = length (rxns m) ->
  milp_opt (room_lp m ref wub delta eps false) (room_ints m false) (flat zs ++ w :: ys) ->
  room_opt m ref wub delta eps (nets zs) /\
  vsum ys == count_out (length (rxns m)) delta eps ref (nets zs) /\
  - value (room_lp m ref wub delta eps false) (flat zs ++ w :: ys) == count_out (length (rxns m)) delta eps ref (nets zs).
Proof.
  intros Hv Hfin Hz [Hf Hopt].
  destruct (room_milp_to_spec m ref wub delta eps zs w ys Hv Hz Hf) as [Hsf [Hw [Hle Hval]]].
  assert (Hmin : forall v', room_feasible m wub v' -> vsum ys <= count_out (length (rxns m)) delta eps ref v').
  { intros v' Hv'. destruct (room_spec_to_milp m ref wub delta eps v' Hv Hfin Hv') as [Hlf Hs].
    specialize (Hopt _ Hlf).
    assert (Hz' : length (splits v') = length (rxns m)) by (rewrite splits_length; apply net_len; apply Hv').
    destruct (room_milp_to_spec m ref wub delta eps (splits v') _ _ Hv Hz' Hlf) as [_ [_ [_ Hval']]]. lra. }
  pose proof (Hmin _ Hsf) as Hself.
  split; [split; [exact Hsf|]|]. { intros v' Hv'. specialize (Hmin _ Hv'). lra. }
  split; lra.
Qed.

(* ---- the linear variant ---- *)
Lemma band0 f : band_hi 0 0 f == f /\ band_lo 0 0 f == f.
Proof. unfold band_hi, band_lo. split; lra. Qed.

Theorem room_linear_equiv m ref wub delta eps zs w ys :
  valid_model m -> length zs = length (rxns m) ->
  is_opt (room_lp m ref wub delta eps true) (flat zs ++ w :: ys) ->
  room_lin_feasible m ref wub (nets zs) ys /\
  (forall v' ys', room_lin_feasible m ref wub v' ys' -> vsum ys <= vsum ys') /\
  - value (room_lp m ref wub delta eps true) (flat zs ++ w :: ys) == vsum ys.
Proof.
  intros Hv Hz [Hf Hopt]. unfold room_lp in *. cbn [room_ints] in *.
  set (a := room_aux m ref wub 0 0) in *.
  pose proof (room_vb_len m ref wub 0 0) as Hvb. fold a in Hvb.
  assert (Hf' := Hf).
  apply (aux_feasible_iff m a zs w ys Hz Hvb) in Hf' as [Hs [Hwb [Hw [Hb [Hup Hlo]]]]].
  assert (Hd : length ys = length (rxns m)) by (apply Forall2_len in Hb; lia).
  destruct (split_to_net m zs Hv Hs) as [Hn _].
  assert (Hval : value (aux_lp m a) (flat zs ++ w :: ys) == - vsum ys) by (apply aux_value; [exact Hz|lia]).
  split; [|split; [|lra]].
  - split; [split; [exact Hn|]|].
    { destruct Hwb as [_ Hwb]. cbn [snd ax_wb a room_aux] in Hwb. destruct wub; cbn in *; try tauto. lra. }
    split; [exact Hd|]. intros i Hi. cbn zeta.
    pose proof (proj1 (room_rows_iff m ref wub 0 0 i _ _) (conj (Hup i Hi) (Hlo i Hi))) as [R1 R2].
    destruct (band0 (nth i ref 0)) as [B1 B2]. rewrite B1 in R1. rewrite B2 in R2.
    split; [apply (bounds01 (rxns m)); exact Hb|]. split; lra.
  - intros v' ys' [[Hn' Hobj'] [Hl' Hrows']].
    assert (Hz' : length (splits v') = length (rxns m)) by (rewrite splits_length; apply net_len; exact Hn').
    assert (Hlf : feasible (aux_lp m a) (flat (splits v') ++ dot (raw_obj m) v' :: ys')).
    { apply (aux_feasible_iff m a (splits v') _ ys' Hz' Hvb).
      destruct (net_to_split m v' Hv Hn') as [Hs' _]. split; [exact Hs'|].
      split; [split; cbn; [exact I|exact Hobj']|]. split; [symmetry; apply dot_ext, nets_splits|].
      split.
      - cbn [ax_vb a room_aux]. apply (Forall2_nth inb (Fin 0, Fin 1) 0).
        + rewrite map_length. lia.
        + intros i Hi. rewrite map_length in Hi. rewrite nth_const_map.
          destruct (Hrows' i Hi) as [[Y0 Y1] _]. split; cbn; lra.
      - assert (P : forall i, (i < length (rxns m))%nat ->
                 aux_ok (ax_up a i) (nth i (nets (splits v')) 0) (nth i ys' 0) /\
                 aux_ok (ax_lo a i) (nth i (nets (splits v')) 0) (nth i ys' 0)).
        { intros i Hi. apply room_rows_iff. destruct (Hrows' i Hi) as [_ [R1 R2]].
          pose proof (nets_splits_nth v' i) as E.
          destruct (band0 (nth i ref 0)) as [B1 B2]. rewrite B1, B2. split; lra. }
        split; intros i Hi; apply (P i Hi). }
    specialize (Hopt _ Hlf).
    assert (value (aux_lp m a) (flat (splits v') ++ dot (raw_obj m) v' :: ys') == - vsum ys')
      by (apply aux_value; [exact Hz'|lia]).
    lra.
Qed.

(* (4) the ROOM problem has a point whenever the (constrained) polytope has one *)
Theorem room_feasible_iff m ref wub delta eps :
  valid_model m -> finite_model_b m = true ->
  ((exists v, room_feasible m wub v) <->
   (exists zs w ys, length zs = length (rxns m) /\
      milp_feasible (room_lp m ref wub delta eps false) (room_ints m false) (flat zs ++ w :: ys))).
Proof.
  intros Hv Hfin. split.
  - intros [v Hf]. destruct (room_spec_to_milp m ref wub delta eps v Hv Hfin Hf) as [Hlf _].
    eexists _, _, _. split; [|exact Hlf]. rewrite splits_length. apply net_len. apply Hf.
  - intros [zs [w [ys [Hz Hf]]]]. exists (nets zs). apply (room_milp_to_spec m ref wub delta eps zs w ys Hv Hz Hf).
Qed.
