(* Correspondence + monitor functions for C09 (pFBA, linear MOMA, ROOM), evaluated by vm_compute on
   the observations the harness took from the real implementation.  Nothing here is a theorem.

   code 9  : a certificate of the exact oracle was rejected (harness fault)
   code 1  : the Gallina model and the implementation differ: the LP read back from GLPK after
             add_pfba / add_moma / add_room is not the modelled LP, or the bookkeeping around the
             solves (status -> exception, fluxes = forward - reverse, objective value) differs
   code >=2: the property monitor fails on the implementation's own output                      *)
From Coq Require Import QArith List Bool ZArith.
From Cobra.LP Require Import Defs Cert Fba Milp.
From Cobra.Optimize Require Import Model.
From Cobra.Secondary Require Import Aux Pfba AuxLp Moma Room.
From Cobra.Gen Require Import OptTables.
Import ListNotations.
Open Scope Q_scope.

Definition tol : Q := 1 # 1000000.
Definition tiny : Q := 1 # 1000000000000.
Definition veq (t : Q) (a b : vec) : bool := forall2b (fun x y => close t x y) a b.

Inductive oracle := OOpt (x y : vec) | OInf (y : vec) | OUnb (x r : vec) | ONone.

(* ---- structural equality of LPs (coefficient vectors compared up to trailing zeros) ---- *)
Definition eb_eqb (a b : ebound) : bool :=
  match a, b with
  | NegInf, NegInf | PosInf, PosInf => true
  | Fin x, Fin y => Qeq_bool x y
  | _, _ => false
  end.
Definition veq0 (a b : vec) : bool := forallb (fun x => Qeq_bool x 0) (vsub a b).
Definition bounds_eqb (a b : ebound * ebound) : bool := eb_eqb (fst a) (fst b) && eb_eqb (snd a) (snd b).
Definition row_eqb (r s : row) : bool :=
  veq0 (r_coef r) (r_coef s) && eb_eqb (r_lo r) (r_lo s) && eb_eqb (r_hi r) (r_hi s).
Definition lp_eqb (p q : lp) : bool :=
  forall2b bounds_eqb (vbounds p) (vbounds q) && forall2b row_eqb (rows p) (rows q) && veq0 (obj p) (obj q).

Definition exn_eqb (a b : exn) : bool :=
  match a, b with
  | ExInfeasible, ExInfeasible | ExUnbounded, ExUnbounded
  | ExFeasibleButNotOptimal, ExFeasibleButNotOptimal | ExUndefinedSolution, ExUndefinedSolution
  | ExOptimizationError, ExOptimizationError => true
  | _, _ => false
  end.

(* c.v >= bound (max) or <= bound (min), within the tolerance *)
Definition frac_tol (m : fbamodel) (bound : Q) (v : vec) : bool :=
  let e := tol * Qmax' 1 (Qabs' bound) in
  if maximize m then Qle_bool (bound - e) (dot (raw_obj m) v) else Qle_bool (dot (raw_obj m) v) (bound + e).

(* ================================ pFBA ================================ *)
Inductive pobs := PRaise (e : exn) | POther | PSol (st : status) (objv : Q) (sub full : vec).

Record pfbacase := mkPfba {
  p_m : fbamodel;
  p_c : option vec;                 (* objective= {reaction: coefficient} as a dense vector *)
  p_frac : Q;
  p_sel : option (list nat);        (* reactions= as positions *)
  p_fba : oracle;                   (* exact FBA verdict of the model (with the objective override) *)
  p_spec : oracle;                  (* certificate for pfba_lp at the exact bound *)
  p_lp : option (Q * lp);           (* bound and LP read back from GLPK after add_pfba *)
  p_sr1 : sresult;                  (* solver after the 1st / 2nd slim_optimize inside pfba() *)
  p_sr2 : sresult;
  p_out : pobs }.

Definition pfba_agrees (o : pfba_out) (p : pobs) : bool :=
  match o, p with
  | PfbaRaise e, PRaise e' => exn_eqb e e'
  | PfbaSol st ov fl, PSol st' ov' sub _ => status_eqb st st' && close tiny ov ov' && veq tiny fl sub
  | _, _ => false
  end.

Definition pfba_corr (c : pfbacase) (m' : fbamodel) (exact_bound : option Q) : bool :=
  match p_lp c, exact_bound with
  | Some (bobs, lpobs), Some b => lp_eqb (pfba_lp m' bobs) lpobs && close tol bobs b
  | None, None => true
  | _, _ => false
  end &&
  pfba_agrees (pfba exn_table (p_sr1 c) (p_sr2 c) (p_sel c)) (p_out c).

Definition expect_raise (p : pobs) (e : exn) : list nat :=
  match p with PRaise e' => if exn_eqb e e' then [] else [2%nat] | _ => [2%nat] end.

Definition pfba_monitor (c : pfbacase) (m' : fbamodel) (b best : Q) : list nat :=
  match p_out c with
  | PSol st ov sub full =>
      (if status_eqb st Optimal then [] else [2%nat]) ++
      (if close tol ov best then [] else [3%nat]) ++
      (if feasible_tol (net_lp m') tol full then [] else [4%nat]) ++
      (if frac_tol m' b full then [] else [5%nat]) ++
      (if close tol (l1 full) ov then [] else [6%nat]) ++
      (if veq tiny (select (p_sel c) full) sub then [] else [7%nat])
  | _ => [2%nat]
  end.

Definition code1 (b : bool) : list nat := if b then [] else [1%nat].

Definition pfba_checks (c : pfbacase) : list nat :=
  let m' := set_objective (p_m c) (p_c c) in
  if negb (valid_model_b m') then [9%nat] else
  match p_fba c with
  | OOpt x y =>
      if negb (check_opt (net_lp m') x y) then [9%nat] else
      let b := dot (raw_obj m') x * p_frac c in
      match p_spec c with
      | OOpt zx zy =>
          if check_opt (pfba_lp m' b) zx zy
          then code1 (pfba_corr c m' (Some b)) ++ pfba_monitor c m' b (- value (pfba_lp m' b) zx)
          else [9%nat]
      | OInf zy =>
          if check_infeasible (pfba_lp m' b) zy
          then code1 (pfba_corr c m' (Some b)) ++ expect_raise (p_out c) ExInfeasible
          else [9%nat]
      | _ => [9%nat]
      end
  | OInf y =>
      if check_infeasible (net_lp m') y
      then code1 (pfba_corr c m' None) ++ expect_raise (p_out c) ExInfeasible else [9%nat]
  | OUnb x r =>
      if check_unbounded (net_lp m') x r
      then code1 (pfba_corr c m' None) ++ expect_raise (p_out c) ExUnbounded else [9%nat]
  | ONone => [9%nat]
  end.

(* ================================ linear MOMA ================================ *)
Inductive sobs := SRaise (e : exn) | SOther | SSol (st : status) (objv : Q) (fluxes : vec).

Definition sol_agrees (s : solution) (o : sobs) : bool :=
  match o with
  | SSol st ov fl =>
      status_eqb (so_status s) st &&
      (if status_eqb st Optimal then close tiny (so_obj s) ov && veq tiny (so_flux s) fl else true)
  | _ => false
  end.

Record momacase := mkMoma {
  mo_m : fbamodel;                  (* the model in the state moma() was called on *)
  mo_ref : vec;                     (* reference fluxes used (given, or the pfba computed inside add_moma) *)
  mo_default : option oracle;       (* solution=None: certificate of the pFBA optimum (fraction 1) of the model *)
  mo_spec : oracle;                 (* certificate for moma_lp m ref *)
  mo_lp : option lp;                (* LP read back from GLPK after add_moma *)
  mo_sr : sresult;                  (* solver after model.optimize() *)
  mo_w : Q;                         (* primal of moma_old_objective *)
  mo_out : sobs }.

Definition moma_checks (c : momacase) : list nat :=
  let m := mo_m c in
  let n := length (rxns m) in
  let p := moma_lp m (mo_ref c) in
  if negb (valid_model_b m) then [9%nat] else
  code1 (match mo_lp c with Some l => lp_eqb p l | None => false end && sol_agrees (moma (mo_sr c)) (mo_out c)) ++
  match mo_spec c with
  | OOpt x y =>
      if negb (check_opt p x y) then [9%nat] else
      match mo_out c with
      | SSol st ov fl =>
          (if status_eqb st Optimal then [] else [2%nat]) ++
          (if close tol ov (- value p x) then [] else [3%nat]) ++
          (if feasible_tol (net_lp m) tol fl then [] else [4%nat]) ++
          (if close tol (dist n fl (mo_ref c)) ov then [] else [6%nat]) ++
          (if close tol (mo_w c) (dot (raw_obj m) fl) then [] else [10%nat])
      | _ => [2%nat]
      end
  | OInf y =>
      if negb (check_infeasible p y) then [9%nat] else
      match mo_out c with SSol Infeasible _ _ => [] | _ => [2%nat] end
  | _ => [9%nat]
  end ++
  match mo_default c with
  | None => []
  | Some (OOpt fx fy) =>
      (* the default reference must be a pFBA solution of the model: feasible, optimal objective, least total flux *)
      match mo_spec c with
      | OOpt _ _ =>
        if negb (check_opt (net_lp m) fx fy) then [9%nat] else
        let b := dot (raw_obj m) fx in
        (if feasible_tol (net_lp m) tol (mo_ref c) && frac_tol m b (mo_ref c) then [] else [8%nat])
      | _ => []
      end
  | Some _ => []
  end.

(* ================================ ROOM ================================ *)
(* LP comparison up to 1e-9: add_room computes the band limits in floating point (delta, epsilon and the
   reference fluxes are arbitrary doubles), the model computes them exactly *)
Definition near (a b : Q) : bool := Qle_bool (Qabs' (a - b)) (1 # 1000000000).
Definition eb_near (a b : ebound) : bool :=
  match a, b with
  | NegInf, NegInf | PosInf, PosInf => true
  | Fin x, Fin y => near x y
  | _, _ => false
  end.
Definition vnear (a b : vec) : bool := forallb (fun x => near x 0) (vsub a b).
Definition row_near (r s : row) : bool :=
  vnear (r_coef r) (r_coef s) && eb_near (r_lo r) (r_lo s) && eb_near (r_hi r) (r_hi s).
Definition lp_near (p q : lp) : bool :=
  forall2b (fun a b => eb_near (fst a) (fst b) && eb_near (snd a) (snd b)) (vbounds p) (vbounds q) &&
  forall2b row_near (rows p) (rows q) && vnear (obj p) (obj q).
Definition nats_eqb (a b : list nat) : bool := forall2b Nat.eqb a b.

Record roomcase := mkRoom {
  ro_m : fbamodel;
  ro_ref : vec;
  ro_delta : Q; ro_eps : Q; ro_linear : bool;
  ro_fba : oracle;                          (* OInf: certificate that the model has no flux vector *)
  ro_wide : option (vec * list bcert);      (* mixed-problem certificates with the band widened ... *)
  ro_narrow : option (vec * list bcert);    (* ... and narrowed by the envelope (DESIGN 2.3) *)
  ro_lin : oracle;                          (* linear variant: LP certificate *)
  ro_lp : option (lp * list nat);           (* LP read back from GLPK and positions of its binary columns *)
  ro_sr : sresult;
  ro_out : sobs }.

(* GLPK accepts y within 1e-5 of an integer, which moves a big-M row by 1e-5 * |coefficient| *)
Definition room_env (m : fbamodel) (ref : vec) (delta eps : Q) : Q :=
  let a := room_aux m ref PosInf delta eps in
  let big := fold_right (fun i acc => Qmax' (Qabs' (fst (fst (ax_up a i)))) (Qmax' (Qabs' (fst (fst (ax_lo a i)))) acc))
                        1 (seq 0 (length (rxns m))) in
  (1 # 100000) * big.

Definition room_tiny : Q := 1 # 1000000000.
(* objective_value = sum of y_i as GLPK holds them (each within 1e-5 of an integer) *)
Definition room_otol : Q := 1 # 10000.

Definition room_checks (c : roomcase) : list nat :=
  let m := ro_m c in
  let n := length (rxns m) in
  let lin := ro_linear c in
  let p := room_lp m (ro_ref c) PosInf (ro_delta c) (ro_eps c) lin in
  let ints := room_ints m lin in
  if negb (valid_model_b m && finite_model_b m) then [9%nat] else
  code1 (match ro_lp c with Some (l, bins) => lp_near p l && nats_eqb ints bins | None => false end &&
         sol_agrees (room (ro_sr c)) (ro_out c)) ++
  match ro_fba c with
  | OInf y =>
      if check_infeasible (net_lp m) y
      then match ro_out c with SSol Infeasible _ _ => [] | _ => [2%nat] end
      else [9%nat]
  | _ =>
    if lin then
      match ro_lin c with
      | OOpt x y =>
          if negb (check_opt p x y) then [9%nat] else
          match ro_out c with
          | SSol st ov fl =>
              (if status_eqb st Optimal then [] else [2%nat]) ++
              (if close tol ov (- value p x) then [] else [3%nat]) ++
              (if feasible_tol (net_lp m) tol fl then [] else [4%nat])
          | _ => [2%nat]
          end
      | _ => [9%nat]
      end
    else
      match ro_wide c, ro_narrow c with
      | Some (xw, cw), Some (xn, cn) =>
          let e := room_env m (ro_ref c) (ro_delta c) (ro_eps c) in
          let pw := room_lp m (ro_ref c) PosInf (ro_delta c) (ro_eps c + e) false in
          let pn := room_lp m (ro_ref c) PosInf (ro_delta c) (ro_eps c - room_tiny) false in
          if negb (check_milp pw ints xw cw && check_milp pn ints xn cn) then [9%nat] else
          (* certified: least count with the band widened by GLPK's integrality slack (kw) <= least count of
             the documented band <= least count with the band narrowed by 1e-9 (kn).  The implementation's
             count must lie in [kw, kn]; when kw = kn (well-conditioned instance) that is equality.       *)
          let kw := - value pw xw in
          let kn := - value pn xn in
          match ro_out c with
          | SSol st ov fl =>
              (if status_eqb st Optimal then [] else [2%nat]) ++
              (if Qle_bool (kw - room_otol) ov && Qle_bool ov (kn + room_otol) then [] else [3%nat]) ++
              (if feasible_tol (net_lp m) tol fl then [] else [4%nat]) ++
              (if Qle_bool (count_out n (ro_delta c) (ro_eps c + e) (ro_ref c) fl) (ov + room_otol) then [] else [6%nat])
          | _ => [2%nat]
          end
      | _, _ => [9%nat]
      end
  end.

(* ================================ all of C09 ================================ *)
Inductive c09case := CPfba (c : pfbacase) | CMoma (c : momacase) | CRoom (c : roomcase).

Definition checks (c : c09case) : list nat :=
  match c with CPfba p => pfba_checks p | CMoma p => moma_checks p | CRoom p => room_checks p end.

Definition failing (cases : list (Z * c09case)) : list (Z * list (nat * nat)) :=
  filter (fun r => match snd r with [] => false | _ => true end)
         (map (fun c => (fst c, map (fun k => (0%nat, k)) (checks (snd c)))) cases).
