(* Executable model of cobra.flux_analysis.room (add_room, room), property C09.

   add_room(model, solution, linear, delta, epsilon):
       variable   = Variable("room_old_objective")        [see below for its upper bound]
       constraint = Constraint(objective.expression - variable, ub=0, lb=0)          AuxLp.w_row
       model.objective = Objective(Zero, direction="min")
       for rxn in model.reactions:   flux = solution.fluxes[rxn.id]
           linear:  y = Variable("y_"+id, lb=0, ub=1);  delta = epsilon = 0.0
           else:    y = Variable("y_"+id, type="binary")
           w_u = flux + delta*abs(flux) + epsilon
           room_constraint_upper_:  flux_expression - y*(rxn.upper_bound - w_u) <= w_u
           w_l = flux - delta*abs(flux) - epsilon
           room_constraint_lower_:  flux_expression - y*(rxn.lower_bound - w_l) >= w_l
       objective coefficients 1.0 on every y

   The upper bound of room_old_objective is a parameter `wub` here: the tree this was written against passes
   ub=solution.objective_value (an extra constraint "old objective <= the reference's objective value" that is
   not part of the documented formulation and makes ROOM infeasible / suboptimal for minimised objectives and for
   pFBA references, see fixes/room-old-objective-bound.md); the repaired code leaves the variable free (PosInf).
   Reaction bounds must be finite (the coefficients are rxn.upper_bound - w_u).                        *)
From Coq Require Import QArith List Bool Lia Lqa.
From Cobra.LP Require Import Defs Cert Fba Milp.
From Cobra.Optimize Require Import Model.
From Cobra.Secondary Require Import Aux Pfba AuxLp.
Import ListNotations.
Open Scope Q_scope.

Definition fin (b : ebound) : Q := match b with Fin q => q | _ => 0 end.
Definition is_fin (b : ebound) : bool := match b with Fin _ => true | _ => false end.
Definition finite_model_b (m : fbamodel) : bool := forallb (fun r => is_fin (rx_lb r) && is_fin (rx_ub r)) (rxns m).

Definition band_hi (delta eps flux : Q) : Q := flux + delta * Qabs' flux + eps.
Definition band_lo (delta eps flux : Q) : Q := flux - delta * Qabs' flux - eps.
Definition dr : rxn := mkRxn [] (Fin 0) (Fin 0) 0.

Definition room_aux (m : fbamodel) (ref : vec) (wub : ebound) (delta eps : Q) : auxspec :=
  mkAux (NegInf, wub) (map (fun _ => (Fin 0, Fin 1)) (rxns m))
        (fun i => let wu := band_hi delta eps (nth i ref 0) in
                  (- (fin (rx_ub (nth i (rxns m) dr)) - wu), NegInf, Fin wu))
        (fun i => let wl := band_lo delta eps (nth i ref 0) in
                  (- (fin (rx_lb (nth i (rxns m) dr)) - wl), Fin wl, PosInf)).

Definition room_lp (m : fbamodel) (ref : vec) (wub : ebound) (delta eps : Q) (linear : bool) : lp :=
  aux_lp m (if linear then room_aux m ref wub 0 0 else room_aux m ref wub delta eps).
(* positions of the binary columns: the y variables, after 2n flux variables and room_old_objective *)
Definition room_ints (m : fbamodel) (linear : bool) : list nat :=
  if linear then [] else seq (2 * length (rxns m) + 1) (length (rxns m)).

(* ---- specification ---- *)
Definition in_band_b (delta eps : Q) (ref : vec) (i : nat) (v : Q) : bool :=
  Qle_bool (band_lo delta eps (nth i ref 0)) v && Qle_bool v (band_hi delta eps (nth i ref 0)).
Definition outside (delta eps : Q) (ref : vec) (v : vec) (i : nat) : Q :=
  if in_band_b delta eps ref i (nth i v 0) then 0 else 1.
(* number of reactions whose flux leaves the tolerance band around the reference *)
Definition count_out (n : nat) (delta eps : Q) (ref v : vec) : Q := vsum (map (outside delta eps ref v) (seq 0 n)).

Definition room_feasible (m : fbamodel) (wub : ebound) (v : vec) : Prop :=
  feasible (net_lp m) v /\ le_hi (dot (raw_obj m) v) wub.
Definition room_opt (m : fbamodel) (ref : vec) (wub : ebound) (delta eps : Q) (v : vec) : Prop :=
  room_feasible m wub v /\
  forall v', room_feasible m wub v' ->
             count_out (length (rxns m)) delta eps ref v <= count_out (length (rxns m)) delta eps ref v'.

(* the relaxation solved by the linear variant: (v, y) with 0 <= y <= 1 and the two rows at delta = eps = 0 *)
Definition room_lin_feasible (m : fbamodel) (ref : vec) (wub : ebound) (v ys : vec) : Prop :=
  room_feasible m wub v /\ length ys = length (rxns m) /\
  forall i, (i < length (rxns m))%nat ->
    let y := nth i ys 0 in let x := nth i v 0 in let r := nth i (rxns m) dr in let f := nth i ref 0 in
    0 <= y <= 1 /\ x - y * (fin (rx_ub r) - f) <= f /\ f <= x - y * (fin (rx_lb r) - f).

(* room(): `with model: add_room(...); solution = model.optimize()` *)
Definition room (sr : sresult) : solution := get_solution sr.
