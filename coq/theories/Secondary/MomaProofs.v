(* linear MOMA: the LP built by add_moma is equivalent to  min sum |v_i - ref_i|  over P(m). *)
From Coq Require Import QArith List Bool Lia Lqa.
From Cobra.LP Require Import Defs Cert Fba.
From Cobra.Optimize Require Import Model.
From Cobra.Secondary Require Import Aux Pfba AuxLp Moma.
Import ListNotations.
Open Scope Q_scope.

(* add_absolute_expression: the two constraints (and the variable's lower bound 0) say exactly that the
   auxiliary variable is at least |expression - difference| *)
Theorem abs_encoding e ref d :
  (0 <= d /\ e - d <= ref /\ ref <= e + d) <-> Qabs' (e - ref) <= d.
Proof.
  destruct (Qabs'_spec (e - ref)) as [A [B [C _]]]. split.
  - intros [H0 [H1 H2]]. apply Qabs'_le; lra.
  - intros H. repeat split; lra.
Qed.

Lemma nonneg_bounds {A} (l : list A) : forall ds,
  Forall2 inb (map (fun _ => (Fin 0, PosInf)) l) ds -> forall i, 0 <= nth i ds 0.
Proof.
  induction l as [|a l IH]; intros ds H i; inversion H as [|b d bs ds' Hb H']; subst.
  - destruct i; cbn; lra.
  - destruct i as [|i]; cbn [nth]; [destruct Hb as [Hb _]; exact Hb|apply IH; exact H'].
Qed.

Lemma nth_const_map {A B} (c : B) (l : list A) : forall i, nth i (map (fun _ => c) l) c = c.
Proof. induction l as [|a l IH]; intros [|i]; cbn; auto. Qed.

Lemma moma_rows_iff m ref i v d :
  (aux_ok (ax_up (moma_aux m ref) i) v d /\ aux_ok (ax_lo (moma_aux m ref) i) v d) <->
  (v - d <= nth i ref 0 /\ nth i ref 0 <= v + d).
Proof.
  unfold aux_ok, moma_aux, inb. cbn [ax_up ax_lo fst snd le_lo le_hi]. split.
  - intros [[_ A] [B _]]. split; lra.
  - intros [A B]. repeat split; try exact I; lra.
Qed.

Lemma net_len m v : feasible (net_lp m) v -> length v = length (rxns m).
Proof. intros [H _]. apply Forall2_len in H. cbn in H. rewrite map_length in H. lia. Qed.

Lemma splits_length v : length (splits v) = length v.
Proof. unfold splits. apply map_length. Qed.

Lemma nets_splits_nth v i : nth i (nets (splits v)) 0 == nth i v 0.
Proof.
  destruct (Nat.lt_ge_cases i (length v)) as [H|H].
  - destruct (Forall2_nth_inv Qeq 0 0 _ _ (nets_splits v)) as [Hl Hn]. apply Hn. rewrite Hl. exact H.
  - rewrite !nth_overflow; [reflexivity|exact H|rewrite nets_length, splits_length; exact H].
Qed.

(* (1) feasible points of cobrapy's LP project onto the flux polytope; the auxiliary variables dominate
       the distances; moma_old_objective carries the old objective's value                          *)
Theorem moma_lp_to_spec m ref zs w ds :
  valid_model m -> length zs = length (rxns m) ->
  feasible (moma_lp m ref) (flat zs ++ w :: ds) ->
  feasible (net_lp m) (nets zs) /\ w == dot (raw_obj m) (nets zs) /\
  dist (length (rxns m)) (nets zs) ref <= vsum ds /\
  value (moma_lp m ref) (flat zs ++ w :: ds) == - vsum ds.
Proof.
  intros Hv Hz H. unfold moma_lp in *.
  assert (Hvb : length (ax_vb (moma_aux m ref)) = length (rxns m)) by (cbn; apply map_length).
  apply (aux_feasible_iff m (moma_aux m ref) zs w ds Hz Hvb) in H as [Hs [_ [Hw [Hb [Hup Hlo]]]]].
  assert (Hd : length ds = length (rxns m)) by (apply Forall2_len in Hb; lia).
  destruct (split_to_net m zs Hv Hs) as [Hn _]. split; [exact Hn|]. split; [exact Hw|]. split.
  - rewrite (vsum_seq_nth ds), Hd. unfold dist. apply vsum_map_le. intros i Hi. apply in_seq in Hi.
    apply abs_encoding. split; [apply (nonneg_bounds (rxns m)); exact Hb|].
    apply (moma_rows_iff m ref i). split; [apply Hup|apply Hlo]; lia.
  - apply aux_value; [exact Hz|lia].
Qed.

(* (2) every flux vector of the polytope lifts to a feasible point whose objective is its distance *)
Theorem moma_spec_to_lp m ref v :
  valid_model m -> feasible (net_lp m) v ->
  let ds := map (fun i => Qabs' (nth i v 0 - nth i ref 0)) (seq 0 (length (rxns m))) in
  feasible (moma_lp m ref) (flat (splits v) ++ dot (raw_obj m) v :: ds) /\
  vsum ds == dist (length (rxns m)) v ref.
Proof.
  intros Hv Hn ds. split; [|reflexivity]. unfold moma_lp.
  assert (Hz : length (splits v) = length (rxns m)) by (rewrite splits_length; apply net_len; exact Hn).
  assert (Hvb : length (ax_vb (moma_aux m ref)) = length (rxns m)) by (cbn; apply map_length).
  apply (aux_feasible_iff m (moma_aux m ref) (splits v) _ ds Hz Hvb).
  destruct (net_to_split m v Hv Hn) as [Hs _]. split; [exact Hs|].
  split; [split; exact I|]. split; [symmetry; apply dot_ext, nets_splits|].
  assert (Hds : forall i, (i < length (rxns m))%nat -> nth i ds 0 = Qabs' (nth i v 0 - nth i ref 0))
    by (intros i Hi; unfold ds; apply (nth_map_seq (fun i => Qabs' (nth i v 0 - nth i ref 0))); exact Hi).
  split.
  - cbn [ax_vb moma_aux]. apply (Forall2_nth inb (Fin 0, PosInf) 0).
    + unfold ds. rewrite !map_length, seq_length. reflexivity.
    + intros i Hi. rewrite map_length in Hi. rewrite Hds by exact Hi.
      rewrite nth_const_map. split; cbn; [|exact I]. destruct (Qabs'_spec (nth i v 0 - nth i ref 0)) as [A _]. exact A.
  - assert (P : forall i, (i < length (rxns m))%nat ->
               aux_ok (ax_up (moma_aux m ref) i) (nth i (nets (splits v)) 0) (nth i ds 0) /\
               aux_ok (ax_lo (moma_aux m ref) i) (nth i (nets (splits v)) 0) (nth i ds 0)).
    { intros i Hi. apply moma_rows_iff. rewrite (Hds i Hi).
      pose proof (nets_splits_nth v i) as E.
      destruct (Qabs'_spec (nth i v 0 - nth i ref 0)) as [A [B [C _]]]. split; lra. }
    split; intros i Hi; apply (P i Hi).
Qed.

(* (3) an optimum of the LP projects onto a flux vector of minimal summed distance to the reference; the
       objective value (Solution.objective_value) is that distance; the variable moma_old_objective
       holds the original objective's value at the returned fluxes                                  *)
Theorem moma_lp_equiv m ref zs w ds :
  valid_model m -> length zs = length (rxns m) ->
  is_opt (moma_lp m ref) (flat zs ++ w :: ds) ->
  moma_opt m ref (nets zs) /\ vsum ds == dist (length (rxns m)) (nets zs) ref /\
  - value (moma_lp m ref) (flat zs ++ w :: ds) == dist (length (rxns m)) (nets zs) ref /\
  w == dot (raw_obj m) (nets zs).
Proof.
  intros Hv Hz [Hf Hopt]. destruct (moma_lp_to_spec m ref zs w ds Hv Hz Hf) as [Hn [Hw [Hle Hval]]].
  assert (Hmin : forall v', feasible (net_lp m) v' -> vsum ds <= dist (length (rxns m)) v' ref).
  { intros v' Hv'. destruct (moma_spec_to_lp m ref v' Hv Hv') as [Hlf Hs].
    specialize (Hopt _ Hlf).
    assert (Hz' : length (splits v') = length (rxns m)) by (rewrite splits_length; apply net_len; exact Hv').
    destruct (moma_lp_to_spec m ref (splits v') _ _ Hv Hz' Hlf) as [_ [_ [_ Hval']]]. lra. }
  pose proof (Hmin _ Hn) as Hself.
  split; [split; [exact Hn|]|]. { intros v' Hv'. specialize (Hmin _ Hv'). lra. }
  split; [lra|]. split; [lra|exact Hw].
Qed.

(* (4) the LP is feasible whenever the flux polytope is non-empty (so "infeasible" from MOMA means the
       model itself is infeasible)                                                               *)
Theorem moma_feasible_iff m ref :
  valid_model m ->
  ((exists v, feasible (net_lp m) v) <->
   (exists zs w ds, length zs = length (rxns m) /\ feasible (moma_lp m ref) (flat zs ++ w :: ds))).
Proof.
  intros Hv. split.
  - intros [v Hn]. destruct (moma_spec_to_lp m ref v Hv Hn) as [Hlf _].
    eexists _, _, _. split; [|exact Hlf]. rewrite splits_length. apply net_len. exact Hn.
  - intros [zs [w [ds [Hz Hf]]]]. exists (nets zs). apply (moma_lp_to_spec m ref zs w ds Hv Hz Hf).
Qed.
