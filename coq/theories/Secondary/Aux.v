(* Small facts over Q and lists shared by the pFBA / MOMA / ROOM developments (property C09):
   absolute values, sums, dot products of concatenated and unit vectors, rows indexed by seq. *)
From Coq Require Import QArith List Bool Lia Lqa.
From Cobra.LP Require Import Defs Cert Fba.
Import ListNotations.
Open Scope Q_scope.

Lemma Qabs'_spec x :
  0 <= Qabs' x /\ x <= Qabs' x /\ - x <= Qabs' x /\ (Qabs' x == x \/ Qabs' x == - x).
Proof.
  unfold Qabs'. destruct (Qle_bool 0 x) eqn:E; qb.
  - repeat split; lra.
  - repeat split; lra.
Qed.

Lemma Qabs'_le x t : x <= t -> - x <= t -> Qabs' x <= t.
Proof. intros A B. destruct (Qabs'_spec x) as [_ [_ [_ [E|E]]]]; rewrite E; assumption. Qed.

Lemma Qabs'_proper x y : x == y -> Qabs' x == Qabs' y.
Proof.
  intros E. destruct (Qabs'_spec x) as [A1 [A2 [A3 A4]]], (Qabs'_spec y) as [B1 [B2 [B3 B4]]].
  destruct A4 as [A4|A4], B4 as [B4|B4]; lra.
Qed.

Fixpoint vsum (v : vec) : Q := match v with [] => 0 | x :: v' => x + vsum v' end.
Definition l1 (v : vec) : Q := vsum (map Qabs' v).

Lemma vsum_app a b : vsum (a ++ b) == vsum a + vsum b.
Proof. induction a as [|x a IH]; cbn [app vsum]; [lra|]. rewrite IH. lra. Qed.

Lemma vsum_ext a : forall b, Forall2 Qeq a b -> vsum a == vsum b.
Proof.
  induction a as [|x a IH]; intros b H; inversion H as [|x' y a' b' E H']; subst; cbn [vsum]; [reflexivity|].
  rewrite (IH _ H'), E. reflexivity.
Qed.

Lemma l1_ext a b : Forall2 Qeq a b -> l1 a == l1 b.
Proof.
  intros H. unfold l1. apply vsum_ext. induction H; cbn; constructor; [apply Qabs'_proper; assumption|assumption].
Qed.

Lemma l1_nonneg v : 0 <= l1 v.
Proof.
  induction v as [|x v IH]; unfold l1 in *; cbn [map vsum]; [lra|].
  destruct (Qabs'_spec x) as [A _]. lra.
Qed.

(* pointwise comparison of sums *)
Lemma vsum_le a : forall b, Forall2 Qle a b -> vsum a <= vsum b.
Proof.
  induction a as [|x a IH]; intros b H; inversion H as [|x' y a' b' E H']; subst; cbn [vsum]; [lra|].
  pose proof (IH _ H'). lra.
Qed.

Lemma Forall2_nth {A B} (P : A -> B -> Prop) (da : A) (db : B) l : forall m,
  length l = length m -> (forall i, (i < length l)%nat -> P (nth i l da) (nth i m db)) -> Forall2 P l m.
Proof.
  induction l as [|a l IH]; intros [|b m] Hl H; cbn in Hl; try discriminate; constructor.
  - apply (H 0%nat). cbn. lia.
  - apply IH; [lia|]. intros i Hi. apply (H (S i)). cbn. lia.
Qed.

Lemma Forall2_nth_inv {A B} (P : A -> B -> Prop) (da : A) (db : B) l m :
  Forall2 P l m -> length l = length m /\ forall i, (i < length l)%nat -> P (nth i l da) (nth i m db).
Proof.
  induction 1 as [|a b l m Hab H IH]; cbn; [split; [reflexivity|intros; lia]|].
  destruct IH as [IH1 IH2]. split; [lia|]. intros [|i] Hi; [exact Hab|apply IH2; lia].
Qed.

(* ---- dot products ---- *)
Lemma dot_app a : forall x b y, length a = length x -> dot (a ++ b) (x ++ y) == dot a x + dot b y.
Proof.
  induction a as [|a0 a IH]; intros [|x0 x] b y H; cbn in H; try discriminate; cbn [app dot]; [lra|].
  rewrite IH by lia. lra.
Qed.

Lemma dot_dup_app a : forall zs rest, length a = length zs -> dot (dup a) (flat zs ++ rest) == dot a (nets zs).
Proof.
  induction a as [|a0 a IH]; intros [|[f r] zs] rest H; cbn in H; try discriminate; cbn [dup dot flat app nets map fst snd];
    [reflexivity|].
  fold (nets zs). rewrite IH by lia. lra.
Qed.

Definition unit (n i : nat) : vec := map (fun j => if Nat.eqb i j then 1 else 0) (seq 0 n).

Lemma unit_length n i : length (unit n i) = n.
Proof. unfold unit. rewrite map_length, seq_length. reflexivity. Qed.

Lemma dot_unit_gen n : forall s i v, length v = n ->
  dot (map (fun j => if Nat.eqb i j then 1 else 0) (seq s n)) v == nth (i - s) v 0 * (if (Nat.leb s i && Nat.ltb i (s + n))%bool then 1 else 0).
Proof.
  induction n as [|n IH]; intros s i v H; destruct v as [|x v]; cbn in H; try discriminate.
  - cbn [seq map dot]. replace (s + 0)%nat with s by lia.
    destruct (Nat.leb s i) eqn:E1, (Nat.ltb i s) eqn:E2; cbn; try lra.
    apply Nat.leb_le in E1. apply Nat.ltb_lt in E2. lia.
  - cbn [seq map dot]. rewrite (IH (S s) i v) by lia.
    destruct (Nat.eqb i s) eqn:E.
    + apply Nat.eqb_eq in E. subst. replace (s - s)%nat with 0%nat by lia. cbn [nth].
      assert (E1 : Nat.leb (S s) s = false) by (apply Nat.leb_gt; lia). rewrite E1. cbn [andb].
      assert (E2 : Nat.leb s s = true) by (apply Nat.leb_le; lia).
      assert (E3 : Nat.ltb s (s + S n) = true) by (apply Nat.ltb_lt; lia). rewrite E2, E3. cbn. lra.
    + apply Nat.eqb_neq in E.
      destruct (Nat.leb s i) eqn:E1.
      * apply Nat.leb_le in E1. assert (E4 : Nat.leb (S s) i = true) by (apply Nat.leb_le; lia). rewrite E4.
        replace (S s + n)%nat with (s + S n)%nat by lia.
        replace (i - s)%nat with (S (i - S s)) by lia. cbn [nth]. lra.
      * apply Nat.leb_gt in E1. assert (E4 : Nat.leb (S s) i = false) by (apply Nat.leb_gt; lia). rewrite E4. cbn. lra.
Qed.

Lemma dot_unit n i v : length v = n -> (i < n)%nat -> dot (unit n i) v == nth i v 0.
Proof.
  intros H Hi. unfold unit. rewrite (dot_unit_gen n 0 i v H). replace (i - 0)%nat with i by lia.
  assert (E : (Nat.leb 0 i && Nat.ltb i (0 + n))%bool = true).
  { apply andb_true_iff. split; [apply Nat.leb_le; lia|apply Nat.ltb_lt; lia]. }
  rewrite E. lra.
Qed.

Lemma Forall_map_seq {A} (P : A -> Prop) (f : nat -> A) n :
  Forall P (map f (seq 0 n)) <-> forall i, (i < n)%nat -> P (f i).
Proof.
  rewrite Forall_forall. split.
  - intros H i Hi. apply H. apply in_map_iff. exists i. split; [reflexivity|apply in_seq; lia].
  - intros H x Hx. apply in_map_iff in Hx as [i [<- Hi]]. apply in_seq in Hi. apply H. lia.
Qed.

Lemma nets_length zs : length (nets zs) = length zs.
Proof. unfold nets. apply map_length. Qed.

Lemma flat_bounds_length_eq bs : forall zs, Forall2 inb (flat_bounds bs) (flat zs) -> length bs = length zs.
Proof.
  induction bs as [|[fb rb] bs IH]; intros [|[f r] zs] H; cbn in *; try reflexivity; try (inversion H; fail).
  inversion H as [|? ? ? ? _ H1]; subst. inversion H1 as [|? ? ? ? _ H2]; subst. f_equal. apply IH. exact H2.
Qed.

Lemma Forall2_app_inv_len {A B} (P : A -> B -> Prop) l1 : forall l2 m1 m2,
  length l1 = length m1 -> Forall2 P (l1 ++ l2) (m1 ++ m2) -> Forall2 P l1 m1 /\ Forall2 P l2 m2.
Proof.
  induction l1 as [|a l1 IH]; intros l2 [|b m1] m2 Hl H; cbn in *; try discriminate.
  - split; [constructor|exact H].
  - inversion H; subst. destruct (IH l2 m1 m2 ltac:(lia) ltac:(assumption)). split; [constructor|]; assumption.
Qed.

Lemma Forall2_app_len {A B} (P : A -> B -> Prop) l1 l2 m1 m2 :
  Forall2 P l1 m1 -> Forall2 P l2 m2 -> Forall2 P (l1 ++ l2) (m1 ++ m2).
Proof. intros H1 H2. induction H1; cbn; [exact H2|constructor; assumption]. Qed.

Lemma Forall2_len {A B} (P : A -> B -> Prop) l m : Forall2 P l m -> length l = length m.
Proof. induction 1; cbn; lia. Qed.
