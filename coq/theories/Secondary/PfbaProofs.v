(* pFBA: the LP built by add_pfba is equivalent to  min { sum |v_i| : v in P(m), c.v >=/<= bound }. *)
From Coq Require Import QArith List Bool Lia Lqa.
From Cobra.LP Require Import Defs Cert Fba.
From Cobra.Optimize Require Import Model.
From Cobra.Secondary Require Import Aux Pfba.
Import ListNotations.
Open Scope Q_scope.

(* forward and reverse variables are never negative *)
Lemma split_nonneg lb ub f r :
  valid lb ub -> inb (fst (split_bounds lb ub)) f -> inb (snd (split_bounds lb ub)) r -> 0 <= f /\ 0 <= r.
Proof.
  unfold valid, split_bounds, inb. intros [Hle [Hl Hu]].
  destruct (epos lb) eqn:E1; [|destruct (eneg ub) eqn:E2]; cbn [fst snd];
    destruct lb as [|l|]; destruct ub as [|u|]; cbn in *; try congruence; try tauto; qb;
    intros [? ?] [? ?]; split; lra.
Qed.

(* min { f + r | f - r = v, f and r within the split bounds } = |v| *)
Theorem min_split_is_abs lb ub v :
  valid lb ub -> inb (lb, ub) v ->
  (forall f r, inb (fst (split_bounds lb ub)) f -> inb (snd (split_bounds lb ub)) r -> f - r == v ->
               Qabs' v <= f + r) /\
  (inb (fst (split_bounds lb ub)) (qpos v) /\ inb (snd (split_bounds lb ub)) (qpos (- v)) /\
   qpos v - qpos (- v) == v /\ qpos v + qpos (- v) == Qabs' v).
Proof.
  intros Hv Hb. split.
  - intros f r Hf Hr E. destruct (split_nonneg lb ub f r Hv Hf Hr) as [F R]. apply Qabs'_le; lra.
  - destruct (split_complete lb ub v Hv Hb) as [A B]. split; [exact A|]. split; [exact B|].
    destruct (qpos_spec v) as [P1 [P2 [P3 [P4 P5]]]].
    destruct (qpos_spec (- v)) as [N1 [N2 [N3 [N4 N5]]]].
    split; [exact P3|].
    unfold Qabs'. destruct (Qle_bool 0 v) eqn:E; qb.
    + assert (- v <= 0) by lra. specialize (P4 ltac:(assumption)). specialize (N5 ltac:(assumption)). lra.
    + assert (v <= 0) by lra. assert (0 <= - v) by lra.
      specialize (P5 ltac:(assumption)). specialize (N4 ltac:(assumption)). lra.
Qed.

Lemma sum2_ge_l1 rs : forall zs,
  Forall (fun r => valid (rx_lb r) (rx_ub r)) rs ->
  Forall2 inb (flat_bounds (map (fun r => split_bounds (rx_lb r) (rx_ub r)) rs)) (flat zs) ->
  l1 (nets zs) <= sum2 zs.
Proof.
  induction rs as [|r rs IH]; intros zs Hv H; cbn in *.
  - destruct zs as [|[f r0] zs]; cbn in *; [unfold l1; cbn; lra|inversion H].
  - inversion Hv as [|r' rs' V Hv']; subst.
    destruct (split_bounds (rx_lb r) (rx_ub r)) as [fb rb] eqn:E.
    destruct zs as [|[f r0] zs]; cbn in *; [inversion H|].
    inversion H as [|b1 x1 l1' l1'' Hf H1]; subst. inversion H1 as [|b2 x2 l2 l2' Hr H2]; subst.
    specialize (IH zs Hv' H2).
    assert (N : 0 <= f /\ 0 <= r0) by (apply (split_nonneg (rx_lb r) (rx_ub r)); [exact V|rewrite E; exact Hf|rewrite E; exact Hr]).
    unfold l1 in *. cbn [map vsum]. fold (nets zs).
    assert (Qabs' (f - r0) <= f + r0) by (apply Qabs'_le; lra). lra.
Qed.

Lemma sum2_splits v : sum2 (splits v) == l1 v.
Proof.
  induction v as [|x v IH]; unfold l1 in *; cbn [splits map sum2 vsum]; [reflexivity|].
  fold (splits v). rewrite IH.
  destruct (qpos_spec x) as [P1 [P2 [P3 [P4 P5]]]].
  destruct (qpos_spec (- x)) as [N1 [N2 [N3 [N4 N5]]]].
  unfold Qabs'. destruct (Qle_bool 0 x) eqn:E; qb.
  - assert (- x <= 0) by lra. specialize (P4 ltac:(assumption)). specialize (N5 ltac:(assumption)). lra.
  - assert (x <= 0) by lra. assert (0 <= - x) by lra.
    specialize (P5 ltac:(assumption)). specialize (N4 ltac:(assumption)). lra.
Qed.

Lemma dot_negones2 rs : forall zs, length rs = length zs -> dot (negones2 rs) (flat zs) == - sum2 zs.
Proof.
  induction rs as [|r rs IH]; intros [|[f r0] zs] H; cbn in H; try discriminate; cbn [negones2 flat dot sum2]; [lra|].
  rewrite IH by lia. lra.
Qed.

Lemma split_len m zs : Forall2 inb (vbounds (split_lp m)) (flat zs) -> length (rxns m) = length zs.
Proof. cbn. intros H. apply flat_bounds_length_eq in H. rewrite map_length in H. exact H. Qed.

(* every vector within the variable bounds of cobrapy's LP is a list of (forward, reverse) pairs *)
Lemma flat_surj bs : forall x, Forall2 inb (flat_bounds bs) x -> exists zs, x = flat zs.
Proof.
  induction bs as [|[fb rb] bs IH]; intros x H; cbn in H.
  - inversion H; subst. exists []. reflexivity.
  - inversion H as [|? f ? x1 _ H1]; subst. inversion H1 as [|? r ? x2 _ H2]; subst.
    destruct (IH _ H2) as [zs ->]. exists ((f, r) :: zs). reflexivity.
Qed.

Lemma fix_row_ok m b zs : row_ok (flat zs) (fix_row m b) <-> frac_ok m b (nets zs).
Proof.
  unfold fix_row, frac_ok, row_ok, inb. destruct (maximize m); cbn [r_coef r_lo r_hi fst snd le_lo le_hi];
    rewrite dot_dup; tauto.
Qed.

Lemma pfba_lp_feasible_iff m b x :
  feasible (pfba_lp m b) x <-> feasible (split_lp m) x /\ row_ok x (fix_row m b).
Proof.
  unfold feasible, pfba_lp. cbn [vbounds rows]. rewrite Forall_app. split.
  - intros [A [B C]]. inversion C; subst. tauto.
  - intros [[A B] C]. repeat split; try assumption. constructor; [exact C|constructor].
Qed.

Lemma frac_ok_ext m b v w : Forall2 Qeq v w -> frac_ok m b v -> frac_ok m b w.
Proof. intros E. unfold frac_ok. pose proof (dot_ext (raw_obj m) _ _ E) as D. destruct (maximize m); lra. Qed.

(* (1) a feasible point of cobrapy's LP projects onto a feasible point of the specification whose total
       absolute flux is at most the LP's objective *)
Theorem pfba_lp_to_spec m b zs :
  valid_model m -> feasible (pfba_lp m b) (flat zs) ->
  pfba_feasible m b (nets zs) /\ l1 (nets zs) <= sum2 zs /\ value (pfba_lp m b) (flat zs) == - sum2 zs.
Proof.
  intros Hv H. apply pfba_lp_feasible_iff in H as [Hs Hr].
  destruct (split_to_net m zs Hv Hs) as [Hn _]. split; [split; [exact Hn|apply fix_row_ok; exact Hr]|].
  split.
  - destruct Hs as [Hb _]. apply (sum2_ge_l1 (rxns m)); assumption.
  - unfold value. cbn [obj pfba_lp]. apply dot_negones2. apply split_len. destruct Hs; assumption.
Qed.

(* (2) every feasible point of the specification is the projection of a feasible point of the LP with
       objective exactly its total absolute flux *)
Theorem pfba_spec_to_lp m b v :
  valid_model m -> pfba_feasible m b v ->
  feasible (pfba_lp m b) (flat (splits v)) /\ sum2 (splits v) == l1 v.
Proof.
  intros Hv [Hn Hf]. destruct (net_to_split m v Hv Hn) as [Hs _]. split; [|apply sum2_splits].
  apply pfba_lp_feasible_iff. split; [exact Hs|]. apply fix_row_ok.
  apply (frac_ok_ext m b v); [|exact Hf]. clear. induction v; cbn; constructor; [|assumption].
  destruct (qpos_spec a) as [_ [_ [E _]]]. lra.
Qed.

(* (3) an optimum of the LP cobrapy solves projects (forward - reverse) onto a minimiser of the total
       absolute flux, and the objective value is that total *)
Theorem pfba_lp_equiv m b zs :
  valid_model m -> is_opt (pfba_lp m b) (flat zs) ->
  pfba_opt m b (nets zs) /\ sum2 zs == l1 (nets zs) /\ - value (pfba_lp m b) (flat zs) == l1 (nets zs).
Proof.
  intros Hv [Hf Hopt]. destruct (pfba_lp_to_spec m b zs Hv Hf) as [Hsf [Hle Hval]].
  assert (Hmin : forall v', pfba_feasible m b v' -> sum2 zs <= l1 v').
  { intros v' Hv'. destruct (pfba_spec_to_lp m b v' Hv Hv') as [Hlf Hs].
    specialize (Hopt _ Hlf). destruct (pfba_lp_to_spec m b (splits v') Hv Hlf) as [_ [_ Hval']]. lra. }
  assert (Heq : sum2 zs == l1 (nets zs)) by (pose proof (Hmin _ Hsf); lra).
  split; [split; [exact Hsf|]|split; [exact Heq|lra]].
  intros v' Hv'. specialize (Hmin _ Hv'). lra.
Qed.

(* (4) conversely every minimiser of the specification lifts to an optimum of the LP *)
Theorem pfba_spec_opt_lifts m b v :
  valid_model m -> pfba_opt m b v -> is_opt (pfba_lp m b) (flat (splits v)).
Proof.
  intros Hv [Hf Hmin]. destruct (pfba_spec_to_lp m b v Hv Hf) as [Hlf Hs]. split; [exact Hlf|].
  intros x' Hx'. assert (Hx'' := Hx'). destruct Hx'' as [Hb _]. cbn [vbounds pfba_lp split_lp] in Hb.
  destruct (flat_surj _ _ Hb) as [zs' ->].
  destruct (pfba_lp_to_spec m b zs' Hv Hx') as [Hsf [Hle Hval]].
  destruct (pfba_lp_to_spec m b (splits v) Hv Hlf) as [_ [_ Hval']].
  specialize (Hmin _ Hsf). lra.
Qed.

(* (5) the LP is infeasible exactly when no flux distribution meets the fraction constraint *)
Theorem pfba_infeasible_iff m b :
  valid_model m -> (infeasible (pfba_lp m b) <-> forall v, ~ pfba_feasible m b v).
Proof.
  intros Hv. split.
  - intros Hi v Hf. destruct (pfba_spec_to_lp m b v Hv Hf) as [Hlf _]. exact (Hi _ Hlf).
  - intros Hn x Hx. assert (Hx' := Hx). destruct Hx' as [Hb _]. cbn [vbounds pfba_lp split_lp] in Hb.
    destruct (flat_surj _ _ Hb) as [zs ->]. destruct (pfba_lp_to_spec m b zs Hv Hx) as [Hsf _]. exact (Hn _ Hsf).
Qed.

(* ---- pfba(): what the caller receives, given what the solver holds after the two solves ---- *)
Lemma select_nets sel zs : select sel (nets zs) = match sel with None => nets zs | Some idx => map (fun i => nth i (nets zs) 0) idx end.
Proof. reflexivity. Qed.

Theorem pfba_sound exn_table m c fraction sr1 sr2 sel :
  let m' := set_objective m c in
  valid_model m' ->
  sr_status sr1 = Optimal -> sr_status sr2 = Optimal ->
  is_opt (pfba_lp m' (pfba_bound sr1 fraction)) (flat (sr_primal sr2)) ->
  sr_obj sr2 == - value (pfba_lp m' (pfba_bound sr1 fraction)) (flat (sr_primal sr2)) ->
  exists v, pfba_opt m' (sr_obj sr1 * fraction) v /\
            pfba exn_table sr1 sr2 sel = PfbaSol Optimal (sr_obj sr2) (select sel v) /\
            sr_obj sr2 == l1 v.
Proof.
  intros m' Hv S1 S2 Hopt Hobj. exists (nets (sr_primal sr2)).
  destruct (pfba_lp_equiv m' _ _ Hv Hopt) as [A [B C]]. split; [exact A|]. split.
  - unfold pfba, slim_optimize. rewrite S1, S2. cbn. rewrite S2. reflexivity.
  - unfold pfba_bound in *. lra.
Qed.

Theorem pfba_raises exn_table sr1 sr2 sel :
  (sr_status sr1 <> Optimal -> pfba exn_table sr1 sr2 sel = PfbaRaise (lookup_exn exn_table (sr_status sr1))) /\
  (sr_status sr1 = Optimal -> sr_status sr2 <> Optimal ->
   pfba exn_table sr1 sr2 sel = PfbaRaise (lookup_exn exn_table (sr_status sr2))).
Proof.
  unfold pfba, slim_optimize. split.
  - intros H. destruct (sr_status sr1); try congruence; reflexivity.
  - intros H1 H2. rewrite H1. destruct (sr_status sr2); try congruence; reflexivity.
Qed.
