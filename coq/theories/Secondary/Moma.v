(* Executable model of cobra.flux_analysis.moma (add_moma with linear=True, moma) and of
   util.solver.add_absolute_expression (property C09; quadratic MOMA is out of scope: no QP solver).

   add_moma(model, solution, linear=True):
       v = Variable("moma_old_objective")                                  free variable w
       c = Constraint(objective.expression - v, lb=0, ub=0)                 AuxLp.w_row
       model.objective = Objective(Zero, direction="min")
       for r in model.reactions:  flux = solution.fluxes[r.id]
           add_absolute_expression(model, r.flux_expression, name="moma_dist_"+r.id, difference=flux):
               variable   = Variable(name, lb=0, ub=None)
               abs_pos_:    expression - variable <= difference
               abs_neg_:    expression + variable >= difference
       objective coefficients 1.0 on every moma_dist_ variable                                   *)
From Coq Require Import QArith List Bool Lia Lqa.
From Cobra.LP Require Import Defs Cert Fba.
From Cobra.Optimize Require Import Model.
From Cobra.Secondary Require Import Aux Pfba AuxLp.
Import ListNotations.
Open Scope Q_scope.

Definition moma_aux (m : fbamodel) (ref : vec) : auxspec :=
  mkAux (NegInf, PosInf) (map (fun _ => (Fin 0, PosInf)) (rxns m))
        (fun i => (-1, NegInf, Fin (nth i ref 0)))
        (fun i => (1, Fin (nth i ref 0), PosInf)).
Definition moma_lp (m : fbamodel) (ref : vec) : lp := aux_lp m (moma_aux m ref).

(* ---- specification: min sum_i |v_i - ref_i| over the flux polytope of the model ---- *)
Definition dist (n : nat) (v ref : vec) : Q :=
  vsum (map (fun i => Qabs' (nth i v 0 - nth i ref 0)) (seq 0 n)).
Definition moma_opt (m : fbamodel) (ref v : vec) : Prop :=
  feasible (net_lp m) v /\
  forall v', feasible (net_lp m) v' -> dist (length (rxns m)) v ref <= dist (length (rxns m)) v' ref.

(* moma(): `with model: add_moma(...); solution = model.optimize()` -- Model.optimize returns
   get_solution of whatever the solver holds (a non-optimal status only warns)                 *)
Definition moma (sr : sresult) : solution := get_solution sr.
