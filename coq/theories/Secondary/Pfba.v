(* Executable model of cobra.flux_analysis.parsimonious (pfba, add_pfba) and of
   util.solver.fix_objective_as_constraint, on top of the exact LP layer (property C09).

   add_pfba(model, objective, fraction_of_optimum):
       if objective is not None: model.objective = objective          -> set_objective
       fix_objective_as_constraint(model, fraction=fraction)           -> fix_row (bound = optimum * fraction)
       model.objective = Objective(Zero, direction="min"); coefficient 1.0 on EVERY forward and
       reverse variable                                                -> negones2 (maximise the negated sum)
   pfba(): slim_optimize(error_value=None) (raises when not optimal), get_solution(reactions=...).  *)
From Coq Require Import QArith List Bool Lia Lqa.
From Cobra.LP Require Import Defs Cert Fba.
From Cobra.Optimize Require Import Model.
From Cobra.Secondary Require Import Aux.
Import ListNotations.
Open Scope Q_scope.

(* the objective expression itself (no sign): sum_i c_i (forward_i - reverse_i) *)
Definition raw_obj (m : fbamodel) : vec := map rx_obj (rxns m).

(* `model.objective = {reaction: coefficient}` (util.solver.set_objective, additive=False): a fresh
   objective with the CURRENT direction and the given coefficients (0 for unnamed reactions) *)
Fixpoint set_objs (rs : list rxn) (c : vec) : list rxn :=
  match rs with
  | [] => []
  | r :: rs' => mkRxn (rx_col r) (rx_lb r) (rx_ub r) (match c with q :: _ => q | [] => 0 end)
                :: set_objs rs' (match c with _ :: c' => c' | [] => [] end)
  end.
Definition set_objective (m : fbamodel) (c : option vec) : fbamodel :=
  match c with None => m | Some c => mkFba (nmets m) (set_objs (rxns m) c) (maximize m) end.

(* fix_objective_as_constraint: direction "max" -> lb = bound, ub = None; else ub = bound, lb = None;
   the constraint expression is the objective expression over the forward / reverse variables *)
Definition fix_row (m : fbamodel) (bound : Q) : row :=
  if maximize m then mkRow (dup (raw_obj m)) (Fin bound) PosInf
  else mkRow (dup (raw_obj m)) NegInf (Fin bound).

Fixpoint negones2 (rs : list rxn) : vec :=
  match rs with [] => [] | _ :: rs' => -1 :: -1 :: negones2 rs' end.

(* the problem in the solver after add_pfba (a minimisation = maximisation of the negated objective) *)
Definition pfba_lp (m : fbamodel) (bound : Q) : lp :=
  mkLP (vbounds (split_lp m)) (rows (split_lp m) ++ [fix_row m bound]) (negones2 (rxns m)).

Fixpoint sum2 (zs : list (Q * Q)) : Q :=
  match zs with [] => 0 | (f, r) :: zs' => f + r + sum2 zs' end.

(* ---- the specification problem: min { sum_i |v_i| : v in P(m), c.v >= / <= bound } ---- *)
Definition frac_ok (m : fbamodel) (bound : Q) (v : vec) : Prop :=
  if maximize m then bound <= dot (raw_obj m) v else dot (raw_obj m) v <= bound.
Definition frac_ok_b (m : fbamodel) (bound : Q) (v : vec) : bool :=
  if maximize m then Qle_bool bound (dot (raw_obj m) v) else Qle_bool (dot (raw_obj m) v) bound.
Definition pfba_feasible (m : fbamodel) (bound : Q) (v : vec) : Prop :=
  feasible (net_lp m) v /\ frac_ok m bound v.
Definition pfba_opt (m : fbamodel) (bound : Q) (v : vec) : Prop :=
  pfba_feasible m bound v /\ forall v', pfba_feasible m bound v' -> l1 v <= l1 v'.

(* ---- the bookkeeping of pfba() around the two solves ---- *)
Inductive pfba_out := PfbaRaise (e : exn) | PfbaSol (st : status) (objv : Q) (fluxes : vec).

Definition select (sel : option (list nat)) (v : vec) : vec :=
  match sel with None => v | Some idx => map (fun i => nth i v 0) idx end.

Section WithTable.
  Variable exn_table : list (status * exn).
  (* sr1: the solver after the slim_optimize inside fix_objective_as_constraint;
     sr2: the solver after the slim_optimize of the pFBA problem *)
  Definition pfba_bound (sr1 : sresult) (fraction : Q) : Q := sr_obj sr1 * fraction.
  Definition pfba (sr1 sr2 : sresult) (sel : option (list nat)) : pfba_out :=
    match slim_optimize exn_table sr1 false with
    | SlimValue _ =>
        match slim_optimize exn_table sr2 false with
        | SlimValue _ => let s := get_solution sr2 in PfbaSol (so_status s) (so_obj s) (select sel (so_flux s))
        | SlimRaise e => PfbaRaise e
        | SlimError => PfbaRaise ExOptimizationError
        end
    | SlimRaise e => PfbaRaise e
    | SlimError => PfbaRaise ExOptimizationError
    end.
End WithTable.
