(* Proofs about the summary model (C20). *)
From Coq Require Import ZArith List Bool QArith Qabs Lia Lqa Permutation Setoid Morphisms.
From Cobra.Summary Require Import Model.
Import ListNotations.
Open Scope Q_scope.

(* ------------------------------------------------------------------ booleans vs propositions *)
Lemma Qltb_iff a b : Qltb a b = true <-> a < b.
Proof.
  unfold Qltb. rewrite negb_true_iff. split; intro H.
  - apply Qnot_le_lt. intro Hle. apply Qle_bool_iff in Hle. congruence.
  - destruct (Qle_bool b a) eqn:E; auto. apply Qle_bool_iff in E. lra.
Qed.

Lemma Qltb_false a b : Qltb a b = false <-> b <= a.
Proof.
  unfold Qltb. rewrite negb_false_iff. apply Qle_bool_iff.
Qed.

Lemma Qle_bool_false a b : Qle_bool a b = false <-> b < a.
Proof.
  split; intro H.
  - apply Qnot_le_lt. intro Hle. apply Qle_bool_iff in Hle. congruence.
  - destruct (Qle_bool a b) eqn:E; auto. apply Qle_bool_iff in E. lra.
Qed.

Lemma Qeq_bool_false a b : Qeq_bool a b = false <-> ~ a == b.
Proof.
  split; intro H.
  - intro E. apply Qeq_bool_iff in E. congruence.
  - destruct (Qeq_bool a b) eqn:E; auto. apply Qeq_bool_iff in E. contradiction.
Qed.

Lemma Qabs_cases x : (0 <= x /\ Qabs x == x) \/ (x < 0 /\ Qabs x == - x).
Proof.
  destruct (Qlt_le_dec x 0) as [H|H].
  - right. split; auto. apply Qabs_neg. lra.
  - left. split; auto. apply Qabs_pos. exact H.
Qed.

Ltac qb :=
  repeat match goal with
  | H : Qltb _ _ = true |- _ => apply Qltb_iff in H
  | H : Qltb _ _ = false |- _ => apply Qltb_false in H
  | H : Qle_bool _ _ = true |- _ => apply Qle_bool_iff in H
  | H : Qle_bool _ _ = false |- _ => apply Qle_bool_false in H
  | H : Qeq_bool _ _ = true |- _ => apply Qeq_bool_iff in H
  | H : Qeq_bool _ _ = false |- _ => apply Qeq_bool_false in H
  end.

(* ------------------------------------------------------------------ tolerance zeroing *)
Lemma where_ge_zero_lt tol x : where_ge tol x = zero_lt tol x.
Proof.
  unfold where_ge, zero_lt, Qltb. destruct (Qle_bool tol (Qabs x)); reflexivity.
Qed.

Lemma where_ge_spec tol x :
  (tol <= Qabs x /\ where_ge tol x = x) \/ (Qabs x < tol /\ where_ge tol x = 0).
Proof.
  unfold where_ge. destruct (Qle_bool tol (Qabs x)) eqn:E; qb; auto.
Qed.

Lemma where_ge_close tol x : Qabs (where_ge tol x - x) <= Qabs x /\ (0 <= tol -> Qabs (where_ge tol x - x) <= tol).
Proof.
  destruct (where_ge_spec tol x) as [[H E]|[H E]]; rewrite E.
  - assert (Z0 : x - x == 0) by ring. rewrite Z0. cbn. split; [apply Qabs_nonneg | auto].
  - assert (Z0 : 0 - x == - x) by ring. rewrite Z0. rewrite Qabs_opp. split; lra.
Qed.

Lemma where_ge_mono tol x y : 0 <= tol -> x <= y -> where_ge tol x <= where_ge tol y.
Proof.
  intros Ht Hxy.
  destruct (where_ge_spec tol x) as [[Hx Ex]|[Hx Ex]]; rewrite Ex;
  destruct (where_ge_spec tol y) as [[Hy Ey]|[Hy Ey]]; rewrite Ey;
  destruct (Qabs_cases x) as [[? Ax]|[? Ax]]; destruct (Qabs_cases y) as [[? Ay]|[? Ay]]; lra.
Qed.

Lemma where_ge_sign tol x : 0 <= tol -> (0 <= x -> 0 <= where_ge tol x) /\ (x <= 0 -> where_ge tol x <= 0).
Proof.
  intros Ht. destruct (where_ge_spec tol x) as [[Hx Ex]|[Hx Ex]]; rewrite Ex; split; intros; lra.
Qed.

Lemma where_ge_id tol x : tol <= Qabs x \/ x == 0 -> where_ge tol x == x.
Proof.
  intros [H|H]; destruct (where_ge_spec tol x) as [[Hx Ex]|[Hx Ex]]; rewrite Ex; try reflexivity.
  - lra.
  - symmetry; exact H.
Qed.

(* ------------------------------------------------------------------ sums *)
Global Instance qsum_proper : Proper (Forall2 Qeq ==> Qeq) qsum.
Proof. intros l1 l2 H. induction H; cbn; [reflexivity | rewrite H, IHForall2; reflexivity]. Qed.

Lemma qsum_app a b : qsum (a ++ b) == qsum a + qsum b.
Proof. induction a; cbn; [ring | rewrite IHa; ring]. Qed.

Lemma qsum_perm a b : Permutation a b -> qsum a == qsum b.
Proof. induction 1; cbn; try lra. Qed.

Lemma qsum_map_ext {A} (f g : A -> Q) l : (forall x, In x l -> f x == g x) -> qsum (map f l) == qsum (map g l).
Proof.
  induction l; cbn; intros H; [reflexivity|]. rewrite (H a) by auto. rewrite IHl by auto. reflexivity.
Qed.

(* ------------------------------------------------------------------ sorting is a permutation *)
Lemma insert_perm r l : Permutation (insert_by_id r l) (r :: l).
Proof.
  induction l as [|h t IH]; cbn; auto. destruct (x_id r <=? x_id h)%Z; auto.
  rewrite IH. apply perm_swap.
Qed.

Lemma sort_perm l : Permutation (sort_by_id l) l.
Proof. induction l; cbn; auto. rewrite insert_perm. auto. Qed.

Definition sorted_ids (l : list rxn) : Prop :=
  forall i j a b, (i < j)%nat -> nth_error l i = Some a -> nth_error l j = Some b -> (x_id a <= x_id b)%Z.

Inductive Sorted_id : list rxn -> Prop :=
| SI_nil : Sorted_id []
| SI_cons r l : Sorted_id l -> (forall b, In b l -> (x_id r <= x_id b)%Z) -> Sorted_id (r :: l).

Lemma insert_sorted r l : Sorted_id l -> Sorted_id (insert_by_id r l).
Proof.
  induction 1 as [|h t Ht IH Hh]; cbn.
  - constructor; [constructor | intros b []].
  - destruct (x_id r <=? x_id h)%Z eqn:E.
    + apply Z.leb_le in E. constructor; [constructor; auto|].
      intros b [<-|Hb]; auto. specialize (Hh b Hb). lia.
    + apply Z.leb_gt in E. constructor; auto.
      intros b Hb. apply (Permutation_in _ (insert_perm r t)) in Hb. destruct Hb as [<-|Hb]; [lia | auto].
Qed.

Lemma sort_sorted l : Sorted_id (sort_by_id l).
Proof. induction l; cbn; [constructor | apply insert_sorted; auto]. Qed.

(* ------------------------------------------------------------------ the two frames *)
Lemma produced_consumed_disjoint r : is_produced r && is_consumed r = false.
Proof.
  unfold is_produced, is_consumed.
  destruct (Qltb 0 (s_flux r)) eqn:A; destruct (Qltb (s_flux r) 0) eqn:B;
  destruct (Qeq_bool (s_flux r) 0) eqn:C; destruct (Qltb 0 (s_factor r)) eqn:D;
  destruct (Qltb (s_factor r) 0) eqn:E; cbn; auto; qb; lra.
Qed.

Lemma produced_or_consumed r : ~ s_factor r == 0 -> xorb (is_produced r) (is_consumed r) = true.
Proof.
  intro Hf. unfold is_produced, is_consumed.
  destruct (Qltb 0 (s_flux r)) eqn:A; destruct (Qltb (s_flux r) 0) eqn:B;
  destruct (Qeq_bool (s_flux r) 0) eqn:C; destruct (Qltb 0 (s_factor r)) eqn:D;
  destruct (Qltb (s_factor r) 0) eqn:E; cbn; auto; qb; try lra;
  try (exfalso; apply Hf; lra); try (exfalso; apply C; lra).
Qed.

Lemma neither_iff r : is_produced r = false /\ is_consumed r = false <-> s_flux r == 0 /\ s_factor r == 0.
Proof.
  unfold is_produced, is_consumed. split.
  - intros [H1 H2]. apply orb_false_iff in H1, H2. destruct H1 as [A C], H2 as [B D].
    qb. assert (F : s_flux r == 0) by lra. split; auto.
    apply Qeq_bool_iff in F. rewrite F in C, D. cbn in C, D. qb. lra.
  - intros [F G]. split; apply orb_false_iff; split; try (apply Qltb_false; lra);
    apply andb_false_iff; right; apply Qltb_false; lra.
Qed.

Lemma is_produced_iff r : is_produced r = true <-> 0 < s_flux r \/ (s_flux r == 0 /\ 0 < s_factor r).
Proof.
  unfold is_produced. rewrite orb_true_iff, andb_true_iff, !Qltb_iff, Qeq_bool_iff. tauto.
Qed.

Lemma is_consumed_iff r : is_consumed r = true <-> s_flux r < 0 \/ (s_flux r == 0 /\ s_factor r < 0).
Proof.
  unfold is_consumed. rewrite orb_true_iff, andb_true_iff, !Qltb_iff, Qeq_bool_iff. tauto.
Qed.

Lemma partition_perm {A} (p q : A -> bool) l :
  (forall x, In x l -> xorb (p x) (q x) = true) -> Permutation (filter p l ++ filter q l) l.
Proof.
  induction l as [|a l IH]; cbn; intros H; auto.
  assert (Ha := H a (or_introl eq_refl)).
  assert (IH' := IH (fun x Hx => H x (or_intror Hx))).
  destruct (p a), (q a); cbn in *; try discriminate.
  - constructor; exact IH'.
  - rewrite <- Permutation_middle. constructor; exact IH'.
Qed.

(* ------------------------------------------------------------------ rows *)
Lemma scale_row_rxn tol rg rid mid c v : s_rxn (scale_row tol rg rid mid c v) = rid.
Proof. unfold scale_row. destruct rg as [[mn mx]|]; reflexivity. Qed.
Lemma scale_row_met tol rg rid mid c v : s_met (scale_row tol rg rid mid c v) = mid.
Proof. unfold scale_row. destruct rg as [[mn mx]|]; reflexivity. Qed.
Lemma scale_row_factor tol rg rid mid c v : s_factor (scale_row tol rg rid mid c v) = c.
Proof. unfold scale_row. destruct rg as [[mn mx]|]; reflexivity. Qed.
Lemma scale_row_flux tol rg rid mid c v : s_flux (scale_row tol rg rid mid c v) = where_ge tol (v * c).
Proof. unfold scale_row. destruct rg as [[mn mx]|]; cbn; [|rewrite <- where_ge_zero_lt]; reflexivity. Qed.

Lemma scale_row_range tol mn mx rid mid c v :
  s_range (scale_row tol (Some (mn, mx)) rid mid c v) =
  Some (if Qltb c 0 then (where_ge tol mx * c, where_ge tol mn * c)
        else (where_ge tol mn * c, where_ge tol mx * c)).
Proof. unfold scale_row. cbn. destruct (Qltb c 0); reflexivity. Qed.

Lemma scale_row_range_none tol rid mid c v : s_range (scale_row tol None rid mid c v) = None.
Proof. reflexivity. Qed.

(* model summary: one row per boundary reaction, in identifier order *)
Lemma boundary_row_ids tol s fva r : is_boundary r = true ->
  map s_rxn (boundary_row tol s fva r) = [x_id r].
Proof.
  unfold is_boundary, boundary_row. destruct (x_mets r) as [|[m c] [|? ?]]; try discriminate.
  intros _. cbn. rewrite scale_row_rxn. reflexivity.
Qed.

Lemma model_rows_ids_aux tol s fva l : (forall r, In r l -> is_boundary r = true) ->
  map s_rxn (flat_map (boundary_row tol s fva) l) = map x_id l.
Proof.
  induction l as [|r l IH]; cbn; intros H; auto.
  rewrite map_app, boundary_row_ids by auto. cbn. rewrite IH by auto. reflexivity.
Qed.

Lemma boundary_all rs r : In r (boundary rs) -> In r rs /\ is_boundary r = true.
Proof.
  unfold boundary. intros H. apply (Permutation_in _ (sort_perm _)) in H. apply filter_In in H. exact H.
Qed.

Lemma model_rows_ids tol rs s fva : map s_rxn (model_rows tol rs s fva) = map x_id (boundary rs).
Proof. apply model_rows_ids_aux. intros r H. apply boundary_all in H. tauto. Qed.

Lemma model_row_in tol rs s fva row : In row (model_rows tol rs s fva) ->
  exists r m c, In r rs /\ x_mets r = [(m, c)] /\
    row = scale_row tol (row_range fva (x_id r)) (x_id r) m c (getq (x_id r) s).
Proof.
  unfold model_rows. intros H. apply in_flat_map in H. destruct H as [r [Hr Hrow]].
  apply boundary_all in Hr. destruct Hr as [Hin Hb].
  unfold boundary_row in Hrow. unfold is_boundary in Hb.
  destruct (x_mets r) as [|[m c] [|? ?]] eqn:E; try discriminate.
  destruct Hrow as [<-|[]]. exists r, m, c. auto.
Qed.

Lemma met_rxns_all rs m r : In r (met_rxns rs m) <-> In r rs /\ has_met m r = true.
Proof.
  unfold met_rxns. split; intro H.
  - apply (Permutation_in _ (sort_perm _)) in H. apply filter_In in H. exact H.
  - apply (Permutation_in _ (Permutation_sym (sort_perm _))). apply filter_In. exact H.
Qed.

Lemma met_rows_ids tol rs s fva m : map s_rxn (met_rows tol rs s fva m) = map x_id (met_rxns rs m).
Proof.
  unfold met_rows. rewrite map_map. apply map_ext. intros r. unfold met_row. apply scale_row_rxn.
Qed.

(* ------------------------------------------------------------------ objective value *)
Lemma objective_value_sum_aux obj s acc :
  fold_left (fun a rc => a + getq (fst rc) s * snd rc) obj acc ==
  acc + qsum (map (fun rc => snd rc * getq (fst rc) s) obj).
Proof.
  revert acc. induction obj as [|x obj IH]; intros acc; cbn; [ring|]. rewrite IH. ring.
Qed.

Lemma objective_value_sum obj s :
  objective_value obj s == qsum (map (fun rc => snd rc * getq (fst rc) s) obj).
Proof. unfold objective_value. rewrite objective_value_sum_aux. ring. Qed.

(* ------------------------------------------------------------------ balance *)
Definition flux_total (rows : list srow) : Q := qsum (map s_flux rows).

Lemma split_total rows :
  flux_total (filter is_produced rows) + flux_total (filter is_consumed rows) == flux_total rows.
Proof.
  unfold flux_total. induction rows as [|r l IH]; cbn; [ring|].
  pose proof (produced_consumed_disjoint r) as D.
  destruct (is_produced r) eqn:P; destruct (is_consumed r) eqn:C; cbn in *; try discriminate.
  - rewrite <- IH. ring.
  - rewrite <- IH. ring.
  - destruct (proj1 (neither_iff r) (conj P C)) as [F _]. rewrite F, <- IH. ring.
Qed.

Lemma produced_total_nonneg rows : 0 <= flux_total (filter is_produced rows).
Proof.
  unfold flux_total. induction rows as [|r l IH]; cbn; [lra|].
  destruct (is_produced r) eqn:P; cbn; auto. apply is_produced_iff in P. lra.
Qed.

Lemma consumed_total_nonpos rows : flux_total (filter is_consumed rows) <= 0.
Proof.
  unfold flux_total. induction rows as [|r l IH]; cbn; [lra|].
  destruct (is_consumed r) eqn:P; cbn; auto. apply is_consumed_iff in P. lra.
Qed.

(* raw (unzeroed) scaled fluxes of the metabolite's reactions *)
Definition raw_total (s : solution) (m : Z) (l : list rxn) : Q :=
  qsum (map (fun r => getq (x_id r) s * coef m r) l).

Lemma met_rows_total_close tol s fva m l : 0 <= tol ->
  Qabs (flux_total (map (met_row tol s fva m) l) - raw_total s m l) <= inject_Z (Z.of_nat (length l)) * tol.
Proof.
  intros Ht. unfold flux_total, raw_total. induction l as [|r l IH].
  - cbn. unfold inject_Z. lra.
  - cbn [map qsum length].
    unfold met_row at 1. rewrite scale_row_flux.
    set (x := getq (x_id r) s * coef m r).
    set (A := qsum (map s_flux (map (met_row tol s fva m) l))) in *.
    set (B := qsum (map (fun r => getq (x_id r) s * coef m r) l)) in *.
    assert (E : where_ge tol x + A - (x + B) == (where_ge tol x - x) + (A - B)) by ring.
    rewrite E. eapply Qle_trans; [apply Qabs_triangle|].
    destruct (where_ge_close tol x) as [_ Hc]. specialize (Hc Ht).
    rewrite Nat2Z.inj_succ. unfold Z.succ. rewrite inject_Z_plus. cbn [inject_Z]. 
    assert (E2 : (inject_Z (Z.of_nat (length l)) + inject_Z 1) * tol == tol + inject_Z (Z.of_nat (length l)) * tol)
      by (unfold inject_Z at 2; ring).
    rewrite E2. lra.
Qed.

Lemma met_rows_total_exact tol s fva m l :
  (forall r, In r l -> tol <= Qabs (getq (x_id r) s * coef m r) \/ getq (x_id r) s * coef m r == 0) ->
  flux_total (map (met_row tol s fva m) l) == raw_total s m l.
Proof.
  unfold flux_total, raw_total. induction l as [|r l IH]; intros H; cbn [map qsum]; [reflexivity|].
  assert (E1 : s_flux (met_row tol s fva m r) == getq (x_id r) s * coef m r).
  { unfold met_row. rewrite scale_row_flux. apply where_ge_id. apply H. left; reflexivity. }
  rewrite E1. rewrite IH by (intros; apply H; right; assumption). reflexivity.
Qed.

(* steady state of metabolite m over the whole network = over its own reactions *)
Lemma lookup_none_coef m r : has_met m r = false -> coef m r = 0.
Proof. unfold has_met, coef, getq. destruct (lookup m (x_mets r)); [discriminate | reflexivity]. Qed.

Lemma raw_total_filter s m rs : raw_total s m (filter (has_met m) rs) == raw_total s m rs.
Proof.
  unfold raw_total. induction rs as [|r l IH]; cbn; [reflexivity|].
  destruct (has_met m r) eqn:E; cbn; rewrite IH; [reflexivity|].
  rewrite (lookup_none_coef _ _ E). ring.
Qed.

Lemma raw_total_met_rxns s m rs : raw_total s m (met_rxns rs m) == raw_total s m rs.
Proof.
  transitivity (raw_total s m (filter (has_met m) rs)); [|apply raw_total_filter].
  unfold raw_total, met_rxns. apply qsum_perm.
  apply Permutation_map. apply sort_perm.
Qed.

(* ------------------------------------------------------------------ percent *)
Definition pct_or_zero (p : prow) : Q := match p_percent p with Some q => q | None => 0 end.

Lemma qsum_div l t : ~ t == 0 -> qsum (map (fun x => x / t) l) == qsum l / t.
Proof. intros Ht. induction l; cbn; [field; auto | rewrite IHl; field; auto]. Qed.

Lemma with_percent_rows rows : map p_row (with_percent rows) = rows.
Proof. unfold with_percent. rewrite map_map. cbn. apply map_id. Qed.

Lemma with_percent_sum rows : ~ abs_total rows == 0 ->
  (forall p, In p (with_percent rows) -> p_percent p = Some (Qabs (s_flux (p_row p)) / abs_total rows)) /\
  qsum (map pct_or_zero (with_percent rows)) == 1.
Proof.
  intros Ht. unfold with_percent. apply Qeq_bool_false in Ht. rewrite Ht. apply Qeq_bool_false in Ht. split.
  - intros p Hp. apply in_map_iff in Hp. destruct Hp as [r [<- _]]. reflexivity.
  - rewrite map_map. unfold pct_or_zero. cbn.
    rewrite <- (map_map (fun r => Qabs (s_flux r)) (fun x => x / abs_total rows)).
    rewrite qsum_div by exact Ht. unfold abs_total. field. exact Ht.
Qed.

Lemma with_percent_nan rows : abs_total rows == 0 ->
  forall p, In p (with_percent rows) -> p_percent p = None.
Proof.
  intros Ht p Hp. unfold with_percent in Hp. apply Qeq_bool_iff in Ht. rewrite Ht in Hp.
  apply in_map_iff in Hp. destruct Hp as [r [<- _]]. reflexivity.
Qed.

(* ------------------------------------------------------------------ fva scaling *)
Lemma range_ordered tol mn mx c lo hi : 0 <= tol -> mn <= mx ->
  (if Qltb c 0 then (where_ge tol mx * c, where_ge tol mn * c)
   else (where_ge tol mn * c, where_ge tol mx * c)) = (lo, hi) -> lo <= hi.
Proof.
  intros Ht Hm E. pose proof (where_ge_mono tol mn mx Ht Hm) as M.
  destruct (Qltb c 0) eqn:C; qb; inversion E; subst; nra.
Qed.

Lemma range_contains_exact tol mn mx c v lo hi :
  mn <= v <= mx ->
  where_ge tol mn == mn -> where_ge tol mx == mx -> where_ge tol (v * c) == v * c ->
  (if Qltb c 0 then (where_ge tol mx * c, where_ge tol mn * c)
   else (where_ge tol mn * c, where_ge tol mx * c)) = (lo, hi) ->
  lo <= where_ge tol (v * c) <= hi.
Proof.
  intros Hv E1 E2 E3 E. rewrite E3.
  destruct (Qltb c 0) eqn:C; qb; inversion E; subst; rewrite ?E1, ?E2; nra.
Qed.

Lemma range_contains_tol tol mn mx c v lo hi : 0 <= tol ->
  mn <= v <= mx ->
  (if Qltb c 0 then (where_ge tol mx * c, where_ge tol mn * c)
   else (where_ge tol mn * c, where_ge tol mx * c)) = (lo, hi) ->
  lo - tol * (1 + Qabs c) <= where_ge tol (v * c) <= hi + tol * (1 + Qabs c).
Proof.
  intros Ht Hv E.
  destruct (where_ge_close tol mn) as [_ A1]. specialize (A1 Ht).
  destruct (where_ge_close tol mx) as [_ A2]. specialize (A2 Ht).
  destruct (where_ge_close tol (v * c)) as [_ A3]. specialize (A3 Ht).
  set (zmn := where_ge tol mn) in *. set (zmx := where_ge tol mx) in *. set (zf := where_ge tol (v * c)) in *.
  destruct (Qabs_cases (zmn - mn)) as [[? B1]|[? B1]]; rewrite B1 in A1;
  destruct (Qabs_cases (zmx - mx)) as [[? B2]|[? B2]]; rewrite B2 in A2;
  destruct (Qabs_cases (zf - v * c)) as [[? B3]|[? B3]]; rewrite B3 in A3;
  destruct (Qabs_cases c) as [[? B4]|[? B4]]; rewrite B4;
  destruct (Qltb c 0) eqn:C; qb; inversion E; subst; try lra; split; nra.
Qed.

(* ------------------------------------------------------------------ which frame a row goes to *)
Lemma row_side_produced tol rg rid mid c v : 0 <= tol ->
  (is_produced (scale_row tol rg rid mid c v) = true <->
   (0 < v * c /\ tol <= v * c) \/ ((Qabs (v * c) < tol \/ v * c == 0) /\ 0 < c)).
Proof.
  intros Ht. rewrite is_produced_iff, scale_row_flux, scale_row_factor.
  destruct (where_ge_spec tol (v * c)) as [[Hx Ex]|[Hx Ex]]; rewrite Ex;
  destruct (Qabs_cases (v * c)) as [[Hs Ea]|[Hs Ea]]; rewrite Ea in Hx; rewrite ?Ea;
  (split; [intros [H1|[H1 H2]] | intros [[H1 H2]|[[H1|H1] H2]]]);
  try lra;
  try (left; lra); try (left; split; lra);
  try (right; split; [right; lra | lra]); try (right; split; [left; lra | lra]); try (right; split; lra).
Qed.

Lemma row_side_consumed tol rg rid mid c v : 0 <= tol ->
  (is_consumed (scale_row tol rg rid mid c v) = true <->
   (v * c < 0 /\ tol <= - (v * c)) \/ ((Qabs (v * c) < tol \/ v * c == 0) /\ c < 0)).
Proof.
  intros Ht. rewrite is_consumed_iff, scale_row_flux, scale_row_factor.
  destruct (where_ge_spec tol (v * c)) as [[Hx Ex]|[Hx Ex]]; rewrite Ex;
  destruct (Qabs_cases (v * c)) as [[Hs Ea]|[Hs Ea]]; rewrite Ea in Hx; rewrite ?Ea;
  (split; [intros [H1|[H1 H2]] | intros [[H1 H2]|[[H1|H1] H2]]]);
  try lra;
  try (left; lra); try (left; split; lra);
  try (right; split; [right; lra | lra]); try (right; split; [left; lra | lra]); try (right; split; lra).
Qed.

Lemma NoDup_map_filter {A B} (f : A -> B) (p : A -> bool) l : NoDup (map f l) -> NoDup (map f (filter p l)).
Proof.
  induction l as [|a l IH]; cbn; intros H; auto. inversion H as [|? ? Hn Hd]; subst.
  destruct (p a); cbn; auto. constructor; auto.
  intro Hin. apply Hn. apply in_map_iff in Hin. destruct Hin as [x [E Hx]]. apply filter_In in Hx.
  apply in_map_iff. exists x. tauto.
Qed.

Lemma frames_partition (rows : list srow) :
  (forall r, In r rows -> ~ s_factor r == 0) ->
  Permutation (map s_rxn (filter is_produced rows) ++ map s_rxn (filter is_consumed rows)) (map s_rxn rows).
Proof.
  intros H. rewrite <- map_app. apply Permutation_map. apply partition_perm.
  intros x Hx. apply produced_or_consumed. auto.
Qed.

Lemma model_partition tol rs s fva :
  (forall r m c, In r rs -> x_mets r = [(m, c)] -> ~ c == 0) ->
  let rows := model_rows tol rs s fva in
  Permutation (map s_rxn (uptake rows) ++ map s_rxn (secretion rows)) (map x_id (filter is_boundary rs)) /\
  (NoDup (map x_id rs) -> NoDup (map s_rxn (uptake rows) ++ map s_rxn (secretion rows))) /\
  (forall row, In row rows -> is_produced row && is_consumed row = false).
Proof.
  intros Hc rows.
  assert (P : Permutation (map s_rxn (uptake rows) ++ map s_rxn (secretion rows)) (map x_id (filter is_boundary rs))).
  { unfold uptake, secretion. rewrite frames_partition.
    - subst rows. rewrite model_rows_ids. apply Permutation_map. apply sort_perm.
    - intros row Hrow. subst rows. apply model_row_in in Hrow. destruct Hrow as [r [m [c [Hin [Hm ->]]]]].
      rewrite scale_row_factor. eauto. }
  split; [exact P|]. split.
  - intros Hnd. eapply Permutation_NoDup; [apply Permutation_sym; exact P|]. apply NoDup_map_filter. exact Hnd.
  - intros row _. apply produced_consumed_disjoint.
Qed.

Lemma met_row_in tol rs s fva m row : In row (met_rows tol rs s fva m) ->
  exists r, In r rs /\ has_met m r = true /\
    row = scale_row tol (row_range fva (x_id r)) (x_id r) m (coef m r) (getq (x_id r) s).
Proof.
  unfold met_rows. intros H. apply in_map_iff in H. destruct H as [r [<- Hr]].
  apply met_rxns_all in Hr. exists r. unfold met_row. tauto.
Qed.

Lemma met_partition tol rs s fva m :
  (forall r, In r rs -> has_met m r = true -> ~ coef m r == 0) ->
  let rows := met_rows tol rs s fva m in
  Permutation (map s_rxn (filter is_produced rows) ++ map s_rxn (filter is_consumed rows))
              (map x_id (filter (has_met m) rs)) /\
  (NoDup (map x_id rs) ->
   NoDup (map s_rxn (filter is_produced rows) ++ map s_rxn (filter is_consumed rows))) /\
  (forall row, In row rows -> is_produced row && is_consumed row = false).
Proof.
  intros Hc rows.
  assert (P : Permutation (map s_rxn (filter is_produced rows) ++ map s_rxn (filter is_consumed rows))
                          (map x_id (filter (has_met m) rs))).
  { rewrite frames_partition.
    - subst rows. rewrite met_rows_ids. apply Permutation_map. apply sort_perm.
    - intros row Hrow. subst rows. apply met_row_in in Hrow. destruct Hrow as [r [Hin [Hm ->]]].
      rewrite scale_row_factor. auto. }
  split; [exact P|]. split.
  - intros Hnd. eapply Permutation_NoDup; [apply Permutation_sym; exact P|]. apply NoDup_map_filter. exact Hnd.
  - intros row _. apply produced_consumed_disjoint.
Qed.

(* ------------------------------------------------------------------ balance, assembled *)
Lemma met_balance tol rs s fva m : 0 <= tol ->
  raw_total s m rs == 0 ->
  let rows := met_rows tol rs s fva m in
  let P := flux_total (filter is_produced rows) in
  let C := flux_total (filter is_consumed rows) in
  0 <= P /\ C <= 0 /\
  Qabs (P - Qabs C) <= inject_Z (Z.of_nat (length rows)) * tol /\
  ((forall r, In r rs -> has_met m r = true ->
      tol <= Qabs (getq (x_id r) s * coef m r) \/ getq (x_id r) s * coef m r == 0) -> P == Qabs C).
Proof.
  intros Ht Hss rows P C.
  pose proof (produced_total_nonneg rows) as HP. pose proof (consumed_total_nonpos rows) as HC.
  pose proof (split_total rows) as HS. fold P in HP, HS. fold C in HC, HS.
  assert (EC : Qabs C == - C) by (apply Qabs_neg; exact HC).
  split; [exact HP|]. split; [exact HC|]. split.
  - pose proof (met_rows_total_close tol s fva m (met_rxns rs m) Ht) as Hcl.
    fold (met_rows tol rs s fva m) in Hcl. fold rows in Hcl.
    rewrite raw_total_met_rxns, Hss in Hcl.
    assert (L : length rows = length (met_rxns rs m)) by (subst rows; unfold met_rows; apply map_length).
    rewrite L. assert (E : P - Qabs C == flux_total rows - 0) by (rewrite EC, <- HS; ring).
    rewrite E. exact Hcl.
  - intros Hex. rewrite EC.
    assert (T : flux_total rows == 0).
    { subst rows. unfold met_rows. rewrite met_rows_total_exact.
      - rewrite raw_total_met_rxns. exact Hss.
      - intros r Hr. apply met_rxns_all in Hr. destruct Hr. auto. }
    lra.
Qed.
