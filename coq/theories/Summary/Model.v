(* Executable model of cobra.summary: ModelSummary._generate and MetaboliteSummary._generate
   (src/cobra/summary/model_summary.py, metabolite_summary.py), ReactionSummary._generate, over Q.

   Frames are lists of rows.  Reaction / metabolite identifiers are integers whose order is the
   string order of the identifiers (the harness chooses the codes that way), because the code sorts
   the reactions by identifier.  Nothing in this file is a theorem.                                *)
From Coq Require Import ZArith List Bool QArith Qabs.
Import ListNotations.
Open Scope Q_scope.

(* ---------------------------------------------------------------- comparisons as booleans *)
Definition Qltb (a b : Q) : bool := negb (Qle_bool b a).

(* pandas: view.where(view.abs() >= tol, 0)           (fva branch of _generate) *)
Definition where_ge (tol x : Q) : Q := if Qle_bool tol (Qabs x) then x else 0.
(* pandas: flux.loc[flux.abs() < tol, "flux"] = 0     (branch without fva)       *)
Definition zero_lt (tol x : Q) : Q := if Qltb (Qabs x) tol then 0 else x.

(* ---------------------------------------------------------------- the network as the summary sees it *)
Record rxn := mkR { x_id : Z; x_mets : list (Z * Q) }.      (* metabolite code, coefficient *)

Fixpoint lookup {A} (k : Z) (l : list (Z * A)) : option A :=
  match l with [] => None | (a, b) :: r => if (a =? k)%Z then Some b else lookup k r end.

Definition getq (k : Z) (l : list (Z * Q)) : Q := match lookup k l with Some q => q | None => 0 end.
Definition has_met (m : Z) (r : rxn) : bool := match lookup m (x_mets r) with Some _ => true | None => false end.
(* Reaction.get_coefficient (KeyError when absent; absent never happens where the code calls it) *)
Definition coef (m : Z) (r : rxn) : Q := getq m (x_mets r).

(* Reaction.boundary: exactly one metabolite *)
Definition is_boundary (r : rxn) : bool := match x_mets r with [_] => true | _ => false end.

(* sorted(..., key=attrgetter("id")) *)
Fixpoint insert_by_id (r : rxn) (l : list rxn) : list rxn :=
  match l with
  | [] => [r]
  | h :: t => if (x_id r <=? x_id h)%Z then r :: l else h :: insert_by_id r t
  end.
Definition sort_by_id (l : list rxn) : list rxn := fold_right insert_by_id [] l.

Definition solution := list (Z * Q).              (* reaction code -> flux *)
Definition fva_frame := list (Z * (Q * Q)).       (* reaction code -> (minimum, maximum) *)
Definition get_range (k : Z) (f : fva_frame) : Q * Q :=
  match lookup k f with Some p => p | None => (0, 0) end.

(* ---------------------------------------------------------------- one row of the `flux` frame *)
Record srow := mkRow { s_rxn : Z; s_met : Z; s_factor : Q; s_flux : Q; s_range : option (Q * Q) }.

(* flux["flux"] *= flux["factor"]; tolerance zeroing; (fva) scaling of minimum/maximum by the
   factor and swap where the factor is negative.  `+= 0` (negative zero) has no counterpart in Q. *)
Definition scale_row (tol : Q) (range : option (Q * Q)) (rid mid : Z) (factor v : Q) : srow :=
  let f0 := v * factor in
  match range with
  | None => mkRow rid mid factor (zero_lt tol f0) None
  | Some (mn, mx) =>
      let f := where_ge tol f0 in
      let mn0 := where_ge tol mn in
      let mx0 := where_ge tol mx in
      let mn1 := mn0 * factor in
      let mx1 := mx0 * factor in
      let negative := Qltb factor 0 in
      (* tmp = maximum[negative]; maximum[negative] = minimum[negative]; minimum[negative] = tmp *)
      let mx2 := if negative then mn1 else mx1 in
      let mn2 := if negative then mx1 else mn1 in
      mkRow rid mid factor f (Some (mn2, mx2))
  end.

Definition is_produced (r : srow) : bool :=
  Qltb 0 (s_flux r) || (Qeq_bool (s_flux r) 0 && Qltb 0 (s_factor r)).
Definition is_consumed (r : srow) : bool :=
  Qltb (s_flux r) 0 || (Qeq_bool (s_flux r) 0 && Qltb (s_factor r) 0).

Definition row_range (fva : option fva_frame) (rid : Z) : option (Q * Q) :=
  match fva with None => None | Some f => Some (get_range rid f) end.

(* ---------------------------------------------------------------- ModelSummary._generate *)
Definition boundary (rs : list rxn) : list rxn := sort_by_id (filter is_boundary rs).

Definition boundary_row (tol : Q) (s : solution) (fva : option fva_frame) (r : rxn) : list srow :=
  match x_mets r with
  | [(m, c)] => [scale_row tol (row_range fva (x_id r)) (x_id r) m c (getq (x_id r) s)]
  | _ => []
  end.

Definition model_rows (tol : Q) (rs : list rxn) (s : solution) (fva : option fva_frame) : list srow :=
  flat_map (boundary_row tol s fva) (boundary rs).

Definition uptake (rows : list srow) : list srow := filter is_produced rows.
Definition secretion (rows : list srow) : list srow := filter is_consumed rows.

(* sum(solution[rxn.id] * coef for rxn, coef in objective.items()) *)
Definition objective_value (obj : list (Z * Q)) (s : solution) : Q :=
  fold_left (fun acc rc => acc + getq (fst rc) s * snd rc) obj 0.

(* ---------------------------------------------------------------- MetaboliteSummary._generate *)
Definition met_rxns (rs : list rxn) (m : Z) : list rxn := sort_by_id (filter (has_met m) rs).

Definition met_row (tol : Q) (s : solution) (fva : option fva_frame) (m : Z) (r : rxn) : srow :=
  scale_row tol (row_range fva (x_id r)) (x_id r) m (coef m r) (getq (x_id r) s).

Definition met_rows (tol : Q) (rs : list rxn) (s : solution) (fva : option fva_frame) (m : Z) : list srow :=
  map (met_row tol s fva m) (met_rxns rs m).

Fixpoint qsum (l : list Q) : Q := match l with [] => 0 | x :: r => x + qsum r end.
Definition abs_total (rows : list srow) : Q := qsum (map (fun r => Qabs (s_flux r)) rows).

(* percent = |flux| / sum |flux|  --  0/0 is NaN in pandas: None here *)
Record prow := mkP { p_row : srow; p_percent : option Q }.
Definition with_percent (rows : list srow) : list prow :=
  let total := abs_total rows in
  map (fun r => mkP r (if Qeq_bool total 0 then None else Some (Qabs (s_flux r) / total))) rows.

Definition producing (rows : list srow) : list prow := with_percent (filter is_produced rows).
Definition consuming (rows : list srow) : list prow := with_percent (filter is_consumed rows).

(* ---------------------------------------------------------------- ReactionSummary._generate *)
(* flux joined (left join) with the fva frame and NOT passed through `where`: a reaction without a
   row in the frame keeps NaN minimum / maximum (inner None); no fva = no range columns (outer None).
   In the model / metabolite summaries the same missing row becomes the range (0, 0), because
   `view.where(view.abs() >= tol, 0)` replaces NaN by 0: that is `get_range`'s default above.   *)
Definition reaction_row (s : solution) (fva : option fva_frame) (rid : Z) : Q * option (option (Q * Q)) :=
  (getq rid s, match fva with None => None | Some f => Some (lookup rid f) end).

(* _string_flux after the repair of the KeyError (commit "ReactionSummary renders a flux below the
   threshold as zero"): the row is displayed unchanged when |flux| (or, with fva, |minimum| or
   |maximum|) reaches the threshold; otherwise zeros are displayed.  NaN never reaches a threshold. *)
Definition reaction_display (threshold : Q) (row : Q * option (option (Q * Q))) : Q * option (option (Q * Q)) :=
  let shown x := Qle_bool threshold (Qabs x) in
  match snd row with
  | None => if shown (fst row) then row else (0, None)
  | Some None => if shown (fst row) then row else (0, Some (Some (0, 0)))
  | Some (Some (a, b)) => if shown (fst row) || shown a || shown b then row else (0, Some (Some (0, 0)))
  end.
