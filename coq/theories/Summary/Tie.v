(* The comparison / scaling skeleton regenerated from /repo/src/cobra/summary/*.py
   (Gen/SummaryGen.v, harness/tables_summary.py) coincides with the hand-written model. *)
From Coq Require Import ZArith List Bool QArith Qabs.
From Cobra.Summary Require Import Model.
From Cobra.Gen Require Import SummaryGen.
Open Scope Q_scope.

Definition agrees
  (gp gc gn : Q -> Q -> bool) (gs : Q -> Q -> Q) (gk gz : Q -> Q -> bool) : Prop :=
  (forall r, is_produced r = gp (s_flux r) (s_factor r)) /\
  (forall r, is_consumed r = gc (s_flux r) (s_factor r)) /\
  (forall tol mn mx rid mid c v,
     scale_row tol (Some (mn, mx)) rid mid c v =
     let f := gs v c in
     let z x := if gk tol x then x else 0 in
     let neg := gn f c in
     mkRow rid mid c (z f) (Some (if neg then z mx * c else z mn * c, if neg then z mn * c else z mx * c))) /\
  (forall tol rid mid c v,
     scale_row tol None rid mid c v =
     let f := gs v c in mkRow rid mid c (if gz tol f then 0 else f) None).

Lemma model_summary_source_agrees :
  agrees msum_is_produced msum_is_consumed msum_negative msum_scale msum_keep_fva msum_zero_nofva.
Proof. repeat split. Qed.

Lemma metabolite_summary_source_agrees :
  agrees metsum_is_produced metsum_is_consumed metsum_negative metsum_scale metsum_keep_fva metsum_zero_nofva.
Proof. repeat split. Qed.
