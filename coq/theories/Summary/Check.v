(* Correspondence + monitor functions for C20, evaluated by vm_compute on what the harness
   observed of the real ModelSummary / MetaboliteSummary / ReactionSummary.  Nothing here is a
   theorem.  Codes: 1 model and implementation differ; 2 partition; 3 flux = solution flux x
   coefficient; 4 balance; 5 percent; 6 fva scaling; 7 a rendering raised; 8 objective value.   *)
From Coq Require Import ZArith List Bool QArith Qabs.
From Cobra.Summary Require Import Model.
Import ListNotations.
Open Scope Q_scope.

Inductive obs :=
| ObsModel (frame up sec : list srow) (objv : option Q)
| ObsMet (m : Z) (frame : list srow) (pr cn : list prow)
| ObsRxn (r : Z) (flux : Q) (range : option (option (Q * Q))).   (* Some None = NaN, NaN *)

Record case := mkCase {
  c_tol : Q;                       (* model.tolerance *)
  c_eps : Q;                       (* comparison tolerance; 0 = exact (dyadic regime) *)
  c_rxns : list rxn;
  c_sol : solution;                (* the Solution the summary was given / generated (captured) *)
  c_obj : list (Z * Q);            (* linear_reaction_coefficients *)
  c_fva : option fva_frame;        (* the frame given / generated (captured) *)
  c_render : bool;                 (* to_string / to_html / to_frame all returned *)
  c_obs : obs }.

Definition Qmax (a b : Q) : Q := if Qle_bool a b then b else a.
Definition approx (eps a b : Q) : bool := Qle_bool (Qabs (a - b)) (eps * Qmax 1 (Qabs b)).

(* value obtained from x by tolerance zeroing; when |x| is within eps of the threshold both
   outcomes are accepted (only reachable with eps > 0, i.e. outside the exact regime)       *)
Definition zeroed_ok (tol eps obs x : Q) : bool :=
  approx eps obs (where_ge tol x) ||
  (Qle_bool (Qabs (Qabs x - tol)) (eps * Qmax 1 (Qabs x)) && (approx eps obs x || approx eps obs 0)).

Definition opt_eqb {A} (f : A -> A -> bool) (a b : option A) : bool :=
  match a, b with Some x, Some y => f x y | None, None => true | _, _ => false end.

Fixpoint list_eqb {A B} (eq : A -> B -> bool) (a : list A) (b : list B) : bool :=
  match a, b with
  | [], [] => true
  | x :: r, y :: s => eq x y && list_eqb eq r s
  | _, _ => false
  end.

(* model row vs observed row.  The model's row carries the unzeroed inputs through `raw`. *)
Record xrow := mkX { x_row : srow; x_raw : Q; x_rawrange : option (Q * Q) }.

Definition range_agrees (tol eps : Q) (factor : Q) (raw : option (Q * Q)) (o : option (Q * Q)) : bool :=
  match raw, o with
  | None, None => true
  | Some (mn, mx), Some (lo, hi) =>
      let neg := Qltb factor 0 in
      (* undo the swap and compare the scaled ends, allowing the threshold envelope *)
      let omn := if neg then hi else lo in
      let omx := if neg then lo else hi in
      let ok (ov x : Q) :=
        approx eps ov (where_ge tol x * factor) ||
        (Qle_bool (Qabs (Qabs x - tol)) (eps * Qmax 1 (Qabs x)) &&
         (approx eps ov (x * factor) || approx eps ov 0)) in
      ok omn mn && ok omx mx
  | _, _ => false
  end.

Definition row_agrees (tol eps : Q) (with_factor with_met : bool) (x : xrow) (o : srow) : bool :=
  (s_rxn (x_row x) =? s_rxn o)%Z &&
  (negb with_met || (s_met (x_row x) =? s_met o)%Z) &&
  (negb with_factor || Qeq_bool (s_factor (x_row x)) (s_factor o)) &&
  zeroed_ok tol eps (s_flux o) (x_raw x) &&
  range_agrees tol eps (s_factor (x_row x)) (x_rawrange x) (s_range o).

Definition xrow_of (tol : Q) (s : solution) (fva : option fva_frame) (rid mid : Z) (c : Q) : xrow :=
  let v := getq rid s in
  mkX (scale_row tol (row_range fva rid) rid mid c v) (v * c) (row_range fva rid).

Definition model_xrows (tol : Q) (rs : list rxn) (s : solution) (fva : option fva_frame) : list xrow :=
  flat_map (fun r => match x_mets r with [(m, c)] => [xrow_of tol s fva (x_id r) m c] | _ => [] end)
           (boundary rs).
Definition met_xrows (tol : Q) (rs : list rxn) (s : solution) (fva : option fva_frame) (m : Z) : list xrow :=
  map (fun r => xrow_of tol s fva (x_id r) m (coef m r)) (met_rxns rs m).

(* Side of a row decided from the OBSERVED flux (so that a value in the threshold envelope goes
   with what the implementation displayed) *)
Definition obs_side_rows (side : srow -> bool) (xs : list xrow) (frame : list srow) : list xrow :=
  map fst (filter (fun p => side (mkRow 0 0 (s_factor (x_row (fst p))) (s_flux (snd p)) None))
                  (combine xs frame)).

Definition pct_agrees (eps : Q) (a : option Q) (b : option Q) : bool :=
  opt_eqb (fun x y => approx (Qmax eps (1 # 1000000000000)) y x) a b.

(* ---------------------------------------------------------------- monitors on the observation *)
Fixpoint insert_z (k : Z) (l : list Z) : list Z :=
  match l with [] => [k] | h :: t => if (k <=? h)%Z then k :: l else h :: insert_z k t end.
Definition sort_z (l : list Z) : list Z := fold_right insert_z [] l.
Definition same_ids (a b : list Z) : bool := list_eqb Z.eqb (sort_z a) (sort_z b).

Definition side_ok_produced (factor_of : Z -> Q) (r : srow) : bool :=
  is_produced (mkRow (s_rxn r) 0 (factor_of (s_rxn r)) (s_flux r) None).
Definition side_ok_consumed (factor_of : Z -> Q) (r : srow) : bool :=
  is_consumed (mkRow (s_rxn r) 0 (factor_of (s_rxn r)) (s_flux r) None).

Definition boundary_factor (rs : list rxn) (rid : Z) : Q :=
  match filter (fun r => (x_id r =? rid)%Z) rs with
  | r :: _ => match x_mets r with [(_, c)] => c | _ => 0 end
  | [] => 0 end.
Definition met_factor (rs : list rxn) (m rid : Z) : Q :=
  match filter (fun r => (x_id r =? rid)%Z) rs with r :: _ => coef m r | [] => 0 end.

Definition partition_ok (expected : list Z) (factor_of : Z -> Q) (a b : list srow) : bool :=
  same_ids (map s_rxn a ++ map s_rxn b) expected &&
  forallb (side_ok_produced factor_of) a && forallb (side_ok_consumed factor_of) b.

Definition flux_ok (tol eps : Q) (s : solution) (factor_of : Z -> Q) (rows : list srow) : bool :=
  forallb (fun r => zeroed_ok tol eps (s_flux r) (getq (s_rxn r) s * factor_of (s_rxn r))) rows.

Definition nQ (n : nat) : Q := inject_Z (Z.of_nat n).

(* |producing total + consuming total - sum coef*flux| <= n*tol (+ eps); with a steady-state
   solution the last sum is zero *)
Definition balance_ok (tol eps : Q) (raw : Q) (a b : list srow) : bool :=
  let p := qsum (map s_flux a) in
  let c := qsum (map s_flux b) in
  Qle_bool 0 p && Qle_bool c 0 &&
  Qle_bool (Qabs (p + c - raw)) (nQ (length a + length b) * (tol + eps * Qmax 1 (Qabs p))).

Definition percent_ok (l : list prow) : bool :=
  let total := qsum (map (fun p => Qabs (s_flux (p_row p))) l) in
  if Qeq_bool total 0 then forallb (fun p => match p_percent p with None => true | _ => false end) l
  else forallb (fun p => match p_percent p with Some q => Qle_bool 0 q | None => false end) l &&
       approx (1 # 1000000000) (qsum (map (fun p => match p_percent p with Some q => q | None => 0 end) l)) 1.

(* ranges ordered, and containing the flux up to the slack proved in fva_scaling *)
Definition fva_ok (tol eps : Q) (s : solution) (fva : option fva_frame) (rows : list srow) : bool :=
  match fva with
  | None => forallb (fun r => match s_range r with None => true | _ => false end) rows
  | Some f =>
      forallb (fun r =>
        match s_range r with
        | None => false
        | Some (lo, hi) =>
            let '(mn, mx) := get_range (s_rxn r) f in
            let v := getq (s_rxn r) s in
            let slack := (tol + eps * Qmax 1 (Qabs (s_flux r))) * (2 + Qabs (s_factor r)) in
            (negb (Qle_bool mn mx) || Qle_bool lo (hi + eps)) &&
            (negb (Qle_bool mn v && Qle_bool v mx) ||
             (Qle_bool (lo - slack) (s_flux r) && Qle_bool (s_flux r) (hi + slack)))
        end) rows
  end.

Definition has_key {A} (k : Z) (l : list (Z * A)) : bool := match lookup k l with Some _ => true | None => false end.

(* every reaction has a flux in the solution.  The fva frame may lack rows (a frame computed for a
   reaction_list): the model then behaves as the code does (range (0,0), or NaN for a reaction summary) *)
Definition covered (rs : list rxn) (s : solution) : bool :=
  forallb (fun r => has_key (x_id r) s) rs.

Definition flag (b : bool) (code : nat) : list (nat * nat) := if b then [] else [(0%nat, code)].

Definition check_case (c : case) : list (nat * nat) :=
  let tol := c_tol c in let eps := c_eps c in let rs := c_rxns c in let s := c_sol c in let fva := c_fva c in
  flag (c_render c) 7 ++
  flag (covered rs s) 1 ++
  match c_obs c with
  | ObsModel frame up sec objv =>
      let xs := model_xrows tol rs s fva in
      let fo := boundary_factor rs in
      flag (list_eqb (row_agrees tol eps true true) xs frame &&
            list_eqb (row_agrees tol eps false true) (obs_side_rows is_produced xs frame) up &&
            list_eqb (row_agrees tol eps false true) (obs_side_rows is_consumed xs frame) sec) 1 ++
      flag (partition_ok (map x_id (filter is_boundary rs)) fo up sec) 2 ++
      flag (flux_ok tol eps s fo up && flux_ok tol eps s fo sec) 3 ++
      flag (fva_ok tol eps s fva frame) 6 ++
      flag (match objv, c_obj c with
            | None, [] => true
            | Some v, _ :: _ => approx (Qmax eps (1 # 1000000000000)) v (objective_value (c_obj c) s)
            | _, _ => false end) 8
  | ObsMet m frame pr cn =>
      let xs := met_xrows tol rs s fva m in
      let fo := met_factor rs m in
      flag (list_eqb (row_agrees tol eps true false) xs frame &&
            list_eqb (row_agrees tol eps false false) (obs_side_rows is_produced xs frame) (map p_row pr) &&
            list_eqb (row_agrees tol eps false false) (obs_side_rows is_consumed xs frame) (map p_row cn) &&
            list_eqb (pct_agrees eps) (map p_percent (with_percent (map p_row pr))) (map p_percent pr) &&
            list_eqb (pct_agrees eps) (map p_percent (with_percent (map p_row cn))) (map p_percent cn)) 1 ++
      flag (partition_ok (map x_id (filter (has_met m) rs)) fo (map p_row pr) (map p_row cn)) 2 ++
      flag (flux_ok tol eps s fo (map p_row pr) && flux_ok tol eps s fo (map p_row cn)) 3 ++
      flag (balance_ok tol eps (qsum (map (fun r => getq (x_id r) s * coef m r) rs))
                       (map p_row pr) (map p_row cn)) 4 ++
      flag (percent_ok pr && percent_ok cn) 5 ++
      flag (fva_ok tol eps s fva frame) 6
  | ObsRxn r flux range =>
      flag (approx eps flux (getq r s) &&
            opt_eqb (opt_eqb (fun a b => approx eps (fst b) (fst a) && approx eps (snd b) (snd a)))
                    (snd (reaction_row s fva r)) range) 1
  end.

Definition failing (cases : list (Z * case)) : list (Z * list (nat * nat)) :=
  filter (fun r => match snd r with [] => false | _ => true end)
         (map (fun c => (fst c, check_case (snd c))) cases).
