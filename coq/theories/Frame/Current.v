(* Per-run obligations over the skeletons regenerated from the current source (Gen/Skeletons.v). *)
From Coq Require Import List Bool String Arith.
From Cobra.Frame Require Import Model Proofs.
From Cobra.Gen Require Import Skeletons.
Import ListNotations.

Definition expected (n : string) : list (nat * list kind) :=
  match find (fun p => String.eqb (fst p) n) known_exceptions with Some p => snd p | None => [] end.
Definition kinds_sub (a b : list kind) : bool := forallb (fun k => existsb (kind_eqb k) b) a.
Definition report_within (r e : list (nat * list kind)) : bool :=
  forallb (fun p => existsb (fun q => Nat.eqb (fst p) (fst q) && kinds_sub (snd p) (snd q)) e) r.

(* entry points whose skeleton is rejected, with the exits (0 normal end, 1 return, 2 exception) at
   which a resource may be left changed (9 = a recorded mutator outside every `with model:` of the
   analysis itself) *)
Definition rejected : list (string * list (nat * list kind)) :=
  filter (fun p => negb (match snd p with [] => true | _ => false end))
         (map (fun p => (fst p, sk_report (snd p))) current_skeletons).
(* ... and those among them that are NOT explained by a recorded known exception *)
Definition unexplained : list (string * list (nat * list kind)) :=
  filter (fun p => negb (report_within (snd p) (expected (fst p)))) rejected.

(* THE per-run obligation: every entry point is accepted by the static check, or is a recorded known
   exception and leaks nothing beyond what was recorded for it. *)
Lemma current_skeletons_within :
  forallb (fun p => report_within (sk_report (snd p)) (expected (fst p))) current_skeletons = true.
Proof. vm_compute. reflexivity. Qed.

Definition passing : list (string * sk) := filter (fun p => sk_ok (snd p)) current_skeletons.

(* keep the kernel from evaluating the static check with its slow machine while type-checking the
   two corollaries below (their proofs never need to unfold these) *)
Strategy opaque [current_skeletons sk_ok sk_report].

Theorem current_skeletons_restore :
  forall name k, In (name, k) passing ->
  forall (o : oracle) (s : state), observable (fst (exec o k s)) = observable s.
Proof.
  intros name k Hin. apply sk_ok_restores. unfold passing in Hin. apply filter_In in Hin.
  destruct Hin as [_ H]. exact H.
Qed.

(* an entry point without a recorded exception is accepted outright *)
Theorem current_unlisted_restore :
  forall name k, In (name, k) current_skeletons -> expected name = [] ->
  forall (o : oracle) (s : state), observable (fst (exec o k s)) = observable s.
Proof.
  intros name k Hin He. apply sk_ok_restores. apply sk_report_nil.
  pose proof current_skeletons_within as H. rewrite forallb_forall in H. specialize (H (name, k) Hin).
  cbn [fst snd] in H. rewrite He in H. destruct (sk_report k) as [|p r]; [reflexivity|]. cbn in H. discriminate.
Qed.
