(* Proofs about the skeleton semantics of Model.v:
     sk_ok_restores : a skeleton accepted by the static check restores the observable state
                      (resources and context stack) for EVERY oracle and every start state;
     per-operation undo lemmas;  exec_deterministic / repeat_same. *)
From Coq Require Import ZArith List Bool Arith Lia.
From Cobra.Frame Require Import Model.
Import ListNotations.

(* ------------------------------------------------------------------ store *)

Lemma kind_eqb_eq : forall a b, kind_eqb a b = true <-> a = b.
Proof. intros a b. unfold kind_eqb. destruct (kind_eq_dec a b); split; intros; congruence. Qed.

Lemma get_set_same : forall k v r, get k (set k v r) = v.
Proof. intros k v r. destruct k; reflexivity. Qed.

Lemma get_set_other : forall k k' v r, k <> k' -> get k (set k' v r) = get k r.
Proof. intros k k' v r H. destruct k, k'; try reflexivity; congruence. Qed.

Lemma set_get_same : forall k r, set k (get k r) r = r.
Proof. intros k r. destruct k, r; reflexivity. Qed.

Lemma set_set_same : forall k v w r, set k v (set k w r) = set k v r.
Proof. intros k v w r. destruct k; reflexivity. Qed.

Lemma store_ext : forall a b, (forall k, get k a = get k b) -> a = b.
Proof.
  intros a b H. destruct a, b.
  pose proof (H KBounds). pose proof (H KObjective). pose proof (H KDirection). pose proof (H KConsVars).
  pose proof (H KConsAttr). pose proof (H KGenes). pose proof (H KContent). pose proof (H KSolver). cbn in *. congruence.
Qed.

Lemma all_kinds_complete : forall k, In k all_kinds.
Proof. intros k. destruct k; cbn; tauto. Qed.

(* ------------------------------------------------------------------ per-operation undo lemmas *)

(* a recorded write is undone by replaying the frame it was recorded on *)
Lemma undo_recorded_write :
  forall k v fr r, replay ((k, get k r) :: fr) (set k v r) = replay fr r.
Proof. intros k v fr r. cbn. rewrite set_set_same, set_get_same. reflexivity. Qed.

(* with model: (one recorded write) leaves the state as it was -- whatever was written *)
Lemma with_single_op_restores :
  forall k v s, exit_ (write k v (record k (enter s))) = s.
Proof.
  intros k v s. destruct s as [r c sv t]. unfold enter, record, write, exit_. cbn.
  rewrite set_set_same, set_get_same. reflexivity.
Qed.

(* what a frame does to one resource *)
Fixpoint rk (k : kind) (fr : frame) (x : val) : val :=
  match fr with
  | [] => x
  | (k', v) :: t => rk k t (if kind_eqb k' k then v else x)
  end.

Fixpoint pk (k : kind) (frs : list frame) (x : val) : val :=
  match frs with
  | [] => x
  | fr :: t => pk k t (rk k fr x)
  end.

Lemma get_replay : forall k fr r, get k (replay fr r) = rk k fr (get k r).
Proof.
  intros k fr. induction fr as [|[k' v] t IH]; intros r; cbn; [reflexivity|].
  rewrite IH. f_equal. unfold kind_eqb. destruct (kind_eq_dec k' k) as [->|N].
  - apply get_set_same.
  - apply get_set_other. congruence.
Qed.

Definition has (k : kind) (fr : frame) : Prop := exists v, In (k, v) fr.
Definition covered (k : kind) (frs : list frame) : Prop := exists fr, In fr frs /\ has k fr.

Lemma rk_has : forall k fr x y, has k fr -> rk k fr x = rk k fr y.
Proof.
  intros k fr. induction fr as [|[k' v] t IH]; intros x y [w Hw]; cbn in *; [contradiction|].
  unfold kind_eqb. destruct (kind_eq_dec k' k) as [->|N]; [reflexivity|].
  apply IH. destruct Hw as [E|Hin]; [congruence|]. exists w. exact Hin.
Qed.

Lemma rk_nothas : forall k fr x, ~ has k fr -> rk k fr x = x.
Proof.
  intros k fr. induction fr as [|[k' v] t IH]; intros x Hn; cbn; [reflexivity|].
  unfold kind_eqb. destruct (kind_eq_dec k' k) as [->|N].
  - exfalso. apply Hn. exists v. left. reflexivity.
  - apply IH. intros [w Hw]. apply Hn. exists w. right. exact Hw.
Qed.

Lemma pk_covered : forall k frs x y, covered k frs -> pk k frs x = pk k frs y.
Proof.
  intros k frs. induction frs as [|fr t IH]; intros x y [f [Hin Hh]]; cbn in *; [contradiction|].
  destruct Hin as [->|Hin].
  - rewrite (rk_has k f x y Hh). reflexivity.
  - apply IH. exists f. split; assumption.
Qed.

Lemma pk_notcovered : forall k frs x, ~ covered k frs -> pk k frs x = x.
Proof.
  intros k frs. induction frs as [|fr t IH]; intros x Hn; cbn; [reflexivity|].
  rewrite rk_nothas.
  - apply IH. intros [f [Hin Hh]]. apply Hn. exists f. split; [right; exact Hin|exact Hh].
  - intros Hh. apply Hn. exists fr. split; [left; reflexivity|exact Hh].
Qed.

(* ------------------------------------------------------------------ abstraction relation *)

Definition sound1 (l : kset * kset) (fr : frame) : Prop :=
  (forall k, fst l k = true -> has k fr) /\ (forall k, snd l k = false -> ~ has k fr).

Fixpoint sound_lv (lv : nat -> kset * kset) (frs : list frame) : Prop :=
  match frs with
  | [] => True
  | fr :: rest => sound1 (lv (length rest)) fr /\ sound_lv lv rest
  end.

Lemma sound_lv_agree : forall lv lv' frs,
  (forall i, i < length frs -> lv' i = lv i) -> sound_lv lv frs -> sound_lv lv' frs.
Proof.
  intros lv lv' frs. induction frs as [|fr rest IH]; intros Hag Hs; cbn [sound_lv length] in *; [exact I|].
  destruct Hs as [H1 H2]. split.
  - rewrite Hag by lia. exact H1.
  - apply IH; [|exact H2]. intros i Hi. apply Hag. lia.
Qed.

Lemma sound_lv_weaken : forall lv lv' frs,
  (forall i k, i < length frs -> fst (lv' i) k = true -> fst (lv i) k = true) ->
  (forall i k, i < length frs -> snd (lv i) k = true -> snd (lv' i) k = true) ->
  sound_lv lv frs -> sound_lv lv' frs.
Proof.
  intros lv lv' frs. induction frs as [|fr rest IH]; intros Hm Hy Hs; cbn [sound_lv length] in *; [exact I|].
  destruct Hs as [[Ha Hb] H2]. split.
  - split.
    + intros k Hk. apply Ha. apply Hm; [lia|exact Hk].
    + intros k Hk. apply Hb. destruct (snd (lv (length rest)) k) eqn:E; auto.
      exfalso. apply (eq_true_false_abs _ (Hy (length rest) k ltac:(lia) E) Hk).
  - apply IH; [| |exact H2]; intros i k Hi; [apply Hm|apply Hy]; lia.
Qed.

Lemma existsb_levels : forall (f : nat -> bool) d, existsb f (levels d) = true <-> exists i, i < d /\ f i = true.
Proof.
  intros f d. unfold levels. rewrite existsb_exists. split.
  - intros [i [Hin Hf]]. apply in_seq in Hin. exists i. split; [lia|exact Hf].
  - intros [i [Hi Hf]]. exists i. split; [apply in_seq; lia|exact Hf].
Qed.

Lemma cov_sound : forall lv frs k,
  sound_lv lv frs -> (exists i, i < length frs /\ fst (lv i) k = true) -> covered k frs.
Proof.
  intros lv frs k. induction frs as [|fr rest IH]; intros Hs [i [Hi Hf]]; cbn in *; [lia|].
  destruct Hs as [[Ha _] H2]. destruct (Nat.eq_dec i (length rest)) as [->|N].
  - exists fr. split; [left; reflexivity|apply Ha; exact Hf].
  - destruct IH as [f [Hin Hh]]; [exact H2|exists i; split; [lia|exact Hf]|].
    exists f. split; [right; exact Hin|exact Hh].
Qed.

Lemma mcov_sound : forall lv frs k,
  sound_lv lv frs -> (forall i, i < length frs -> snd (lv i) k = false) -> ~ covered k frs.
Proof.
  intros lv frs k. induction frs as [|fr rest IH]; intros Hs Hall [f [Hin Hh]]; cbn in *; [contradiction|].
  destruct Hs as [[_ Hb] H2]. destruct Hin as [->|Hin].
  - apply (Hb k); [apply Hall; lia|exact Hh].
  - apply IH; [exact H2| |exists f; split; assumption]. intros i Hi. apply Hall. lia.
Qed.

Section Restore.
Variable res0 : store.
Variable stack0 : list frame.

Definition R (d : nat) (a : astate) (s : state) : Prop :=
  exists frs, ctx s = frs ++ stack0 /\ length frs = d /\ sound_lv (a_lv a) frs /\
    (forall k, a_dirty a k = false -> pk k frs (get k (res s)) = get k res0) /\
    (forall n k, In (n, k) (a_sv a) -> saved s n = get k res0).

Definition leq (d : nat) (a b : astate) : Prop :=
  (forall k, a_dirty a k = true -> a_dirty b k = true) /\
  (forall i k, i < d -> fst (a_lv b i) k = true -> fst (a_lv a i) k = true) /\
  (forall i k, i < d -> snd (a_lv a i) k = true -> snd (a_lv b i) k = true) /\
  (forall p, In p (a_sv b) -> In p (a_sv a)).

Lemma leq_refl : forall d a, leq d a a.
Proof. intros d a. repeat split; auto. Qed.

Lemma leq_trans : forall d a b c, leq d a b -> leq d b c -> leq d a c.
Proof.
  intros d a b c [A1 [A2 [A3 A4]]] [B1 [B2 [B3 B4]]]. repeat split; intros.
  - auto.
  - apply A2; auto.
  - apply B3; auto.
  - auto.
Qed.

Lemma R_mono : forall d a b s, leq d a b -> R d a s -> R d b s.
Proof.
  intros d a b s [L1 [L2 [L3 L4]]] [frs [Hc [Hl [Hs [Hd Hv]]]]].
  exists frs. repeat split; try assumption.
  - apply (sound_lv_weaken (a_lv a)); [| |exact Hs]; intros i k Hi; rewrite Hl in Hi; auto.
  - intros k Hk. apply Hd. destruct (a_dirty a k) eqn:E; [|reflexivity]. rewrite (L1 k E) in Hk. discriminate.
  - intros n k Hin. apply Hv. apply L4. exact Hin.
Qed.

Lemma sv_mem_in : forall p l, sv_mem p l = true <-> In p l.
Proof.
  intros [n k] l. unfold sv_mem. rewrite existsb_exists. split.
  - intros [[n' k'] [Hin He]]. unfold sv_eqb in He. cbn in He. apply andb_prop in He. destruct He as [E1 E2].
    apply Nat.eqb_eq in E1. apply kind_eqb_eq in E2. subst. exact Hin.
  - intros Hin. exists (n, k). split; [exact Hin|]. unfold sv_eqb. cbn. rewrite Nat.eqb_refl.
    apply andb_true_intro. split; [reflexivity|]. apply kind_eqb_eq. reflexivity.
Qed.

Lemma norm_k_eq : forall s k, norm_k s k = s k.
Proof. intros s k. destruct k; reflexivity. Qed.

Lemma norm_lv_eq : forall lv i k,
  fst (norm_lv lv i) k = fst (lv i) k /\ snd (norm_lv lv i) k = snd (lv i) k.
Proof.
  intros lv i k. unfold norm_lv. rewrite nth_error_map.
  destruct (nth_error (seq 0 8) i) as [j|] eqn:E; cbn [option_map].
  - assert (Hj : j = i).
    { assert (Hlt : i < length (seq 0 8)) by (apply nth_error_Some; congruence). rewrite seq_length in Hlt.
      apply (nth_error_nth _ _ 0) in E. rewrite seq_nth in E by exact Hlt. cbn in E. congruence. }
    subst j. cbn. rewrite !norm_k_eq. split; reflexivity.
  - split; reflexivity.
Qed.

Lemma join_dirty : forall a b k, a_dirty (join a b) k = a_dirty a k || a_dirty b k.
Proof. intros a b k. unfold join. cbn [a_dirty]. apply norm_k_eq. Qed.
Lemma join_must : forall a b i k, fst (a_lv (join a b) i) k = fst (a_lv a i) k && fst (a_lv b i) k.
Proof. intros a b i k. unfold join. cbn [a_lv]. rewrite (proj1 (norm_lv_eq _ i k)). reflexivity. Qed.
Lemma join_may : forall a b i k, snd (a_lv (join a b) i) k = snd (a_lv a i) k || snd (a_lv b i) k.
Proof. intros a b i k. unfold join. cbn [a_lv]. rewrite (proj2 (norm_lv_eq _ i k)). reflexivity. Qed.
Lemma join_sv : forall a b, a_sv (join a b) = filter (fun p => sv_mem p (a_sv b)) (a_sv a).
Proof. reflexivity. Qed.

Lemma leq_join_l : forall d a b, leq d a (join a b).
Proof.
  intros d a b. repeat split; intros.
  - rewrite join_dirty, H. reflexivity.
  - rewrite join_must in H0. apply andb_prop in H0. tauto.
  - rewrite join_may, H0. reflexivity.
  - rewrite join_sv in H. apply filter_In in H. tauto.
Qed.

Lemma leq_join_r : forall d a b, leq d b (join a b).
Proof.
  intros d a b. repeat split; intros.
  - rewrite join_dirty, H. apply orb_true_r.
  - rewrite join_must in H0. apply andb_prop in H0. tauto.
  - rewrite join_may, H0. apply orb_true_r.
  - rewrite join_sv in H. apply filter_In in H. destruct H as [_ H]. apply sv_mem_in. exact H.
Qed.

Lemma forallb_kinds : forall f, forallb f all_kinds = true -> forall k, f k = true.
Proof. intros f H k. rewrite forallb_forall in H. apply H. apply all_kinds_complete. Qed.

Lemma leqb_leq : forall d a b, leqb d a b = true -> leq d a b.
Proof.
  intros d a b H. unfold leqb in H. apply andb_prop in H. destruct H as [H H3].
  apply andb_prop in H. destruct H as [H1 H2].
  repeat split.
  - intros k Hk. pose proof (forallb_kinds _ H1 k) as E. cbn in E. rewrite Hk in E. exact E.
  - intros i k Hi Hk. rewrite forallb_forall in H2. specialize (H2 i).
    assert (Hin : In i (levels d)) by (apply in_seq; lia). specialize (H2 Hin).
    pose proof (forallb_kinds _ H2 k) as E. cbn in E. apply andb_prop in E. destruct E as [E _].
    rewrite Hk in E. exact E.
  - intros i k Hi Hk. rewrite forallb_forall in H2. specialize (H2 i).
    assert (Hin : In i (levels d)) by (apply in_seq; lia). specialize (H2 Hin).
    pose proof (forallb_kinds _ H2 k) as E. cbn in E. apply andb_prop in E. destruct E as [_ E].
    rewrite Hk in E. exact E.
  - intros p Hp. rewrite forallb_forall in H3. apply sv_mem_in. apply H3. exact Hp.
Qed.

(* -------- transitions *)

Lemma R_bump : forall d a s c, R d a s -> R d a (bump c s).
Proof. intros d a s c H. exact H. Qed.

Lemma R_hist : forall d a s h, R d a s -> R d a (mkState (res s) (ctx s) (saved s) h).
Proof. intros d a s h H. exact H. Qed.

Lemma R_enter : forall d a s, R d a s -> R (S d) (a_push d a) (enter s).
Proof.
  intros d a s [frs [Hc [Hl [Hs [Hd Hv]]]]]. exists ([] :: frs). cbn. repeat split.
  - rewrite Hc. reflexivity.
  - rewrite Hl. reflexivity.
  - unfold upd_lv. rewrite Hl, Nat.eqb_refl. cbn. intros k Hk. discriminate.
  - unfold upd_lv. rewrite Hl, Nat.eqb_refl. cbn. intros k _ [v Hin]. contradiction.
  - apply (sound_lv_agree (a_lv a)); [|exact Hs]. intros i Hi. unfold upd_lv.
    destruct (Nat.eqb i d) eqn:E; [apply Nat.eqb_eq in E; lia|reflexivity].
  - exact Hd.
  - exact Hv.
Qed.

Lemma R_exit : forall d a s, R (S d) a s -> R d a (exit_ s).
Proof.
  intros d a s [frs [Hc [Hl [Hs [Hd Hv]]]]]. destruct frs as [|fr rest]; [discriminate|].
  unfold exit_. rewrite Hc. cbn. exists rest. cbn in *. repeat split.
  - lia.
  - tauto.
  - intros k Hk. rewrite get_replay. apply Hd. exact Hk.
  - exact Hv.
Qed.

Lemma cov_true : forall d a k, cov d a k = true -> exists i, i < d /\ fst (a_lv a i) k = true.
Proof. intros d a k H. apply existsb_levels in H. exact H. Qed.

Lemma mcov_false : forall d a k, mcov d a k = false -> forall i, i < d -> snd (a_lv a i) k = false.
Proof.
  intros d a k H i Hi. destruct (snd (a_lv a i) k) eqn:E; [|reflexivity].
  assert (mcov d a k = true) by (apply existsb_levels; exists i; split; assumption). congruence.
Qed.

(* Op, successful or raising after the write: record on the top frame, then write *)
Lemma R_op : forall d a s k v, R (S d) a s -> R (S d) (a_record (S d) k a) (write k v (record k s)).
Proof.
  intros d a s k v [frs [Hc [Hl [Hs [Hd Hv]]]]]. destruct frs as [|fr rest]; [discriminate|].
  unfold record, write. rewrite Hc. cbn. exists (((k, get k (res s)) :: fr) :: rest). cbn in *.
  assert (Hlr : length rest = d) by lia.
  destruct Hs as [[Ha Hb] Hs]. repeat split.
  - lia.
  - unfold upd_lv. rewrite Hlr, Nat.eqb_refl. cbn. intros k0 Hk0. unfold kadd in Hk0.
    destruct (kind_eq_dec k0 k) as [->|N].
    + exists (get k (res s)). left. reflexivity.
    + rewrite <- Hlr in Hk0. destruct (Ha k0 Hk0) as [w Hw]. exists w. right. exact Hw.
  - unfold upd_lv. rewrite Hlr, Nat.eqb_refl. cbn. intros k0 Hk0 [w Hw]. unfold kadd in Hk0.
    destruct (kind_eq_dec k0 k) as [->|N]; [discriminate|].
    rewrite <- Hlr in Hk0. apply (Hb k0 Hk0). destruct Hw as [E|Hw]; [congruence|]. exists w. exact Hw.
  - apply (sound_lv_agree (a_lv a)); [|exact Hs]. intros i Hi. unfold upd_lv.
    destruct (Nat.eqb i d) eqn:E; [apply Nat.eqb_eq in E; lia|reflexivity].
  - intros k0 Hk0. specialize (Hd k0 Hk0). unfold kind_eqb.
    destruct (kind_eq_dec k k0) as [<-|N].
    + exact Hd.
    + rewrite get_set_other by congruence. exact Hd.
  - exact Hv.
Qed.

Lemma leq_record_may : forall d k a, leq d (a_record d k a) (a_record_may d k a).
Proof.
  intros d k a. unfold a_record, a_record_may, upd_lv. repeat split; cbn; intros; auto.
  - destruct (Nat.eqb i (pred d)); cbn in *; [|exact H0]. unfold kadd. destruct (kind_eq_dec k0 k); auto.
  - destruct (Nat.eqb i (pred d)); cbn in *; exact H0.
Qed.

Lemma leq_may : forall d k a, leq d a (a_record_may d k a).
Proof.
  intros d k a. unfold a_record_may, upd_lv. repeat split; cbn; intros; auto.
  - destruct (Nat.eqb i (pred d)) eqn:E; cbn in *; [|exact H0]. apply Nat.eqb_eq in E. subst. exact H0.
  - destruct (Nat.eqb i (pred d)) eqn:E; cbn in *; [|exact H0]. apply Nat.eqb_eq in E. subst.
    unfold kadd. destruct (kind_eq_dec k0 k); auto.
Qed.

(* unrecorded write *)
Lemma R_raw : forall d a s k v, R d a s -> R d (a_raw d k a) (write k v s).
Proof.
  intros d a s k v [frs [Hc [Hl [Hs [Hd Hv]]]]]. exists frs. unfold a_raw, write. cbn.
  repeat split; try assumption.
  intros k0 Hk0. destruct (kind_eq_dec k0 k) as [->|N].
  - destruct (cov d a k && coverable k) eqn:E.
    + apply andb_prop in E. destruct E as [E _]. rewrite get_set_same.
      rewrite <- (Hd k Hk0). apply pk_covered. apply (cov_sound (a_lv a)); [exact Hs|].
      rewrite Hl. apply cov_true. exact E.
    + cbn in Hk0. unfold kadd in Hk0. destruct (kind_eq_dec k k); [discriminate|congruence].
  - rewrite get_set_other by exact N. apply Hd.
    destruct (cov d a k && coverable k); [exact Hk0|].
    cbn in Hk0. unfold kadd in Hk0. destruct (kind_eq_dec k0 k); [congruence|exact Hk0].
Qed.

Lemma leq_raw : forall d k a, leq d a (a_raw d k a).
Proof.
  intros d k a. unfold a_raw. repeat split; cbn; intros; auto.
  destruct (cov d a k && coverable k); [exact H|]. unfold kadd. destruct (kind_eq_dec k0 k); auto.
Qed.

Lemma R_save : forall d a s n k,
  R d a s ->
  R d (a_save d n k a) (mkState (res s) (ctx s) (fun m => if Nat.eqb m n then get k (res s) else saved s m) (hist s)).
Proof.
  intros d a s n k [frs [Hc [Hl [Hs [Hd Hv]]]]]. exists frs. unfold a_save. cbn.
  repeat split; try assumption.
  intros n0 k0 Hin.
  assert (Hoth : In (n0, k0) (filter (fun p => negb (Nat.eqb (fst p) n)) (a_sv a)) ->
                 (if Nat.eqb n0 n then get k (res s) else saved s n0) = get k0 res0).
  { intros Hf. apply filter_In in Hf. destruct Hf as [Hf1 Hf2]. cbn in Hf2.
    destruct (Nat.eqb n0 n); [discriminate|]. apply Hv. exact Hf1. }
  destruct (negb (a_dirty a k) && negb (mcov d a k)) eqn:E.
  - destruct Hin as [Heq|Hin]; [|apply Hoth; exact Hin].
    inversion Heq; subst. rewrite Nat.eqb_refl. apply andb_prop in E. destruct E as [E1 E2].
    apply negb_true_iff in E1. apply negb_true_iff in E2.
    rewrite <- (Hd k0 E1). symmetry. apply pk_notcovered.
    apply (mcov_sound (a_lv a)); [exact Hs|]. try rewrite Hl. apply mcov_false. exact E2.
  - apply Hoth. exact Hin.
Qed.

Lemma R_restore : forall d a s n k, R d a s -> R d (a_restore d n k a) (write k (saved s n) s).
Proof.
  intros d a s n k HR. unfold a_restore. destruct (cov d a k && coverable k) eqn:E.
  - pose proof (R_raw d a s k (saved s n) HR) as H. unfold a_raw in H. rewrite E in H.
    destruct a. exact H.
  - destruct HR as [frs [Hc [Hl [Hs [Hd Hv]]]]].
    destruct (negb (mcov d a k) && sv_mem (n, k) (a_sv a)) eqn:E2.
    + apply andb_prop in E2. destruct E2 as [E3 E4]. apply negb_true_iff in E3. apply sv_mem_in in E4.
      exists frs. unfold write. cbn. repeat split; try assumption.
      intros k0 Hk0. destruct (kind_eq_dec k0 k) as [->|N].
      * rewrite get_set_same. rewrite (Hv n k E4). apply pk_notcovered.
        apply (mcov_sound (a_lv a)); [exact Hs|]. rewrite Hl. apply mcov_false. exact E3.
      * rewrite get_set_other by exact N. apply Hd. unfold kdel in Hk0.
        destruct (kind_eq_dec k0 k); [congruence|exact Hk0].
    + exists frs. unfold write. cbn. repeat split; try assumption.
      intros k0 Hk0. unfold kadd in Hk0. destruct (kind_eq_dec k0 k) as [->|N]; [discriminate|].
      rewrite get_set_other by exact N. apply Hd. exact Hk0.
Qed.

(* -------- selecting exits *)

Definition xle (d : nat) (x y : exits) : Prop :=
  forall r a, sel x r = Some a -> exists a', sel y r = Some a' /\ leq d a a'.

Lemma xle_refl : forall d x, xle d x x.
Proof. intros d x r a H. exists a. split; [exact H|apply leq_refl]. Qed.

Lemma xle_trans : forall d x y z, xle d x y -> xle d y z -> xle d x z.
Proof.
  intros d x y z H1 H2 r a Ha. destruct (H1 r a Ha) as [b [Hb Lb]]. destruct (H2 r b Hb) as [c [Hc Lc]].
  exists c. split; [exact Hc|]. eapply leq_trans; eassumption.
Qed.

Lemma ojoin_l : forall d a x, exists a', ojoin (Some a) x = Some a' /\ leq d a a'.
Proof. intros d a [b|]; cbn; eexists; split; try reflexivity; [apply leq_join_l|apply leq_refl]. Qed.

Lemma ojoin_r : forall d a x, exists a', ojoin x (Some a) = Some a' /\ leq d a a'.
Proof. intros d a [b|]; cbn; eexists; split; try reflexivity; [apply leq_join_r|apply leq_refl]. Qed.

Lemma xle_join_l : forall d x y, xle d x (xjoin x y).
Proof. intros d x y r a H. destruct r; cbn in *; rewrite H; apply ojoin_l. Qed.

Lemma xle_join_r : forall d x y, xle d y (xjoin x y).
Proof. intros d x y r a H. destruct r; cbn in *; rewrite H; apply ojoin_r. Qed.

Lemma oxjoin_some : forall a b z, oxjoin a b = Some z -> exists x y, a = Some x /\ b = Some y /\ z = xjoin x y.
Proof. intros [x|] [y|] z H; cbn in H; try discriminate. inversion H. eauto. Qed.

(* the statement proved by induction on skeletons *)
Definition sound_at (o : oracle) (k : sk) (d : nat) (a : astate) (x : exits) : Prop :=
  forall s, R d a s -> exists a', sel x (snd (exec o k s)) = Some a' /\ R d a' (fst (exec o k s)).

Lemma sound_weaken : forall o k d a x y, sound_at o k d a x -> xle d x y -> sound_at o k d a y.
Proof.
  intros o k d a x y H L s HR. destruct (H s HR) as [a' [Hs HR']].
  destruct (L _ _ Hs) as [b [Hb Lb]]. exists b. split; [exact Hb|]. eapply R_mono; eassumption.
Qed.

Lemma loop_inv_spec : forall fuel d fa a i x,
  loop_inv fuel d fa a = Some (i, x) ->
  leq d a i /\ fa i = Some x /\
  (forall b, x_n x = Some b -> leq d b i) /\ (forall b, x_cnt x = Some b -> leq d b i).
Proof.
  assert (Hfin : forall d a x0,
    leqb d (match ojoin (x_n x0) (x_cnt x0) with Some b' => join a b' | None => a end) a = true ->
    (forall b, x_n x0 = Some b -> leq d b a) /\ (forall b, x_cnt x0 = Some b -> leq d b a)).
  { intros d a x0 El. apply leqb_leq in El. split; intros b Hb.
    - destruct (ojoin_l d b (x_cnt x0)) as [c [Ec Lc]]. rewrite <- Hb in Ec. rewrite Ec in El.
      eapply leq_trans; [exact Lc|]. eapply leq_trans; [apply leq_join_r|exact El].
    - destruct (ojoin_r d b (x_n x0)) as [c [Ec Lc]]. rewrite <- Hb in Ec. rewrite Ec in El.
      eapply leq_trans; [exact Lc|]. eapply leq_trans; [apply leq_join_r|exact El]. }
  induction fuel as [|f IH]; intros d fa a i x H; cbn in H.
  - destruct (fa a) as [x0|] eqn:Ef; [|discriminate].
    destruct (leqb d (match ojoin (x_n x0) (x_cnt x0) with Some b' => join a b' | None => a end) a) eqn:El; [|discriminate].
    inversion H; subst. split; [apply leq_refl|]. split; [exact Ef|]. apply Hfin. exact El.
  - destruct (fa a) as [x0|] eqn:Ef; [|discriminate].
    destruct (leqb d (match ojoin (x_n x0) (x_cnt x0) with Some b' => join a b' | None => a end) a) eqn:El.
    + inversion H; subst. split; [apply leq_refl|]. split; [exact Ef|]. apply Hfin. exact El.
    + apply IH in H. destruct H as [H1 H2]. split; [|exact H2].
      eapply leq_trans; [|exact H1].
      destruct (ojoin (x_n x0) (x_cnt x0)); [apply leq_join_l|apply leq_refl].
Qed.

Lemma iter_sound : forall d (f : state -> state * outcome) i x,
  (forall s, R d i s -> exists a', sel x (snd (f s)) = Some a' /\ R d a' (fst (f s))) ->
  (forall b, x_n x = Some b -> leq d b i) -> (forall b, x_cnt x = Some b -> leq d b i) ->
  forall n s, R d i s ->
    exists a', sel (mkX (ojoin (Some i) (x_brk x)) (x_ret x) (x_rai x) None None) (snd (iter n f s)) = Some a' /\
               R d a' (fst (iter n f s)).
Proof.
  intros d f i x Hf Hn Hc n. induction n as [|n IH]; intros s HR; cbn [iter].
  - cbn. destruct (ojoin_l d i (x_brk x)) as [a' [E L]]. exists a'. split; [exact E|eapply R_mono; eassumption].
  - destruct (Hf s HR) as [a1 [Hs1 HR1]]. destruct (f s) as [s1 r]. cbn [fst snd] in *.
    destruct r; cbn [sel] in Hs1.
    + apply IH. eapply R_mono; [apply Hn; exact Hs1|exact HR1].
    + cbn. exists a1. split; assumption.
    + cbn. exists a1. split; assumption.
    + cbn. rewrite Hs1. exists (join i a1). split; [reflexivity|]. eapply R_mono; [apply leq_join_r|exact HR1].
    + apply IH. eapply R_mono; [apply Hc; exact Hs1|exact HR1].
Qed.

Definition inj (r : outcome) (e : option astate) : exits :=
  match r with
  | ONormal => mkX e None None None None
  | OReturn => mkX None e None None None
  | ORaise => mkX None None e None None
  | OBreak => mkX None None None e None
  | OContinue => mkX None None None None e
  end.

Lemma fin_from_eq : forall fb e r, fin_from fb e r =
  match e with
  | None => Some xnone
  | Some a => match fb a with None => None | Some y => Some (xjoin (with_n y None) (inj r (x_n y))) end
  end.
Proof. intros fb e r. unfold fin_from. destruct e; [|reflexivity]. destruct (fb a); [|reflexivity]. destruct r; reflexivity. Qed.

Lemma sel_inj : forall r e, sel (inj r e) r = e.
Proof. intros r e. destruct r; reflexivity. Qed.

Lemma fin_sound : forall o q d,
  (forall a x, flow q d a = Some x -> sound_at o q d a x) ->
  forall a1 r z s1, fin_from (flow q d) (Some a1) r = Some z -> R d a1 s1 ->
    exists a', sel z (match snd (exec o q s1) with ONormal => r | r2 => r2 end) = Some a' /\
               R d a' (fst (exec o q s1)).
Proof.
  intros o q d IHq a1 r z s1 Hz HR. rewrite fin_from_eq in Hz.
  destruct (flow q d a1) as [y|] eqn:Ey; [|discriminate]. inversion Hz; subst z; clear Hz.
  destruct (IHq a1 y Ey s1 HR) as [a2 [Hs2 HR2]]. destruct (exec o q s1) as [s2 r2]. cbn [fst snd] in *.
  assert (Hcase : (r2 = ONormal /\ x_n y = Some a2) \/
                  (r2 <> ONormal /\ sel (with_n y None) r2 = Some a2)).
  { destruct r2; cbn in *; [left; split; [reflexivity|exact Hs2]| | | |]; right; split; try discriminate; exact Hs2. }
  destruct Hcase as [[-> Hy]|[Hne Hy]].
  - destruct (xle_join_r d (with_n y None) (inj r (x_n y)) r a2) as [a' [Ha' La']].
    { rewrite sel_inj. exact Hy. }
    exists a'. split; [exact Ha'|eapply R_mono; eassumption].
  - destruct (xle_join_l d (with_n y None) (inj r (x_n y)) r2 a2 Hy) as [a' [Ha' La']].
    exists a'. split; [destruct r2; try exact Ha'; congruence|eapply R_mono; eassumption].
Qed.

Lemma fin_all : forall d fb x z,
  oxjoin (fin_from fb (x_n x) ONormal)
    (oxjoin (fin_from fb (x_ret x) OReturn)
       (oxjoin (fin_from fb (x_rai x) ORaise)
          (oxjoin (fin_from fb (x_brk x) OBreak) (fin_from fb (x_cnt x) OContinue)))) = Some z ->
  forall r, exists y, fin_from fb (sel x r) r = Some y /\ xle d y z.
Proof.
  intros d fb x z H r.
  apply oxjoin_some in H. destruct H as [y1 [t1 [E1 [H ->]]]].
  apply oxjoin_some in H. destruct H as [y2 [t2 [E2 [H ->]]]].
  apply oxjoin_some in H. destruct H as [y3 [t3 [E3 [H ->]]]].
  apply oxjoin_some in H. destruct H as [y4 [y5 [E4 [E5 ->]]]].
  destruct r; cbn [sel].
  - exists y1. split; [exact E1|apply xle_join_l].
  - exists y2. split; [exact E2|]. eapply xle_trans; [apply xle_join_l|apply xle_join_r].
  - exists y3. split; [exact E3|]. eapply xle_trans; [apply xle_join_l|].
    eapply xle_trans; [apply xle_join_r|apply xle_join_r].
  - exists y4. split; [exact E4|]. eapply xle_trans; [apply xle_join_l|].
    eapply xle_trans; [apply xle_join_r|]. eapply xle_trans; [apply xle_join_r|apply xle_join_r].
  - exists y5. split; [exact E5|]. eapply xle_trans; [apply xle_join_r|].
    eapply xle_trans; [apply xle_join_r|]. eapply xle_trans; [apply xle_join_r|apply xle_join_r].
Qed.

Theorem flow_sound : forall o k d a x, flow k d a = Some x -> sound_at o k d a x.
Proof.
  intros o k. induction k; intros d a0 x Hf s HR; cbn [flow] in Hf; cbn [exec].
  - (* Skip *) inversion Hf; subst. exists a0. split; [reflexivity|exact HR].
  - (* Seq *)
    destruct (flow k1 d a0) as [xp|] eqn:Ep; [|discriminate].
    destruct (IHk1 d a0 xp Ep s HR) as [a1 [Hs1 HR1]]. destruct (exec o k1 s) as [s1 r]. cbn [fst snd] in *.
    destruct (x_n xp) as [an|] eqn:En.
    + destruct (flow k2 d an) as [y|] eqn:Eq; [|discriminate]. inversion Hf; subst x; clear Hf.
      destruct r.
      * cbn in Hs1. rewrite En in Hs1. inversion Hs1; subst an.
        apply (sound_weaken o k2 d a1 y); [apply IHk2; exact Eq|apply xle_join_r|exact HR1].
      * cbn [fst snd]. destruct (xle_join_l d (with_n xp None) y OReturn a1 Hs1) as [b [Hb Lb]].
        exists b. split; [exact Hb|eapply R_mono; eassumption].
      * cbn [fst snd]. destruct (xle_join_l d (with_n xp None) y ORaise a1 Hs1) as [b [Hb Lb]].
        exists b. split; [exact Hb|eapply R_mono; eassumption].
      * cbn [fst snd]. destruct (xle_join_l d (with_n xp None) y OBreak a1 Hs1) as [b [Hb Lb]].
        exists b. split; [exact Hb|eapply R_mono; eassumption].
      * cbn [fst snd]. destruct (xle_join_l d (with_n xp None) y OContinue a1 Hs1) as [b [Hb Lb]].
        exists b. split; [exact Hb|eapply R_mono; eassumption].
    + inversion Hf; subst x; clear Hf.
      destruct r; cbn [fst snd]; try (exists a1; split; assumption).
      cbn in Hs1. congruence.
  - (* With *)
    destruct (flow k (S d) (a_push d a0)) as [xp|] eqn:Ep; [|discriminate]. inversion Hf; subst x; clear Hf.
    destruct (IHk (S d) _ xp Ep (enter s) (R_enter d a0 s HR)) as [a1 [Hs1 HR1]].
    destruct (exec o k (enter s)) as [s1 r]. cbn [fst snd] in *.
    exists a1. split; [exact Hs1|apply R_exit; exact HR1].
  - (* Op *)
    destruct d as [|d]; [discriminate|]. inversion Hf; subst x; clear Hf.
    destruct (c_br (ask o s)) as [|[|n]]; cbn [fst snd sel].
    + eexists. split; [reflexivity|]. eapply R_mono; [apply leq_may|]. apply R_bump. exact HR.
    + eexists. split; [reflexivity|]. apply R_op. apply R_bump. exact HR.
    + eexists. split; [reflexivity|]. eapply R_mono; [apply leq_record_may|]. apply R_op. apply R_bump. exact HR.
  - (* OpLate *)
    destruct d as [|d]; [discriminate|]. inversion Hf; subst x; clear Hf.
    destruct (c_br (ask o s)) as [|[|n]]; cbn [fst snd sel].
    + eexists. split; [reflexivity|]. eapply R_mono; [|apply R_bump; exact HR].
      eapply leq_trans; [apply leq_may|apply leq_join_l].
    + eexists. split; [reflexivity|]. apply R_op. apply R_bump. exact HR.
    + eexists. split; [reflexivity|]. eapply R_mono; [apply leq_join_r|]. apply R_raw. apply R_bump. exact HR.
  - (* Raw *)
    inversion Hf; subst x; clear Hf.
    destruct (c_br (ask o s)) as [|[|n]]; cbn [fst snd sel].
    + eexists. split; [reflexivity|]. eapply R_mono; [apply leq_raw|]. apply R_bump. exact HR.
    + eexists. split; [reflexivity|]. apply R_raw. apply R_bump. exact HR.
    + eexists. split; [reflexivity|]. apply R_raw. apply R_bump. exact HR.
  - (* Save *)
    inversion Hf; subst x; clear Hf. cbn [fst snd sel]. eexists. split; [reflexivity|]. apply R_save. exact HR.
  - (* Restore *)
    inversion Hf; subst x; clear Hf. cbn [fst snd sel]. eexists. split; [reflexivity|]. apply R_restore. exact HR.
  - (* Solve *)
    inversion Hf; subst x; clear Hf.
    destruct (c_br (ask o s)); cbn [fst snd sel]; eexists; (split; [reflexivity|apply R_bump; exact HR]).
  - (* MayRaise *)
    inversion Hf; subst x; clear Hf.
    destruct (c_br (ask o s)); cbn [fst snd sel]; eexists; (split; [reflexivity|apply R_bump; exact HR]).
  - (* Loop *)
    destruct (loop_inv 6 d (flow k d) a0) as [[i xb]|] eqn:El; [|discriminate]. inversion Hf; subst x; clear Hf.
    apply loop_inv_spec in El. destruct El as [L0 [Ei [Ln Lc]]].
    apply (iter_sound d (exec o k) i xb).
    + intros s0 HR0. apply (IHk d i xb Ei s0 HR0).
    + exact Ln.
    + exact Lc.
    + eapply R_mono; [exact L0|]. apply R_bump. exact HR.
  - (* Choice *)
    apply oxjoin_some in Hf. destruct Hf as [xp [xq [Ep [Eq ->]]]].
    destruct (c_br (ask o s)).
    + apply (sound_weaken o k1 d a0 xp); [apply IHk1; exact Ep|apply xle_join_l|apply R_bump; exact HR].
    + apply (sound_weaken o k2 d a0 xq); [apply IHk2; exact Eq|apply xle_join_r|apply R_bump; exact HR].
  - inversion Hf; subst x. exists a0. split; [reflexivity|exact HR].
  - inversion Hf; subst x. exists a0. split; [reflexivity|exact HR].
  - inversion Hf; subst x. exists a0. split; [reflexivity|exact HR].
  - inversion Hf; subst x. exists a0. split; [reflexivity|exact HR].
  - (* TryFinally *)
    destruct (flow k1 d a0) as [xp|] eqn:Ep; [|discriminate].
    destruct (IHk1 d a0 xp Ep s HR) as [a1 [Hs1 HR1]]. destruct (exec o k1 s) as [s1 r]. cbn [fst snd] in *.
    destruct (fin_all d (flow k2 d) xp x Hf r) as [y [Ey Ly]]. rewrite Hs1 in Ey.
    destruct (fin_sound o k2 d (IHk2 d) a1 r y s1 Ey HR1) as [a2 [Hs2 HR2]].
    destruct (exec o k2 s1) as [s2 r2]. cbn [fst snd] in *.
    destruct (Ly _ _ Hs2) as [a3 [Hs3 L3]]. exists a3. split; [destruct r2; exact Hs3|eapply R_mono; eassumption].
  - (* TryCatch *)
    destruct (flow k1 d a0) as [xp|] eqn:Ep; [|discriminate].
    destruct (IHk1 d a0 xp Ep s HR) as [a1 [Hs1 HR1]]. destruct (exec o k1 s) as [s1 r]. cbn [fst snd] in *.
    destruct (x_rai xp) as [ar|] eqn:Er.
    + destruct (flow k2 d ar) as [y|] eqn:Eh; [|discriminate]. inversion Hf; subst x; clear Hf.
      assert (Hpass : forall r', sel xp r' = Some a1 ->
                exists a', sel (xjoin xp y) r' = Some a' /\ R d a' s1).
      { intros r' Hr'. destruct (xle_join_l d xp y r' a1 Hr') as [b [Hb Lb]]. exists b.
        split; [exact Hb|eapply R_mono; eassumption]. }
      destruct r; try (apply Hpass; exact Hs1).
      cbn in Hs1. rewrite Er in Hs1. inversion Hs1; subst ar.
      destruct (c_br (ask o s1)).
      * cbn [fst snd]. destruct (xle_join_l d xp y ORaise a1 Er) as [b [Hb Lb]]. exists b.
        split; [exact Hb|]. eapply R_mono; [exact Lb|]. apply R_bump. exact HR1.
      * apply (sound_weaken o k2 d a1 y); [apply IHk2; exact Eh|apply xle_join_r|apply R_bump; exact HR1].
    + inversion Hf; subst x; clear Hf.
      destruct r; cbn [fst snd]; try (exists a1; split; assumption).
      cbn in Hs1. congruence.
  - (* OnCopy *)
    inversion Hf; subst x; clear Hf. destruct (exec o k s) as [s1 r]. cbn [fst snd].
    exists a0. split; [destruct r; reflexivity|]. apply R_hist. exact HR.
  - (* Scope *)
    destruct (flow k d a0) as [xp|] eqn:Ep; [|discriminate]. inversion Hf; subst x; clear Hf.
    destruct (IHk d a0 xp Ep s HR) as [a1 [Hs1 HR1]]. destruct (exec o k s) as [s1 r]. cbn [fst snd] in *.
    destruct r; cbn [sel] in *; try (exists a1; split; assumption).
    + rewrite Hs1. destruct (ojoin_l d a1 (x_ret xp)) as [b [Hb Lb]]. exists b.
      split; [exact Hb|eapply R_mono; eassumption].
    + rewrite Hs1. destruct (ojoin_r d a1 (x_n xp)) as [b [Hb Lb]]. exists b.
      split; [exact Hb|eapply R_mono; eassumption].
Qed.

End Restore.

Lemma clean_dirty : forall e a, clean e = true -> e = Some a -> forall k, a_dirty a k = false.
Proof.
  intros e a H -> k. unfold clean in H. pose proof (forallb_kinds _ H k) as E. cbn beta in E.
  apply negb_true_iff in E. exact E.
Qed.

(* THE frame theorem: a skeleton accepted by sk_ok leaves resources and context stack exactly as
   they were, for every oracle (every pattern of succeeding / infeasible / raising solves, every
   branch, every number of loop iterations) and every start state (inside or outside a user
   context, whatever the model is). *)
Theorem sk_ok_restores :
  forall k, sk_ok k = true -> forall (o : oracle) (s : state), observable (fst (exec o k s)) = observable s.
Proof.
  intros k Hok o s. unfold sk_ok in Hok. destruct (flow k 0 a0) as [x|] eqn:Ef; [|discriminate].
  assert (HR0 : R (res s) (ctx s) 0 a0 s).
  { exists []. cbn. repeat split; auto. intros n k0 []. }
  destruct (flow_sound (res s) (ctx s) o k 0 a0 x Ef s HR0) as [a' [Hsel HR']].
  assert (Hcl : clean (sel x (snd (exec o k s))) = true).
  { apply andb_prop in Hok. destruct Hok as [Hok H5]. apply andb_prop in Hok. destruct Hok as [Hok H4].
    apply andb_prop in Hok. destruct Hok as [Hok H3]. apply andb_prop in Hok. destruct Hok as [H1 H2].
    destruct (snd (exec o k s)); assumption. }
  pose proof (clean_dirty _ _ Hcl Hsel) as Hd.
  destruct HR' as [frs [Hc [Hl [_ [Hpk _]]]]].
  destruct frs; [|discriminate]. cbn in Hc. unfold observable. f_equal; [|exact Hc].
  apply store_ext. intros k0. specialize (Hpk k0 (Hd k0)). cbn in Hpk. exact Hpk.
Qed.

(* Calling the same analysis a second time: the second call starts from the identical model
   (by sk_ok_restores), so with an oracle that is a function of the model and of its own previous
   answers in the call (a deterministic program over a solver whose answers are determined by the
   problem) it makes the same choices and ends with the same outcome and the same state. *)
Theorem repeat_same :
  forall k, sk_ok k = true -> forall (o : oracle) (s : state),
    let s1 := fst (exec o k s) in
    exec o k (mkState (res s1) (ctx s1) (saved s) (hist s)) = exec o k s.
Proof.
  intros k Hok o s s1. pose proof (sk_ok_restores k Hok o s) as H. unfold observable in H.
  inversion H as [[Hr Hc]]. fold s1 in Hr, Hc. rewrite Hr, Hc. destruct s; reflexivity.
Qed.

(* the diagnostic report is empty exactly when the static check accepts *)
Lemma filter_nil_forallb : forall (A : Type) (f : A -> bool) l, filter f l = [] -> forallb (fun x => negb (f x)) l = true.
Proof.
  intros A f l. induction l as [|x t IH]; cbn; intros H; [reflexivity|].
  destruct (f x); [discriminate|]. cbn. apply IH. exact H.
Qed.

Lemma sk_report_nil : forall k, sk_report k = [] -> sk_ok k = true.
Proof.
  intros k H. unfold sk_report, sk_ok in *. destruct (flow k 0 a0) as [x|]; [|discriminate].
  assert (Hc : forall e, (match e with None => [] | Some a => filter (a_dirty a) all_kinds end) = [] -> clean e = true).
  { intros [a|] He; [|reflexivity]. unfold clean. apply filter_nil_forallb. exact He. }
  cbn [filter snd negb] in H.
  repeat match type of H with
  | context [match ?l with [] => true | _ :: _ => false end] =>
      let E := fresh "E" in destruct l eqn:E; cbn [negb] in H; [|discriminate]
  end.
  rewrite !Hc by assumption. reflexivity.
Qed.
