(* C13 correspondence / monitor functions evaluated by harness/c13.py on observations of the real
   implementation.  Nothing in this file is a theorem.

   A case is what the harness saw around ONE call of an analysis on a real cobra model:
     before / after : the full observation of the model (obsmodel.observe), cut into sections and
                      hashed per section  [content; bounds; objective; direction; genes; raw GLPK
                      problem; context depth + solver + tolerance]
     events         : what the model under test did during the call, as seen by wrappers around
                      Model.__enter__ (0), Model.__exit__ (1), HistoryManager.__call__ of one of the
                      model's own contexts (2), solver.optimize (3)
     repeat_ok      : two consecutive calls gave the same uniquely defined results (true when not compared)

   code 1      : the implementation left the frame of the model (Model.v: a recorded edit outside every
                 `with model:` block opened by the call, unbalanced enter/exit)
   code 10 + i : section i of the observation differs after the call  (property monitor)
   code 30     : repeated call gave different uniquely defined results (property monitor) *)
From Coq Require Import ZArith List Bool Arith.
Import ListNotations.

Record case := mkCase { c_before : list Z; c_after : list Z; c_events : list nat; c_repeat_ok : bool }.

(* depth relative to the start of the call; None = left the frame *)
Fixpoint trace_depth (d : nat) (ev : list nat) : option nat :=
  match ev with
  | [] => Some d
  | 0 :: t => trace_depth (S d) t
  | 1 :: t => match d with O => None | S d' => trace_depth d' t end
  | 2 :: t => match d with O => None | S _ => trace_depth d t end
  | _ :: t => trace_depth d t
  end.

Definition trace_ok (ev : list nat) : bool :=
  match trace_depth 0 ev with Some O => true | _ => false end.

Fixpoint diff_sections (i : nat) (a b : list Z) : list nat :=
  match a, b with
  | [], [] => []
  | x :: a', y :: b' => (if Z.eqb x y then [] else [10 + i]) ++ diff_sections (S i) a' b'
  | _, _ => [29]
  end.

Definition check_case (c : case) : list nat :=
  (if trace_ok (c_events c) then [] else [1]) ++
  diff_sections 0 (c_before c) (c_after c) ++
  (if c_repeat_ok c then [] else [30]).

Definition failing (cases : list (Z * case)) : list (Z * list (nat * nat)) :=
  flat_map (fun p => match check_case (snd p) with
                     | [] => []
                     | l => [(fst p, map (fun code => (0, code)) l)]
                     end) cases.
