(* C13 -- analyses leave the model as they found it.

   Executable model of what the analyses of cobrapy do to a model, at the level the
   property needs: WHICH resource of the model is written, whether the write is recorded on
   the model's HistoryManager stack (cobra/util/context.py), and on which control paths
   (normal, early return, exception, break/continue) the function is left.

   * state      : the resources of a model (one abstract value per resource kind), the stack
                  of undo lists `model._contexts` (HistoryManager._history, newest first),
                  the local variables an analysis uses to remember a value
                  (`original_direction = self.objective.direction`), the list of the
                  non-deterministic choices made so far.
   * oracle     : an arbitrary function from (the observable model state, the choices made so far
                  in this run) to (branch, value).  It decides
                  whether a solve / call / mutator succeeds or raises (and whether it raises
                  before or after it has written), which value is written, which branch of an
                  `if` is taken, how many iterations a loop makes and whether an `except`
                  clause catches.  Theorems quantify over every oracle.
   * skeletons  : the control/mutation skeleton of an analysis (generated from the source by
                  harness/tables_frame.py into Gen/Skeletons.v).
   * exec       : big-step semantics,  exec oracle skeleton state = (state', outcome).

   Nothing in this file is a theorem; proofs are in Proofs.v. *)
From Coq Require Import ZArith List Bool Arith.
Import ListNotations.

(* ------------------------------------------------------------------ resources *)

Inductive kind :=
| KBounds      (* bounds of the reactions (Reaction.bounds / lower_bound / upper_bound / knock_out, Model.medium) *)
| KObjective   (* objective expression of the solver problem *)
| KDirection   (* objective direction *)
| KConsVars    (* which extra variables / constraints the solver problem has *)
| KConsAttr    (* bounds / coefficients of those extra variables and constraints *)
| KGenes       (* gene functional flags *)
| KContent     (* reactions / metabolites / genes / groups lists and cross references *)
| KSolver.     (* solver interface / configuration object (model.solver = ...) *)

Definition all_kinds := [KBounds; KObjective; KDirection; KConsVars; KConsAttr; KGenes; KContent; KSolver].

Definition kind_eq_dec : forall a b : kind, {a = b} + {a <> b}.
Proof. decide equality. Defined.
Definition kind_eqb (a b : kind) : bool := if kind_eq_dec a b then true else false.

Definition val := Z.

Record store := mkStore { s_bounds : val; s_objective : val; s_direction : val; s_consvars : val;
                          s_consattr : val; s_genes : val; s_content : val; s_solver : val }.

Definition get (k : kind) (r : store) : val :=
  match k with
  | KBounds => s_bounds r | KObjective => s_objective r | KDirection => s_direction r
  | KConsVars => s_consvars r | KConsAttr => s_consattr r | KGenes => s_genes r | KContent => s_content r | KSolver => s_solver r
  end.

Definition set (k : kind) (v : val) (r : store) : store :=
  match k with
  | KBounds => mkStore v (s_objective r) (s_direction r) (s_consvars r) (s_consattr r) (s_genes r) (s_content r) (s_solver r)
  | KObjective => mkStore (s_bounds r) v (s_direction r) (s_consvars r) (s_consattr r) (s_genes r) (s_content r) (s_solver r)
  | KDirection => mkStore (s_bounds r) (s_objective r) v (s_consvars r) (s_consattr r) (s_genes r) (s_content r) (s_solver r)
  | KConsVars => mkStore (s_bounds r) (s_objective r) (s_direction r) v (s_consattr r) (s_genes r) (s_content r) (s_solver r)
  | KConsAttr => mkStore (s_bounds r) (s_objective r) (s_direction r) (s_consvars r) v (s_genes r) (s_content r) (s_solver r)
  | KGenes => mkStore (s_bounds r) (s_objective r) (s_direction r) (s_consvars r) (s_consattr r) v (s_content r) (s_solver r)
  | KContent => mkStore (s_bounds r) (s_objective r) (s_direction r) (s_consvars r) (s_consattr r) (s_genes r) v (s_solver r)
  | KSolver => mkStore (s_bounds r) (s_objective r) (s_direction r) (s_consvars r) (s_consattr r) (s_genes r) (s_content r) v
  end.

(* ------------------------------------------------------------------ HistoryManager *)

(* one HistoryManager: the recorded undo closures, newest first.  Every undo closure the
   analyses' mutators register re-installs an old value with the *raw* setter
   (`partial(func, self, old_value)` in `resettable`, `reset()` in set_objective,
   `partial(model.solver.remove, what)`), so an entry is (resource, old value). *)
Definition frame := list (kind * val).

(* HistoryManager.reset: pop and call, newest first *)
Fixpoint replay (fr : frame) (r : store) : store :=
  match fr with
  | [] => r
  | (k, v) :: t => replay t (set k v r)
  end.

Record choice := mkC { c_br : nat; c_val : val }.

Record state := mkState {
  res : store;                 (* the model's resources *)
  ctx : list frame;            (* model._contexts, top of the stack first *)
  saved : nat -> val;          (* local variables of the analysis holding a remembered value *)
  hist : list choice           (* oracle choices consumed so far, newest first *)
}.

(* what the property talks about: the model (resources) and its context stack *)
Definition observable (s : state) : store * list frame := (res s, ctx s).

(* An oracle may look at the model (resources and context stack) and at everything it answered
   before in this run: a deterministic program on top of a solver whose answers are a function of
   the problem it is given is one such oracle; an adversarial one (fault at the k-th call) another. *)
Definition oracle := store * list frame -> list choice -> choice.
Definition ask (o : oracle) (s : state) : choice := o (observable s) (hist s).

Definition bump (c : choice) (s : state) : state := mkState (res s) (ctx s) (saved s) (c :: hist s).

(* Model.__enter__ *)
Definition enter (s : state) : state := mkState (res s) ([] :: ctx s) (saved s) (hist s).

(* Model.__exit__: pop the top HistoryManager and reset() it *)
Definition exit_ (s : state) : state :=
  match ctx s with
  | [] => s
  | fr :: rest => mkState (replay fr (res s)) rest (saved s) (hist s)
  end.

(* context(undo): get_context returns the top HistoryManager, or None outside every context
   (then nothing is recorded) *)
Definition record (k : kind) (s : state) : state :=
  match ctx s with
  | [] => s
  | fr :: rest => mkState (res s) (((k, get k (res s)) :: fr) :: rest) (saved s) (hist s)
  end.

Definition write (k : kind) (v : val) (s : state) : state :=
  mkState (set k v (res s)) (ctx s) (saved s) (hist s).

(* ------------------------------------------------------------------ skeletons *)

Inductive sk :=
| Skip
| Seq (a b : sk)
| With (a : sk)                 (* with model: a *)
| Op (k : kind)                 (* context-aware mutator that registers its undo BEFORE writing (resettable) *)
| OpLate (k : kind)             (* context-aware mutator that writes first and registers its undo afterwards *)
| Raw (k : kind)                (* write that is not recorded *)
| Save (slot : nat) (k : kind)  (* local := current value of the resource *)
| Restore (slot : nat) (k : kind)   (* raw write of the remembered value *)
| Solve                         (* solver.optimize(): may raise *)
| MayRaise                      (* any other call that may raise *)
| Loop (a : sk)
| Choice (a b : sk)
| Return
| Raise
| Break
| Continue
| TryFinally (a b : sk)
| TryCatch (a h : sk)
| OnCopy (a : sk)               (* a acts on model.copy(), not on the model *)
| Scope (a : sk).               (* body of a called function: its `return` ends the call, not the caller *)

Definition seqs (l : list sk) : sk := fold_right Seq Skip l.

Inductive outcome := ONormal | OReturn | ORaise | OBreak | OContinue.

Fixpoint iter (n : nat) (f : state -> state * outcome) (s : state) : state * outcome :=
  match n with
  | O => (s, ONormal)
  | S n' =>
      let (s1, r) := f s in
      match r with
      | ONormal | OContinue => iter n' f s1
      | OBreak => (s1, ONormal)
      | _ => (s1, r)
      end
  end.

Fixpoint exec (o : oracle) (k : sk) (s : state) : state * outcome :=
  match k with
  | Skip => (s, ONormal)
  | Seq a b =>
      let (s1, r) := exec o a s in
      match r with ONormal => exec o b s1 | _ => (s1, r) end
  | With a =>
      let (s1, r) := exec o a (enter s) in (exit_ s1, r)
  | Op kd =>
      let c := ask o s in let s' := bump c s in
      match c_br c with
      | 0 => (s', ORaise)                                         (* raises before doing anything *)
      | 1 => (write kd (c_val c) (record kd s'), ONormal)
      | _ => (write kd (c_val c) (record kd s'), ORaise)          (* raises after (partially) writing *)
      end
  | OpLate kd =>
      let c := ask o s in let s' := bump c s in
      match c_br c with
      | 0 => (s', ORaise)
      | 1 => (write kd (c_val c) (record kd s'), ONormal)
      | _ => (write kd (c_val c) s', ORaise)                      (* raised between write and registration *)
      end
  | Raw kd =>
      let c := ask o s in let s' := bump c s in
      match c_br c with
      | 0 => (s', ORaise)
      | 1 => (write kd (c_val c) s', ONormal)
      | _ => (write kd (c_val c) s', ORaise)
      end
  | Save n kd =>
      (mkState (res s) (ctx s) (fun m => if Nat.eqb m n then get kd (res s) else saved s m) (hist s), ONormal)
  | Restore n kd => (write kd (saved s n) s, ONormal)
  | Solve | MayRaise =>
      let c := ask o s in
      match c_br c with 0 => (bump c s, ORaise) | _ => (bump c s, ONormal) end
  | Loop a => let c := ask o s in iter (c_br c) (exec o a) (bump c s)
  | Choice a b =>
      let c := ask o s in
      match c_br c with 0 => exec o a (bump c s) | _ => exec o b (bump c s) end
  | Return => (s, OReturn)
  | Raise => (s, ORaise)
  | Break => (s, OBreak)
  | Continue => (s, OContinue)
  | TryFinally a b =>
      let (s1, r) := exec o a s in
      let (s2, r2) := exec o b s1 in
      (s2, match r2 with ONormal => r | _ => r2 end)
  | TryCatch a h =>
      let (s1, r) := exec o a s in
      match r with
      | ORaise => let c := ask o s1 in
                  match c_br c with
                  | 0 => (bump c s1, ORaise)             (* exception type not caught *)
                  | _ => exec o h (bump c s1)
                  end
      | _ => (s1, r)
      end
  | OnCopy a =>
      let (s1, r) := exec o a s in
      (mkState (res s) (ctx s) (saved s) (hist s1), r)
  | Scope a =>
      let (s1, r) := exec o a s in
      (s1, match r with OReturn => ONormal | _ => r end)
  end.

(* ------------------------------------------------------------------ the static check sk_ok *)

(* A forward data-flow analysis over the skeleton.  At depth d (= number of `with model:` blocks
   of the skeleton itself that are open) it tracks
     a_dirty k   : the value resource k will have once all open blocks of the skeleton have been
                   left MAY differ from its value at entry;
     a_lv i      : for the i-th open block (0 = outermost) the resources that MUST / MAY have an
                   undo entry on its HistoryManager;
     a_sv        : (slot, k) pairs such that local `slot` MUST hold the entry value of k.       *)
Definition kset := kind -> bool.
Definition kempty : kset := fun _ => false.
Definition kadd (k : kind) (s : kset) : kset := fun x => if kind_eq_dec x k then true else s x.
Definition kdel (k : kind) (s : kset) : kset := fun x => if kind_eq_dec x k then false else s x.

Record astate := mkA { a_dirty : kset; a_lv : nat -> kset * kset; a_sv : list (nat * kind) }.

Definition sv_eqb (p q : nat * kind) : bool := Nat.eqb (fst p) (fst q) && kind_eqb (snd p) (snd q).
Definition sv_mem (p : nat * kind) (l : list (nat * kind)) : bool := existsb (sv_eqb p) l.

(* tabulated copies of a set / of the level table (same function pointwise, see norm_k_eq and
   norm_lv_eq in Proofs.v): without them the closures built by nested joins share nothing and
   evaluating sk_ok takes time exponential in the size of the skeleton *)
Definition norm_k (s : kset) : kset :=
  let b1 := s KBounds in let b2 := s KObjective in let b3 := s KDirection in let b4 := s KConsVars in
  let b5 := s KGenes in let b6 := s KContent in let b7 := s KSolver in let b8 := s KConsAttr in
  fun k => match k with
           | KBounds => b1 | KObjective => b2 | KDirection => b3 | KConsVars => b4
           | KGenes => b5 | KContent => b6 | KSolver => b7 | KConsAttr => b8
           end.
Definition norm_lv (lv : nat -> kset * kset) : nat -> kset * kset :=
  let t := map (fun i => let p := lv i in (norm_k (fst p), norm_k (snd p))) (seq 0 8) in
  fun i => match nth_error t i with Some p => p | None => lv i end.

Definition join (a b : astate) : astate :=
  mkA (norm_k (fun k => a_dirty a k || a_dirty b k))
      (norm_lv (fun i => (fun k => fst (a_lv a i) k && fst (a_lv b i) k, fun k => snd (a_lv a i) k || snd (a_lv b i) k)))
      (filter (fun p => sv_mem p (a_sv b)) (a_sv a)).

Definition levels (d : nat) := seq 0 d.
Definition cov (d : nat) (a : astate) (k : kind) : bool := existsb (fun i => fst (a_lv a i) k) (levels d).
Definition mcov (d : nat) (a : astate) (k : kind) : bool := existsb (fun i => snd (a_lv a i) k) (levels d).

(* a <= b : a is at least as precise as b (on the levels below d) *)
Definition leqb (d : nat) (a b : astate) : bool :=
  forallb (fun k => implb (a_dirty a k) (a_dirty b k)) all_kinds &&
  forallb (fun i => forallb (fun k => implb (fst (a_lv b i) k) (fst (a_lv a i) k) &&
                                      implb (snd (a_lv a i) k) (snd (a_lv b i) k)) all_kinds) (levels d) &&
  forallb (fun p => sv_mem p (a_sv a)) (a_sv b).

(* Raw edits of a resource count as undone by an earlier recorded edit of the same resource in
   an open block only for resources that are snapshotted as a whole: the objective and its
   direction (set_objective's undo re-installs both) and the attributes of the extra
   variables/constraints (add_cons_vars' undo removes the added objects together with whatever was
   edited on them; assumption A2: such edits target objects added in an open block).  Bounds, gene
   flags, content and the set of extra variables/constraints itself (solver.add / solver.remove)
   are recorded per object, so a raw edit of them is never considered covered. *)
Definition coverable (k : kind) : bool :=
  match k with KObjective | KDirection | KConsAttr => true | _ => false end.

Definition upd_lv (lv : nat -> kset * kset) (i : nat) (l : kset * kset) : nat -> kset * kset :=
  fun j => if Nat.eqb j i then l else lv j.

(* recorded on the top block (level d-1) *)
Definition a_record (d : nat) (k : kind) (a : astate) : astate :=
  mkA (a_dirty a)
      (upd_lv (a_lv a) (pred d) (kadd k (fst (a_lv a (pred d))), kadd k (snd (a_lv a (pred d)))))
      (a_sv a).
Definition a_record_may (d : nat) (k : kind) (a : astate) : astate :=
  mkA (a_dirty a)
      (upd_lv (a_lv a) (pred d) (fst (a_lv a (pred d)), kadd k (snd (a_lv a (pred d)))))
      (a_sv a).
Definition a_raw (d : nat) (k : kind) (a : astate) : astate :=
  mkA (if cov d a k && coverable k then a_dirty a else kadd k (a_dirty a)) (a_lv a) (a_sv a).
Definition a_save (d : nat) (n : nat) (k : kind) (a : astate) : astate :=
  let others := filter (fun p => negb (Nat.eqb (fst p) n)) (a_sv a) in
  mkA (a_dirty a) (a_lv a)
      (if negb (a_dirty a k) && negb (mcov d a k) then (n, k) :: others else others).
Definition a_restore (d : nat) (n : nat) (k : kind) (a : astate) : astate :=
  if cov d a k && coverable k then a
  else if negb (mcov d a k) && sv_mem (n, k) (a_sv a)
       then mkA (kdel k (a_dirty a)) (a_lv a) (a_sv a)
       else mkA (kadd k (a_dirty a)) (a_lv a) (a_sv a).
Definition a_push (d : nat) (a : astate) : astate :=
  mkA (a_dirty a) (upd_lv (a_lv a) d (kempty, kempty)) (a_sv a).

Definition ojoin (a b : option astate) : option astate :=
  match a, b with
  | None, x => x
  | x, None => x
  | Some a, Some b => Some (join a b)
  end.

Record exits := mkX { x_n : option astate; x_ret : option astate; x_rai : option astate;
                      x_brk : option astate; x_cnt : option astate }.
Definition xjoin (x y : exits) : exits :=
  mkX (ojoin (x_n x) (x_n y)) (ojoin (x_ret x) (x_ret y)) (ojoin (x_rai x) (x_rai y))
      (ojoin (x_brk x) (x_brk y)) (ojoin (x_cnt x) (x_cnt y)).
Definition xnone : exits := mkX None None None None None.
Definition sel (x : exits) (r : outcome) : option astate :=
  match r with
  | ONormal => x_n x | OReturn => x_ret x | ORaise => x_rai x | OBreak => x_brk x | OContinue => x_cnt x
  end.
Definition with_n (x : exits) (n : option astate) : exits := mkX n (x_ret x) (x_rai x) (x_brk x) (x_cnt x).

(* find a loop invariant: an abstract state I above A that the body maps below I *)
Fixpoint loop_inv (fuel : nat) (d : nat) (fa : astate -> option exits) (a : astate) : option (astate * exits) :=
  match fa a with
  | None => None
  | Some x =>
      let b := match ojoin (x_n x) (x_cnt x) with None => a | Some b' => join a b' end in
      if leqb d b a then Some (a, x)
      else match fuel with O => None | S f => loop_inv f d fa b end
  end.

(* run the `finally` part from one exit of the protected part *)
Definition fin_from (fb : astate -> option exits) (e : option astate) (r : outcome) : option exits :=
  match e with
  | None => Some xnone
  | Some a =>
      match fb a with
      | None => None
      | Some y =>
          (* normal completion of the finally block re-raises / re-returns the pending outcome *)
          Some (xjoin (with_n y None)
                      (match r with
                       | ONormal => mkX (x_n y) None None None None
                       | OReturn => mkX None (x_n y) None None None
                       | ORaise => mkX None None (x_n y) None None
                       | OBreak => mkX None None None (x_n y) None
                       | OContinue => mkX None None None None (x_n y)
                       end))
      end
  end.

Definition oxjoin (a b : option exits) : option exits :=
  match a, b with Some x, Some y => Some (xjoin x y) | _, _ => None end.

Fixpoint flow (k : sk) (d : nat) (a : astate) : option exits :=
  match k with
  | Skip => Some (mkX (Some a) None None None None)
  | Seq p q =>
      match flow p d a with
      | None => None
      | Some x =>
          match x_n x with
          | None => Some x
          | Some a1 =>
              match flow q d a1 with
              | None => None
              | Some y => Some (xjoin (with_n x None) y)
              end
          end
      end
  | With p =>
      match flow p (S d) (a_push d a) with
      | None => None
      | Some x => Some x
      end
  | Op kd =>
      match d with
      | O => None                                     (* would be recorded on the caller's context, or not at all *)
      | S _ => Some (mkX (Some (a_record d kd a)) None (Some (a_record_may d kd a)) None None)
      end
  | OpLate kd =>
      match d with
      | O => None
      | S _ => Some (mkX (Some (a_record d kd a)) None
                         (Some (join (a_record_may d kd a) (a_raw d kd a))) None None)
      end
  | Raw kd => Some (mkX (Some (a_raw d kd a)) None (Some (a_raw d kd a)) None None)
  | Save n kd => Some (mkX (Some (a_save d n kd a)) None None None None)
  | Restore n kd => Some (mkX (Some (a_restore d n kd a)) None None None None)
  | Solve | MayRaise => Some (mkX (Some a) None (Some a) None None)
  | Loop p =>
      match loop_inv 6 d (flow p d) a with
      | None => None
      | Some (i, x) => Some (mkX (ojoin (Some i) (x_brk x)) (x_ret x) (x_rai x) None None)
      end
  | Choice p q => oxjoin (flow p d a) (flow q d a)
  | Return => Some (mkX None (Some a) None None None)
  | Raise => Some (mkX None None (Some a) None None)
  | Break => Some (mkX None None None (Some a) None)
  | Continue => Some (mkX None None None None (Some a))
  | TryFinally p q =>
      match flow p d a with
      | None => None
      | Some x =>
          oxjoin (fin_from (flow q d) (x_n x) ONormal)
            (oxjoin (fin_from (flow q d) (x_ret x) OReturn)
               (oxjoin (fin_from (flow q d) (x_rai x) ORaise)
                  (oxjoin (fin_from (flow q d) (x_brk x) OBreak)
                          (fin_from (flow q d) (x_cnt x) OContinue))))
      end
  | TryCatch p h =>
      match flow p d a with
      | None => None
      | Some x =>
          match x_rai x with
          | None => Some x
          | Some ar =>
              match flow h d ar with
              | None => None
              | Some y => Some (xjoin x y)
              end
          end
      end
  | OnCopy p => Some (mkX (Some a) (Some a) (Some a) (Some a) (Some a))
  | Scope p =>
      match flow p d a with
      | None => None
      | Some x => Some (mkX (ojoin (x_n x) (x_ret x)) None (x_rai x) (x_brk x) (x_cnt x))
      end
  end.

Definition a0 : astate := mkA kempty (fun _ => (kempty, kempty)) [].

Definition clean (e : option astate) : bool :=
  match e with
  | None => true
  | Some a => forallb (fun k => negb (a_dirty a k)) all_kinds
  end.

Definition sk_ok (k : sk) : bool :=
  match flow k 0 a0 with
  | None => false
  | Some x => clean (x_n x) && clean (x_ret x) && clean (x_rai x) && clean (x_brk x) && clean (x_cnt x)
  end.

(* which exits are reachable and dirty: used by the check to explain a failing skeleton *)
Definition sk_report (k : sk) : list (nat * list kind) :=
  match flow k 0 a0 with
  | None => [(9, all_kinds)]
  | Some x =>
      let d e := match e with None => [] | Some a => filter (a_dirty a) all_kinds end in
      filter (fun p => negb (match snd p with [] => true | _ => false end))
        [(0, d (x_n x)); (1, d (x_ret x)); (2, d (x_rai x)); (3, d (x_brk x)); (4, d (x_cnt x))]
  end.
