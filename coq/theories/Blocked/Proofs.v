(* Proofs for C19. *)
From Coq Require Import QArith List Bool Lia Lqa.
From Cobra.LP Require Import Defs Cert Fba.
From Cobra.FVA Require Import Model Proofs.
From Cobra.Blocked Require Import Model.
Import ListNotations.
Open Scope Q_scope.

(* ------------------------------------------------------------------ thresholds *)
Lemma below_ok cutoff x : below cutoff x = true <-> Qabs' x < cutoff.
Proof.
  unfold below. rewrite negb_true_iff. split; intros H.
  - destruct (Qlt_le_dec (Qabs' x) cutoff) as [L|L]; [exact L|]. apply Qle_bool_iff in L. congruence.
  - destruct (Qle_bool cutoff (Qabs' x)) eqn:E; [|reflexivity]. apply Qle_bool_iff in E. lra.
Qed.

Lemma abs_lt cutoff x : Qabs' x < cutoff <-> - cutoff < x /\ x < cutoff.
Proof. unfold Qabs'. destruct (Qle_bool 0 x) eqn:E; qb; split; intros; lra. Qed.

Lemma abs_zero x : Qabs' x == 0 <-> x == 0.
Proof. unfold Qabs'. destruct (Qle_bool 0 x) eqn:E; qb; split; intros; lra. Qed.

(* ------------------------------------------------------------------ the zero objective *)
Lemma dot_zero_objs (rs : list rxn) : forall v,
  dot (map rx_obj (map (fun r => mkRxn (rx_col r) (rx_lb r) (rx_ub r) 0) rs)) v == 0.
Proof.
  induction rs as [|r rs IH]; intros v; cbn [map dot rx_obj]; [reflexivity|].
  destruct v as [|x v]; [reflexivity|]. rewrite IH. lra.
Qed.

Lemma met_row_zero_obj rs i : met_row (map (fun r => mkRxn (rx_col r) (rx_lb r) (rx_ub r) 0) rs) i = met_row rs i.
Proof. unfold met_row. rewrite map_map. reflexivity. Qed.

Lemma feasible_zero_objective m v : feasible (net_lp (zero_objective m)) v <-> feasible (net_lp m) v.
Proof.
  unfold feasible, net_lp, zero_objective; cbn [vbounds rows rxns nmets].
  rewrite map_map. cbn [rx_lb rx_ub].
  assert (E : map (fun i => zero_row (met_row (map (fun r => mkRxn (rx_col r) (rx_lb r) (rx_ub r) 0) (rxns m)) i)) (seq 0 (nmets m))
            = map (fun i => zero_row (met_row (rxns m) i)) (seq 0 (nmets m))).
  { apply map_ext. intros i. rewrite met_row_zero_obj. reflexivity. }
  rewrite E. tauto.
Qed.

(* FVA at fraction_of_optimum = 0 of the zero objective ranges over the whole flux polytope: the
   requirement  0 >= 0 * optimum  holds for every distribution                                   *)
Theorem zero_scope m opt v : in_scope (zero_objective m) (0 * opt) None v <-> feasible (net_lp m) v.
Proof.
  unfold in_scope, keeps. rewrite feasible_zero_objective. cbn [maximize zero_objective].
  unfold objv, cvec. cbn [rxns zero_objective]. rewrite dot_zero_objs. split; [tauto|].
  intros H. split; [exact H|]. split; [lra|exact I].
Qed.

(* with the model's own objective (the tree before the repair) the FVA ranges only over the part
   of the polytope where the objective is not negative (not positive, when minimising)            *)
Theorem objective_scope m opt v :
  in_scope m (0 * opt) None v <-> feasible (net_lp m) v /\ (if maximize m then 0 <= objv m v else objv m v <= 0).
Proof.
  unfold in_scope, keeps. destruct (maximize m).
  - split; [intros [H1 [H2 _]]; split; [exact H1|lra]|intros [H1 H2]; split; [exact H1|split; [lra|exact I]]].
  - split; [intros [H1 [H2 _]]; split; [exact H1|lra]|intros [H1 H2]; split; [exact H1|split; [lra|exact I]]].
Qed.

(* ------------------------------------------------------------------ find_blocked *)
Lemma in_find_blocked cutoff (g : nat -> Q * Q) l j :
  In j (find_blocked cutoff (map (fun j => (j, g j)) l)) <-> In j l /\ span_below cutoff (j, g j) = true.
Proof.
  unfold find_blocked. rewrite in_map_iff. split.
  - intros [[j' r] [E H]]. cbn in E. subst j'. apply filter_In in H as [H1 H2].
    apply in_map_iff in H1 as [j'' [E' Hin]]. injection E' as -> <-. split; assumption.
  - intros [Hin Hs]. exists (j, g j). split; [reflexivity|]. apply filter_In. split; [|exact Hs].
    apply in_map_iff. exists j. split; [reflexivity|exact Hin].
Qed.

Definition exact_range (m : fbamodel) (j : nat) (r : Q * Q) : Prop :=
  is_min (fun v => feasible (net_lp m) v) (flux j) (fst r) /\ is_max (fun v => feasible (net_lp m) v) (flux j) (snd r).

(* the pipeline: pre-filter by a feasible solution, exact ranges for the remaining, cut-off *)
Definition find_blocked_full (cutoff : Q) (sol : vec) (L : list nat) (ranges : nat -> Q * Q) : list nat :=
  find_blocked cutoff (map (fun j => (j, ranges j)) (prefilter cutoff sol L)).

Theorem blocked_cutoff_spec m cutoff sol L ranges :
  feasible (net_lp m) sol ->
  (forall j, In j L -> exact_range m j (ranges j)) ->
  forall j, In j (find_blocked_full cutoff sol L ranges) <->
            In j L /\ forall v, feasible (net_lp m) v -> Qabs' (flux j v) < cutoff.
Proof.
  intros Hsol Hr j. unfold find_blocked_full. rewrite in_find_blocked. unfold prefilter. rewrite filter_In.
  unfold span_below; cbn [fst snd]. rewrite andb_true_iff, !below_ok. split.
  - intros [[HL Hs] [Hlo Hhi]]. split; [exact HL|]. intros v Hv.
    destruct (Hr j HL) as [[_ Hmin] [_ Hmax]]. specialize (Hmin v Hv). specialize (Hmax v Hv).
    apply abs_lt in Hlo, Hhi. apply abs_lt. lra.
  - intros [HL Hall]. split; [split; [exact HL|apply Hall; exact Hsol]|].
    destruct (Hr j HL) as [[[v1 [H1 E1]] _] [[v2 [H2 E2]] _]].
    pose proof (Hall v1 H1) as A1. pose proof (Hall v2 H2) as A2.
    apply abs_lt in A1, A2. split; apply abs_lt; lra.
Qed.

(* no range is "tiny": an extreme is either exactly 0 or at least the cut-off in magnitude *)
Definition no_tiny (cutoff : Q) (r : Q * Q) : Prop :=
  (fst r == 0 \/ cutoff <= Qabs' (fst r)) /\ (snd r == 0 \/ cutoff <= Qabs' (snd r)).

Theorem blocked_spec m cutoff sol L ranges :
  0 < cutoff -> feasible (net_lp m) sol ->
  (forall j, In j L -> exact_range m j (ranges j) /\ no_tiny cutoff (ranges j)) ->
  forall j, In j (find_blocked_full cutoff sol L ranges) <-> In j L /\ blocked_true m j.
Proof.
  intros Hc Hsol Hr j.
  rewrite (blocked_cutoff_spec m cutoff sol L ranges Hsol (fun j H => proj1 (Hr j H))).
  split; intros [HL H]; (split; [exact HL|]).
  - destruct (Hr j HL) as [[[[v1 [H1 E1]] Hmin] [[v2 [H2 E2]] Hmax]] [N1 N2]].
    pose proof (H v1 H1) as A1. pose proof (H v2 H2) as A2. apply abs_lt in A1, A2.
    assert (Z1 : fst (ranges j) == 0).
    { destruct N1 as [Z|T]; [exact Z|]. destruct (Qabs'_spec (fst (ranges j))) as [_ [_ [_ [A|A]]]]; lra. }
    assert (Z2 : snd (ranges j) == 0).
    { destruct N2 as [Z|T]; [exact Z|]. destruct (Qabs'_spec (snd (ranges j))) as [_ [_ [_ [A|A]]]]; lra. }
    intros v Hv. specialize (Hmin v Hv). specialize (Hmax v Hv). lra.
  - intros v Hv. unfold blocked_true in H. rewrite (proj2 (abs_zero _) (H v Hv)). exact Hc.
Qed.

(* the result does not depend on the objective once it is zeroed: only bounds and stoichiometry enter *)
Theorem blocked_true_objective_free m j : blocked_true (zero_objective m) j <-> blocked_true m j.
Proof. unfold blocked_true. split; intros H v Hv; apply H; apply feasible_zero_objective; exact Hv. Qed.

(* ------------------------------------------------------------------ fastcc *)
Theorem witness_sound m j v : check_witness m j v = true -> ~ blocked_true m j.
Proof.
  unfold check_witness. rewrite andb_true_iff, negb_true_iff. intros [Hf Hn] Hb.
  apply feasible_b_ok in Hf. specialize (Hb v Hf). apply Qeq_bool_iff in Hb. congruence.
Qed.

Lemma Forall2_app_prefix {A B} (R : A -> B -> Prop) l1 l2 x y :
  length x = length l1 -> Forall2 R (l1 ++ l2) (x ++ y) -> Forall2 R l1 x.
Proof.
  revert x. induction l1 as [|a l1 IH]; intros x HL H; destruct x as [|b x]; cbn in HL; try discriminate.
  - constructor.
  - cbn in H. inversion H; subst. constructor; [assumption|]. apply IH; [lia|assumption].
Qed.

(* a point of any extension of cobrapy's problem restricts to a point of that problem *)
Theorem extension_sound p evb erows c x aux :
  rows_fit p -> length x = length (vbounds p) ->
  feasible (extension p evb erows c) (x ++ aux) -> feasible p x.
Proof.
  intros Hfit HL [Hv Hr]. unfold extension in *; cbn [vbounds rows] in *. split.
  - eapply Forall2_app_prefix; [exact HL|exact Hv].
  - apply Forall_app in Hr as [Hr _]. unfold rows_fit in Hfit. rewrite Forall_forall in *. intros r Hin.
    specialize (Hr r Hin). specialize (Hfit r Hin).
    apply (row_ok_proper (x ++ aux) r (dot (r_coef r) x)) in Hr; [exact Hr|]. apply dot_app_short. lia.
Qed.

Lemma above_nonzero cutoff x : 0 <= cutoff -> above cutoff x = true -> ~ x == 0.
Proof.
  unfold above. rewrite negb_true_iff. intros Hc H E.
  assert (Qle_bool (Qabs' x) cutoff = true); [|congruence].
  apply Qle_bool_iff. rewrite (proj2 (abs_zero x) E). exact Hc.
Qed.

(* fastcc_sound: a reaction that is active (|flux| > cutoff) in a point of one of fastcc's LPs carries
   non-zero flux in a feasible distribution of the model                                          *)
Theorem fastcc_active_sound m evb erows c zs aux cutoff j :
  valid_model m -> 0 <= cutoff -> length zs = length (rxns m) ->
  feasible (extension (split_lp m) evb erows c) (flat zs ++ aux) ->
  nth j (active cutoff (nets zs)) false = true -> ~ blocked_true m j.
Proof.
  intros Hv Hc HL Hf Ha Hb.
  apply extension_sound in Hf; [|apply split_fit|rewrite length_flat, split_nvars; lia].
  destruct (split_to_net m zs Hv Hf) as [Hn _]. specialize (Hb _ Hn).
  unfold active in Ha.
  assert (Ha' : above cutoff (flux j (nets zs)) = true).
  { unfold flux. clear Hb. revert Ha. generalize (nets zs). intros l. revert j.
    induction l as [|x l IH]; intros j H; destruct j; cbn in *; try discriminate; [exact H|apply IH; exact H]. }
  exact (above_nonzero cutoff _ Hc Ha' Hb).
Qed.

(* fastcc_keeps: the returned model is the input minus the dropped reactions: the kept reactions are the
   flagged ones, unchanged (stoichiometry column, bounds, objective coefficient) and in the same order *)
Theorem fastcc_keeps keep : forall rs, keep_rxns keep rs = map snd (filter fst (combine keep rs)).
Proof.
  induction keep as [|k keep IH]; intros rs; [reflexivity|]. destruct rs as [|r rs]; [reflexivity|].
  cbn [keep_rxns combine filter fst]. destruct k; cbn [map snd]; rewrite IH; reflexivity.
Qed.

Corollary fastcc_kept_in m keep r : In r (rxns (fastcc_result m keep)) -> In r (rxns m).
Proof.
  cbn [fastcc_result rxns]. rewrite fastcc_keeps. intros H. apply in_map_iff in H as [[k r'] [E H]].
  cbn in E. subst r'. apply filter_In in H as [H _]. apply in_combine_r in H. exact H.
Qed.
