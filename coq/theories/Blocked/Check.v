(* Correspondence + monitor functions for C19, evaluated by vm_compute on the observations the harness
   took from the real find_blocked_reactions / fastcc.  Nothing here is a theorem.            *)
From Coq Require Import QArith List Bool ZArith.
From Cobra.LP Require Import Defs Cert Fba.
From Cobra.FVA Require Import Model Check.
From Cobra.Blocked Require Import Model.
Import ListNotations.
Open Scope Q_scope.

Record fastobs := mkFast {
  f_keep : list bool;             (* which reactions of the input are in the returned model *)
  f_same : bool;                  (* returned model = copy minus the dropped reactions: ids in order, stoichiometry,
                                     bounds, gene rule of every kept reaction unchanged, input model untouched *)
  f_witness : list (nat * vec);   (* per kept reaction a feasible distribution with non-zero flux (exact oracle) *)
  f_result_clean : bool           (* exact analysis of the returned network: no blocked reaction in it *)
}.

Record c19case := mkC19 {
  b_m : fbamodel;
  b_exch : list bool;                     (* flags of model.exchanges *)
  b_open : bool;                          (* open_exchanges *)
  b_L : list nat;                         (* reaction_list (positions, request order) *)
  b_ranges : list (rcert * rcert);        (* per reaction of the model: certificates of the exact minimum / maximum flux
                                             over the whole polytope of the (opened) model *)
  b_impl : option (list nat);             (* find_blocked_reactions result (positions); None = raised *)
  b_fast : option fastobs                 (* fastcc on the same model (only when open_exchanges = false) *)
}.

Definition tiny : Q := 1 # 100000.
Definition is_zero (x : Q) : bool := Qeq_bool x 0.
Definition ill (x : Q) : bool := negb (is_zero x) && negb (Qle_bool tiny (Qabs' x)).

(* exact (min, max) of every reaction over P(opened model), through the proved FVA formulation of the
   zero-objective model at fraction 0 (Blocked/Proofs.v zero_scope + FVA fva_*_correct_any)       *)
Definition exact_ranges (m' : fbamodel) (cs : list (rcert * rcert)) : option (list (Q * Q)) :=
  let m0 := zero_objective m' in
  match exact_rows m0 0 None (seq 0 (length (rxns m'))) cs with
  | Some rows =>
      fold_right (fun r acc => match r, acc with (Some lo, Some hi), Some l => Some ((lo, hi) :: l) | _, _ => None end)
                 (Some []) rows
  | None => None
  end.

Definition truly_blocked (rs : list (Q * Q)) (j : nat) : bool :=
  let r := nth j rs (1, 1) in is_zero (fst r) && is_zero (snd r).

Fixpoint eq_nats (a b : list nat) : bool :=
  match a, b with [] , [] => true | x :: a', y :: b' => Nat.eqb x y && eq_nats a' b' | _, _ => false end.
Definition mem (j : nat) (l : list nat) : bool := existsb (Nat.eqb j) l.

Definition fast_checks (m : fbamodel) (rs : list (Q * Q)) (f : fastobs) : list nat :=
  let n := length (rxns m) in
  let kept := filter (fun j => nth j (f_keep f) false) (seq 0 n) in
  let dropped := filter (fun j => negb (nth j (f_keep f) false)) (seq 0 n) in
  (if Nat.eqb (length (f_keep f)) n && f_same f then [] else [6%nat]) ++
  (if forallb (fun j => existsb (fun w => Nat.eqb (fst w) j && check_witness m j (snd w)) (f_witness f)) kept
   then [] else [4%nat]) ++
  (* a dropped reaction that is not blocked: code 15 when no reaction of the model is reversible (lb < 0 < ub) — there
     the unchanged fastcc is complete (docs/C19.md) and the known finding never applies —, code 5 otherwise *)
  (if forallb (truly_blocked rs) dropped then []
   else if forallb (fun r => negb (eneg (rx_lb r) && epos (rx_ub r))) (rxns m) then [15%nat] else [5%nat]) ++
  (if f_result_clean f then [] else [7%nat]).

Definition checks (c : c19case) : list nat :=
  let m := b_m c in
  if negb (valid_model_b m) then [9%nat] else
  let m' := opened m (b_exch c) (b_open c) in
  if negb (valid_model_b m') then [9%nat] else
  match exact_ranges m' (b_ranges c) with
  | None => [9%nat]
  | Some rs =>
      if existsb (fun r => ill (fst r) || ill (snd r)) rs then [9%nat] else
      let expected := filter (truly_blocked rs) (b_L c) in
      match b_impl c with
      | None => [8%nat]
      | Some im =>
          (if forallb (truly_blocked rs) im then [] else [2%nat]) ++
          (if forallb (fun j => mem j im) expected then [] else [3%nat]) ++
          (if forallb (fun j => mem j (b_L c)) im && (eq_nats im expected || negb (forallb (truly_blocked rs) im)
                                                     || negb (forallb (fun j => mem j im) expected))
           then [] else [1%nat])
      end ++
      match b_fast c with
      | None => []
      | Some f => fast_checks m rs f
      end
  end.

Definition failing (cases : list (Z * c19case)) : list (Z * list (nat * nat)) :=
  filter (fun r => match snd r with [] => false | _ => true end)
         (map (fun c => (fst c, map (fun k => (0%nat, k)) (checks (snd c)))) cases).
