(* Executable model of find_blocked_reactions (flux_analysis/variability.py) and of the parts of
   fastcc (flux_analysis/fastcc.py) the property C19 talks about.

   find_blocked_reactions(model, reaction_list, zero_cutoff, open_exchanges):
     with model:
       if open_exchanges: every reaction of model.exchanges gets bounds (min(lb,-1000), max(ub,1000))
       model.slim_optimize(); fluxes of reaction_list -> keep those with |flux| < cutoff   (pre-filter)
       [repaired tree: model.objective = Zero — blockedness does not depend on the objective]
       flux_variability_analysis(model, fraction_of_optimum=0.0, reaction_list=those)
       return the ids whose max(|minimum|, |maximum|) < cutoff
   On the tree before the repair the FVA ran with the model's objective, i.e. over
   {v in P | c.v >= 0*optimum} (">=" for max): modelled by the flag `zero_objective = false`.   *)
From Coq Require Import QArith List Bool Lia Lqa.
From Cobra.LP Require Import Defs Cert Fba.
From Cobra.FVA Require Import Model.
Import ListNotations.
Open Scope Q_scope.

(* ------------------------------------------------------------------ specification *)
Definition blocked_true (m : fbamodel) (j : nat) : Prop := forall v, feasible (net_lp m) v -> flux j v == 0.

(* ------------------------------------------------------------------ open_exchanges *)
Definition emin (b : ebound) (q : Q) : ebound :=      (* min(bound, q) *)
  match b with NegInf => NegInf | PosInf => Fin q | Fin x => Fin (if Qle_bool x q then x else q) end.
Definition emax (b : ebound) (q : Q) : ebound :=      (* max(bound, q) *)
  match b with PosInf => PosInf | NegInf => Fin q | Fin x => Fin (if Qle_bool q x then x else q) end.
Definition open_rxn (is_ex : bool) (r : rxn) : rxn :=
  if is_ex then mkRxn (rx_col r) (emin (rx_lb r) (-1000)) (emax (rx_ub r) 1000) (rx_obj r) else r.
Fixpoint open_rxns (ex : list bool) (rs : list rxn) : list rxn :=
  match ex, rs with
  | e :: ex', r :: rs' => open_rxn e r :: open_rxns ex' rs'
  | _, _ => rs
  end.
(* `exchanges`: the flags of model.exchanges (a heuristic over ids, compartments and SBO terms: property C18) *)
Definition opened (m : fbamodel) (exchanges : list bool) (open_exchanges : bool) : fbamodel :=
  if open_exchanges then mkFba (nmets m) (open_rxns exchanges (rxns m)) (maximize m) else m.

(* model.objective = Zero *)
Definition zero_objective (m : fbamodel) : fbamodel :=
  mkFba (nmets m) (map (fun r => mkRxn (rx_col r) (rx_lb r) (rx_ub r) 0) (rxns m)) true.

(* ------------------------------------------------------------------ the analysis *)
Definition below (cutoff x : Q) : bool := negb (Qle_bool cutoff (Qabs' x)).      (* abs(x) < cutoff *)

(* pre-filter: requested reactions whose flux in the solution at hand is below the cut-off *)
Definition prefilter (cutoff : Q) (sol : vec) (L : list nat) : list nat :=
  filter (fun j => below cutoff (flux j sol)) L.

(* the FVA table is data: (reaction, (minimum, maximum)) rows for the pre-filtered reactions *)
Definition span_below (cutoff : Q) (row : nat * (Q * Q)) : bool :=
  below cutoff (fst (snd row)) && below cutoff (snd (snd row)).      (* max(|min|,|max|) < cutoff *)
Definition find_blocked (cutoff : Q) (table : list (nat * (Q * Q))) : list nat :=
  map fst (filter (span_below cutoff) table).

(* the model the FVA step works on, and the requirement it keeps (fraction_of_optimum = 0) *)
Definition fva_model (m : fbamodel) (zero_obj : bool) : fbamodel := if zero_obj then zero_objective m else m.

(* ------------------------------------------------------------------ fastcc *)
(* consistent_model = model.copy(); consistent_model.remove_reactions(rxns_to_remove, remove_orphans=True) *)
Fixpoint keep_rxns (keep : list bool) (rs : list rxn) : list rxn :=
  match keep, rs with
  | k :: keep', r :: rs' => if k then r :: keep_rxns keep' rs' else keep_rxns keep' rs'
  | _, _ => []
  end.
Definition fastcc_result (m : fbamodel) (keep : list bool) : fbamodel :=
  mkFba (nmets m) (keep_rxns keep (rxns m)) (maximize m).

(* the LPs of fastcc are extensions of the model's problem: further variables (the auxiliaries) and
   further rows over all variables, with some objective                                          *)
Definition extension (p : lp) (evb : list (ebound * ebound)) (erows : list row) (c : vec) : lp :=
  mkLP (vbounds p ++ evb) (rows p ++ erows) c.

(* _find_sparse_mode ("LP7"): per selected reaction an auxiliary variable in [0, threshold] and the
   constraint  forward + reverse - auxiliary >= 0  (as written in the source); maximise the sum of the
   auxiliaries.  Variables: the forward/reverse pairs, then one auxiliary per selected reaction.
   `flipped` reactions (_flip_coefficients) have the coefficients of forward and reverse negated. *)
Definition aux_unit (k i : nat) : vec := map (fun i' => if Nat.eqb i' i then -1 else 0) (seq 0 k).
Definition lp7_row (m : fbamodel) (k : nat) (flipped : bool) (ij : nat * nat) : row :=
  let c := if flipped then (-1, -1) else (1, 1) in
  mkRow (flat (set_pair (zero_obj m) (snd ij) c) ++ aux_unit k (fst ij)) (Fin 0) PosInf.
Definition lp7 (m : fbamodel) (sel : list (nat * bool)) (threshold : Q) (objsign : Q) : lp :=
  let k := length sel in
  extension (split_lp m) (repeat (Fin 0, Fin threshold) k)
    (map (fun t => lp7_row m k (snd (snd t)) (fst t, fst (snd t))) (combine (seq 0 k) sel))
    (repeat 0 (2 * length (rxns m)) ++ repeat objsign k).

(* result = [rxn for rxn in model.reactions if abs(rxn.flux) > zero_cutoff] *)
Definition above (cutoff x : Q) : bool := negb (Qle_bool (Qabs' x) cutoff).
Definition active (cutoff : Q) (v : vec) : list bool := map (above cutoff) v.

(* certificate that a reaction is not blocked: a feasible distribution with non-zero flux through it *)
Definition check_witness (m : fbamodel) (j : nat) (v : vec) : bool :=
  feasible_b (net_lp m) v && negb (Qeq_bool (flux j v) 0).
