"""C08 -- gene rules are Boolean functions with a faithful text form.

Correspondence of cobra.core.gene.GPR (from_string / eval / genes / to_string / copy / pickle /
as_symbolic / from_symbolic / ==) and cobra.manipulation.delete (_GeneRemover, remove_genes) with the
Gallina model coq/theories/GPR/{Syntax,Escape,Remover}.v, plus the Coq-defined monitors of
coq/theories/GPR/Check.v evaluated on the implementation's own observations."""
import ast
import itertools
import json
import keyword
import logging
import os
import pickle
import random
import sys
import warnings

sys.path.insert(0, os.path.dirname(os.path.abspath(__file__)))
import common as K  # noqa: E402
from common import C, Raw, Some, coq  # noqa: E402

sys.path.insert(0, os.path.join(K.REPO, "src"))

PROP = "C08"

# ------------------------------------------------------------------ case language (JSON-able)
# tree:  "gene id"  |  ["And"|"Or", tree, ...]          rule: tree | None (empty rule)
# case:  {"text": str, "tree": rule-or-"NA", "others": [rule...], "Ks": [[id...]...], "kind": str}


def zs(s):
    return Raw("[" + "; ".join(str(ord(c)) for c in s) + "]")


def tree_term(t):
    if isinstance(t, str):
        return C("Gene", zs(t))
    return C("Bool", C(t[0]), [tree_term(c) for c in t[1:]])


def rule_term(r):
    return Raw("None") if r is None else Some(tree_term(r))


def ids_term(l):
    return [zs(x) for x in l]


def genes_of(t):
    if t is None:
        return []
    if isinstance(t, str):
        return [t]
    out = []
    for c in t[1:]:
        out += genes_of(c)
    return out


def ref_eval(t, ko):
    """independent reference evaluator (used only to steer generators)"""
    if t is None:
        return True
    if isinstance(t, str):
        return t not in ko
    vals = [ref_eval(c, ko) for c in t[1:]]
    return all(vals) if t[0] == "And" else any(vals)


def canon_print(t, lvl=0):
    if t is None:
        return ""
    if isinstance(t, str):
        return t
    s = (" and " if t[0] == "And" else " or ").join(canon_print(c, lvl + 1) for c in t[1:])
    return "(" + s + ")" if lvl else s


# ------------------------------------------------------------------ implementation side

def dump(body):
    if body is None:
        return None
    if isinstance(body, ast.Name):
        return body.id
    if isinstance(body, ast.BoolOp):
        return [type(body.op).__name__] + [dump(v) for v in body.values]
    raise TypeError("unexpected node %s" % type(body).__name__)


def subsets(ids, rng, cap):
    ids = sorted(ids)
    if 2 ** len(ids) <= cap:
        return [list(c) for n in range(len(ids) + 1) for c in itertools.combinations(ids, n)]
    out = [[], list(ids)]
    for _ in range(cap - 2):
        out.append([g for g in ids if rng.random() < 0.5])
    return out


def observe(case, seed):
    """Run the real code on one case; returns a JSON-able observation."""
    from cobra.core.gene import GPR
    from cobra.core import Model, Reaction
    from cobra.manipulation.delete import _GeneRemover, remove_genes
    rng = random.Random(seed)
    text = case["text"]
    try:
        g = GPR.from_string(text)
        tree = dump(g.body)
    except Exception as e:  # noqa
        return {"parse": ["exc", type(e).__name__], "items": []}
    items = []

    def guarded(what, fn):
        """an exception while observing a rule that parsed is itself an observation"""
        try:
            fn()
        except Exception as e:  # noqa
            items.append(["raised", what, type(e).__name__])
    try:
        gl = sorted(g.genes)
    except Exception as e:  # noqa
        return {"parse": ["tree", tree], "items": [["raised", "genes", type(e).__name__]]}
    items.append(["genes", gl])
    guarded("to_string", lambda: items.append(["to_string", g.to_string()]))
    guarded("str", lambda: items.append(["str", str(g)]))

    def ev(ko):
        items.append(["eval", ko, bool(g.eval(set(ko)))])
    for ko in subsets(gl, rng, 64):
        guarded("eval", lambda: ev(ko))
    if gl:
        extra = "zz_not_in_rule"
        for ko in ([extra], [gl[0], extra], gl + [extra]):
            guarded("eval", lambda: ev(ko))

    def same(kind, mk):
        def run():
            h = mk()
            items.append(["same", kind, dump(h.body), sorted(h.genes), bool(g == h)])
            # a rule obtained through a round trip must also BEHAVE like the original under the in-place
            # transformers (gene removal): same remaining genes, same Boolean function
            for ko in case.get("Ks", [])[:2]:
                a, b = g.copy(), h.copy()
                for x in (a, b):
                    _GeneRemover(set(ko)).visit(x)
                    if not hasattr(x, "body"):
                        x.body = None
                ga, gb = sorted(a.genes), sorted(b.genes)
                ok = ga == gb and all(bool(a.eval(set(k))) == bool(b.eval(set(k))) for k in subsets(ga, rng, 16))
                if not ok:
                    items.append(["raised", "remove-after-same%d" % kind, "NotEquivalent"])
        guarded("same%d" % kind, run)

    def via_reaction():
        r = Reaction("R")
        r.gene_reaction_rule = text
        return pickle.loads(pickle.dumps(r)).gpr
    def via_reaction_after_edit():
        # an earlier copy of the same reaction had genes removed from ITS rule in place (what remove_genes does in the
        # model that holds the copy); a later copy of the untouched original must still be the original's rule
        r = Reaction("R")
        r.gene_reaction_rule = text
        first = pickle.loads(pickle.dumps(r))
        _GeneRemover(set(gl[:1])).visit(first.gpr)
        r.copy()
        return pickle.loads(pickle.dumps(r)).gpr
    same(0, lambda: GPR.from_string(g.to_string()))
    same(1, lambda: g.copy())
    same(2, lambda: pickle.loads(pickle.dumps(g)))
    same(3, via_reaction)
    if gl:
        same(3, via_reaction_after_edit)
    if case.get("sym", True):
        same(4, lambda: GPR.from_symbolic(g.as_symbolic()))

    def rem(ko):
        h = g.copy()
        _GeneRemover(set(ko)).visit(h)
        if not hasattr(h, "body"):
            h.body = None              # what remove_genes does next
        items.append(["remove", ko, dump(h.body), sorted(h.genes)])
    for ko in case.get("Ks", []):
        guarded("remove", lambda: rem(ko))

    def remM(rr, ko):
        m = Model("m")
        rx = Reaction("R1")
        m.add_reactions([rx])
        rx.gene_reaction_rule = text
        # the genes to remove in one of the documented argument forms: list / set of identifiers or Gene objects
        form = rng.randrange(4)
        arg = [list(ko), set(ko), [m.genes.get_by_id(x) for x in ko], {m.genes.get_by_id(x) for x in ko}][form]
        remove_genes(m, arg, remove_reactions=bool(rr))
        kept = rx in m.reactions
        items.append(["removeM", bool(rr), ko, kept, dump(rx.gpr.body) if kept else None,
                      sorted(x.id for x in rx.genes) if kept else [], sorted(x.id for x in m.genes)])
    for rr, ko in case.get("KMs", []):
        if not ko or not set(ko) <= set(gl):
            continue
        guarded("removeM", lambda: remM(rr, ko))

    def eq(o):
        h = GPR.from_string(canon_print(o))
        items.append(["eq", dump(h.body), bool(g == h)])
    for o in case.get("others", []):
        guarded("eq", lambda: eq(o))
    return {"parse": ["tree", tree], "items": items}


def item_term(it):
    k = it[0]
    if k == "genes":
        return C("IGenes", ids_term(it[1]))
    if k == "to_string":
        return C("IToString", zs(it[1]))
    if k == "str":
        return C("IStr", zs(it[1]))
    if k == "eval":
        return C("IEval", ids_term(it[1]), bool(it[2]))
    if k == "same":
        return C("ISame", K.nat(it[1]), rule_term(it[2]), ids_term(it[3]), bool(it[4]))
    if k == "remove":
        return C("IRemove", ids_term(it[1]), rule_term(it[2]), ids_term(it[3]))
    if k == "removeM":
        return C("IRemoveM", bool(it[1]), ids_term(it[2]), bool(it[3]), rule_term(it[4]), ids_term(it[5]),
                 ids_term(it[6]))
    if k == "eq":
        return C("IEq", rule_term(it[1]), bool(it[2]))
    if k == "raised":
        return C("IRaised")
    raise ValueError(k)


def case_term(case, ob):
    intended = Raw("None") if case.get("tree", "NA") == "NA" else Some(rule_term(case["tree"]))
    op = C("OExc") if ob["parse"][0] == "exc" else C("OTree", rule_term(ob["parse"][1]))
    return coq((zs(case["text"]), intended, op, [item_term(i) for i in ob["items"]]))


HEADER = """From Coq Require Import ZArith List Bool.
From Cobra.GPR Require Import Syntax Escape Remover Check.
Import ListNotations.
Open Scope Z_scope."""
CASE_TYPE = "case"

# ------------------------------------------------------------------ generators

SPECIALS = ".-:/'\"="
LETTERS = "abcxyzABXYZ"
DIGITS = "0123456789"


def rand_id(rng):
    r = rng.random()
    if r < 0.12:
        return rng.choice(KEYWORDS)
    if r < 0.20:
        return rng.choice(["1e5", "0x1", "1.2", "007", "1_000", "2b", "0", "1j", "0b1", "1e-5", ".5", "5."])
    if 0.27 <= r < 0.35:                           # operator words at the start / end / inside of an identifier
        w = rng.choice(["AND", "OR", "and", "or", "And", "Or", "NOT", "not"])
        k = rng.randrange(6)
        pre = rng.choice(["X", "TUM", "B", "g", "1", "x_", "a."])
        post = rng.choice(["R1", "ES", "F", "y", "2", "_x", ".1"])
        return [w + post, pre + w, pre + w + post, w + w, w + "_", "_" + w][k]
    if r < 0.27:                                   # keyword glued to something
        return rng.choice(KEYWORDS) + rng.choice(SPECIALS + "_1x") + rng.choice(["", "a", "if", "2"])
    n = rng.choice([1, 1, 2, 2, 3, 4, 5, 6, 8])
    out = ""
    for _ in range(n):
        q = rng.random()
        if q < 0.45:
            out += rng.choice(LETTERS)
        elif q < 0.65:
            out += rng.choice(DIGITS)
        elif q < 0.75:
            out += "_"
        elif q < 0.98:
            out += rng.choice(SPECIALS)
        else:
            out += "\\"
    return out


def id_ok(w):
    return (len(w) > 0 and w not in ("and", "or", "AND", "OR") and "COBRA" not in w
            and not w.startswith("__cobra_escape__"))


KEYWORDS = [k for k in keyword.kwlist if k not in ("and", "or")]


def rand_ids(rng, n):
    out = []
    while len(out) < n:
        w = rand_id(rng)
        if id_ok(w) and w not in out:
            out.append(w)
    return out


def all_trees(nodes, genes):
    """Every tree with exactly `nodes` nodes (leaves + BoolOps with >= 2 children)."""
    if nodes == 1:
        for g in genes:
            yield g
        return
    for op in ("And", "Or"):
        for kids in forests(nodes - 1, genes, 2):
            yield [op] + kids


def forests(nodes, genes, min_trees):
    """Lists of >= min_trees trees with `nodes` nodes in total."""
    if nodes == 0:
        if min_trees <= 0:
            yield []
        return
    for first in range(1, nodes + 1):
        if min_trees > 1 and nodes - first < min_trees - 1:
            continue
        for t in all_trees(first, genes):
            for rest in forests(nodes - first, genes, min_trees - 1):
                yield [t] + rest


def rand_tree(rng, genes, nodes):
    if nodes <= 1 or (nodes == 2):
        return rng.choice(genes)
    k = rng.randrange(2, min(5, nodes - 1) + 1)
    budget = nodes - 1 - k
    sizes = [1] * k
    for _ in range(budget):
        sizes[rng.randrange(k)] += 1
    return [rng.choice(["And", "Or"])] + [rand_tree(rng, genes, s) for s in sizes]


PREC = {"or": 1, "OR": 1, "and": 2, "AND": 2, "|": 3, "&": 4}


def spell(rng, t, forms, parent_prec=0, p_par=0.15):
    """A textual spelling of tree t.  forms: operator spellings allowed.  Children are put in
    parentheses unless Python's precedence makes them unnecessary (then at random)."""
    if isinstance(t, str):
        s = t
    else:
        if t[0] == "And":
            f = rng.choice([x for x in forms if x in ("and", "AND", "&")])
        else:
            f = rng.choice([x for x in forms if x in ("or", "OR", "|")])
        parts = [spell(rng, c, forms, PREC[f], p_par) for c in t[1:]]
        s = parts[0]
        for p in parts[1:]:
            if f in ("&", "|"):
                sep = rng.choice(["", " ", "  "]) + f + rng.choice(["", " ", "  "])
            else:
                left = "" if s.endswith(")") and rng.random() < 0.3 else rng.choice([" ", " ", "  "])
                right = "" if p.startswith("(") and rng.random() < 0.3 else rng.choice([" ", " ", "  "])
                sep = left + f + right
            s += sep + p
        if parent_prec and PREC[f] <= parent_prec:
            return "(" + rng.choice(["", " "]) + s + rng.choice(["", " "]) + ")"
    if rng.random() < p_par:
        s = "(" + s + ")"
    return s


def other_rules(rng, t, genes):
    """Rules to compare with `==`: a shuffled copy, a logically equal rewrite, unrelated ones."""
    out = []

    def shuffle(x):
        if isinstance(x, str):
            return x
        kids = [shuffle(c) for c in x[1:]]
        rng.shuffle(kids)
        return [x[0]] + kids
    if t is not None:
        out.append(shuffle(t))
        if not isinstance(t, str):
            out.append([t[0]] + t[1:] + [t[1]])                  # idempotence
            out.append(["Or", t, ["And", t, rng.choice(genes)]])   # absorption (gene set may differ)
            out.append(["And", t, t])
    out.append(rand_tree(rng, genes, rng.randrange(1, 6)))
    rng.shuffle(out)
    return out[:2]


SOUP = ["(", ")", "and", "or", "AND", "OR", "&", "|", " ", "  ", "()", "( )", "a", "b", "if", "1x", "a.b", "not"]


def rand_soup(rng):
    return "".join(rng.choice(SOUP) + rng.choice(["", " "]) for _ in range(rng.randrange(0, 9)))


def make_case(rng, t, genes, forms, kind, n_k=3, n_km=2, canonical=False, sym=True, with_others=True):
    text = canon_print(t) if canonical else (rng.choice(["", " "]) + spell(rng, t, forms) + rng.choice(["", " ", "\t"]))
    gs = sorted(set(genes_of(t)))
    allk = subsets(gs, rng, 16)
    ks = allk if len(allk) <= n_k else rng.sample(allk, n_k)
    kms = []
    for _ in range(n_km):
        ko = [g for g in gs if rng.random() < 0.4] or gs[:1]
        kms.append([rng.random() < 0.6, ko])
    return {"text": text, "tree": t, "kind": kind, "Ks": ks, "KMs": kms, "sym": sym,
            "others": other_rules(rng, t, gs or ["a"]) if with_others else []}


def generate(rng, tier):
    cases = []
    quick = tier == "quick"
    # 1. bounded-exhaustive trees, canonical text (to_string form)
    max_nodes, ngenes = (5, 3) if quick else (6, 4)
    base = ["a", "b2", "c.1", "if"][:ngenes]
    n_ex = 0
    for n in range(1, max_nodes + 1):
        for t in all_trees(n, base):
            cases.append(make_case(rng, t, base, None, "exhaustive", n_k=4 if quick else 8,
                                   n_km=1 if n >= 4 else 2, canonical=True, sym=(n <= 4 or rng.random() < 0.2),
                                   with_others=(n <= 3 or rng.random() < 0.1)))
            n_ex += 1
    # 2. the same trees under random spellings and awkward identifiers
    n_sp = 700 if quick else 12000
    forms_all = [["and", "or"], ["AND", "OR"], ["&", "|"], ["and", "or", "&", "|"], ["and", "or", "AND", "OR"],
                 ["and", "or", "AND", "OR", "&", "|"]]
    for i in range(n_sp):
        ids = rand_ids(rng, rng.randrange(1, 5))
        t = rand_tree(rng, ids, rng.randrange(1, 8))
        cases.append(make_case(rng, t, ids, rng.choice(forms_all), "spelling", n_k=2, n_km=1,
                               sym=rng.random() < 0.3, with_others=rng.random() < 0.3))
    # 3. deeper random trees
    n_deep = 150 if quick else 3000
    for i in range(n_deep):
        ids = rand_ids(rng, rng.randrange(2, 7))
        t = rand_tree(rng, ids, rng.randrange(8, 26))
        cases.append(make_case(rng, t, ids, rng.choice(forms_all), "deep", n_k=2, n_km=1,
                               sym=rng.random() < 0.2, with_others=rng.random() < 0.2))
    # 4. every keyword and every special character as an identifier / inside one
    for kw in KEYWORDS + ["True", "False", "None", "match", "case", "type", "_", "__", "AND", "OR", "And", "oR"]:
        for t in (kw, ["And", kw, "x"], ["Or", "x.1", ["And", kw, kw + "_2"]]):
            cases.append(make_case(rng, t, [kw], ["and", "or"], "keyword", n_k=2, n_km=1, canonical=True,
                                   sym=False, with_others=False))
    for ch in SPECIALS + "_\\":
        for w in (ch, ch + "a", "a" + ch, "a" + ch + "b", "1" + ch + "2", ch + ch, "a_" + ch + "_b", "if" + ch):
            if id_ok(w):
                cases.append(make_case(rng, ["Or", w, ["And", "g", w]], [w], ["and", "or"], "special", n_k=2,
                                       n_km=1, canonical=True, sym=False, with_others=False))
    # 5. blank and malformed texts (token soups): the rule must come out empty or the model says "outside"
    for s in ["", " ", "\t", "()", "( )", "(())", "a()b", "() a", "a or", "and", "a b", "a AND", "a and and b",
              "((a)", "a)", "a (b)", "a( )", "(a)(b)", "a AND (b OR c)", "A AND B or C", "a OR b and c",
              "AND and b", "a & & b", "a | b & c", "a and b | c", "a AND b & c OR d"]:
        cases.append({"text": s, "tree": "NA", "kind": "malformed", "Ks": [], "KMs": [], "others": []})
    for i in range(120 if quick else 3000):
        cases.append({"text": rand_soup(rng), "tree": "NA", "kind": "malformed", "Ks": [[]], "KMs": [],
                      "others": []})
    return cases, n_ex


# ------------------------------------------------------------------ running and deciding

CODES = {1: "model and implementation differ",
         2: "truth value differs from the Boolean and/or value of the expression",
         3: "reported genes are not exactly the genes occurring in the rule",
         4: "a round trip (text / copy / pickle / symbolic) changed the rule or does not compare equal",
         5: "rule after removing genes is not equivalent to the old rule with those genes absent",
         6: "genes reported after removal are not the occurring genes, or a removed gene is still in the model",
         7: "rules compare equal but are not logically equivalent",
         8: "an operation on a parsed rule raised an exception"}


def evaluate(cases, seed):
    obs = [observe(c, seed + i) for i, c in enumerate(cases)]
    terms = [case_term(c, o) for c, o in zip(cases, obs)]
    res, faults = K.coq_eval_cases(HEADER, terms, CASE_TYPE, "failing", shard=150)
    return res, faults, obs


def shrink_candidates(case):
    out = []
    t = case.get("tree", "NA")
    if t != "NA" and t is not None:
        def subs(x):
            """smaller variants of tree x"""
            if isinstance(x, str):
                for i in range(len(x)):
                    w = x[:i] + x[i + 1:]
                    if id_ok(w):
                        yield w
                return
            for c in x[1:]:
                yield c
            if len(x) > 3:
                for i in range(1, len(x)):
                    yield x[:i] + x[i + 1:]
            for i in range(1, len(x)):
                for s in subs(x[i]):
                    yield x[:i] + [s] + x[i + 1:]
        for s in itertools.islice(subs(t), 60):
            gs = set(genes_of(s))
            c = dict(case, tree=s, text=canon_print(s))
            c["Ks"] = [[g for g in ko if g in gs] for ko in case.get("Ks", [])]
            c["KMs"] = [[rr, [g for g in ko if g in gs]] for rr, ko in case.get("KMs", [])]
            out.append(c)
        if case["text"] != canon_print(t):
            out.append(dict(case, text=canon_print(t)))
    else:
        s = case["text"]
        for i in range(len(s)):
            out.append(dict(case, text=s[:i] + s[i + 1:]))
    for key in ("others", "Ks", "KMs"):
        l = case.get(key, [])
        for i in range(len(l)):
            out.append(dict(case, **{key: l[:i] + l[i + 1:]}))
    return out


def shrink(case, want, seed):
    cur = case
    for _ in range(10):
        cands = shrink_candidates(cur)
        if not cands:
            break
        res, faults, _ = evaluate(cands, seed)
        if faults:
            break
        good = [i for i, lst in res if any(code in want for _, code in lst)]
        if not good:
            break
        cur = cands[min(good)]
    return cur


def signature(case, code, step_item):
    sig = {"code": code, "item": step_item}
    return sig


def main(argv=None):
    args = K.parse_args(argv)
    logging.disable(logging.CRITICAL)
    warnings.simplefilter("ignore")
    rep = K.Reporter(PROP, args.tier, args.seed)
    info, broken = K.standard_prelude(PROP, rep, extra_targets=["theories/GPR/Check.vo"])
    gen_file = os.path.join(K.THEORIES, "Gen", "GprTables.v")
    fallback_tables = False
    if not os.path.exists(gen_file):
        # The translator no longer recognises gene.py (already recorded in `broken`).  For the
        # failing-input search only, evaluate the model with the last committed tables.
        import shutil
        shutil.copy(os.path.join(K.VERIF, "harness", "snapshots", "GprTables.v"), gen_file)
        K.build(["theories/GPR/Check.vo"])
        fallback_tables = True
    rng = random.Random(args.seed)
    n_ex = 0
    if args.replay:
        cases = [json.load(open(args.replay))["case"]]
    else:
        cases = []
        corpus = os.path.join(K.VERIF, "corpus", PROP)
        if os.path.isdir(corpus):
            for f in sorted(os.listdir(corpus)):
                if f.endswith(".json"):
                    cases.append(json.load(open(os.path.join(corpus, f)))["case"])
        gen, n_ex = generate(rng, args.tier)
        cases += gen

    res, faults, obs = evaluate(cases, args.seed)
    if faults:
        print("HARNESS FAULT: model evaluation failed:\n" + "\n".join(faults[:3]))
        if not broken:
            broken.append("model evaluation (coqc on generated cases) failed: " + faults[0][-600:])

    kinds, item_kinds, outside, exc = {}, {}, 0, 0
    n_evals = 0
    distinct = set()
    for c, o in zip(cases, obs):
        kinds[c.get("kind", "?")] = kinds.get(c.get("kind", "?"), 0) + 1
        if o["parse"][0] == "exc":
            exc += 1
        for it in o["items"]:
            item_kinds[it[0]] = item_kinds.get(it[0], 0) + 1
            n_evals += 1
        if o["parse"][0] == "tree" and o["parse"][1] is not None and not isinstance(o["parse"][1], str):
            distinct.add(c["text"])

    failing_cases = []
    for idx, lst in sorted(res):
        codes = sorted({code for _, code in lst})
        if codes == [9]:
            outside += 1
            continue
        failing_cases.append((idx, lst))
    seen = set()
    for idx, lst in failing_cases:
        codes = sorted({code for _, code in lst if code != 9})
        want = [c for c in codes if c >= 2] or [1]
        first = min(s for s, code in lst if code in want)
        item_kind = "parse" if first == 0 else obs[idx]["items"][first - 1][0]
        key = (tuple(want), item_kind)
        if key in seen or len(seen) >= 10:
            continue
        seen.add(key)
        small = cases[idx] if args.replay else shrink(cases[idx], set(want), args.seed)
        r2, _, obs2 = evaluate([small], args.seed)
        lst2 = r2[0][1] if r2 else lst
        codes2 = sorted({code for _, code in lst2 if code != 9}) or codes
        code = next((c for c in codes2 if c >= 2), codes2[0])
        fitems = sorted({s for s, cd in lst2 if cd == code})
        replay = {"case": small, "failed": CODES.get(code, str(code)), "codes": codes2,
                  "failing_items": [("parse" if s == 0 else obs2[0]["items"][s - 1]) for s in fitems[:4]],
                  "implementation_observation": obs2[0],
                  "how_to_read": "tree = gene id | [op, child...]; items are the observations of the real GPR "
                                 "(see harness/c08.py observe); codes as in coq/theories/GPR/Check.v",
                  "theorem": "coq/theories/Properties/C08.v"}
        rep.violation(signature(small, code, item_kind), replay)

    if fallback_tables:
        for ext in (".v", ".vo", ".vok", ".vos", ".glob"):
            if os.path.exists(gen_file[:-2] + ext):
                os.remove(gen_file[:-2] + ext)
    if broken and rep.violations == 0:      # known findings never hide a broken obligation
        rep.violation({"broken": True}, {"broken_obligations": broken,
                      "note": "proof obligation or correspondence machinery no longer checks; no failing input found"},
                      no_input=True)

    samples = [cases[i] for i in ([0, len(cases) // 2, len(cases) - 1] if cases else [])]
    evidence = {
        "level": "proof",
        "coverage": {
            "obligations": info["obligations"], "discharged": info["discharged"],
            "checker_cmd": info["checker_cmd"],
            "trusted_base": K.TRUSTED_COMMON + [
                "CPython tokenizer/parser, `re`, sympy And/Or normalisation and `equals`, pickle/deepcopy: modelled "
                "(word-level escaping, recursive-descent parser, flatten+dedupe), validated by this correspondence",
                "harness/tables_gpr.py prints the escaping tables and the order of the escaping steps"],
            "axioms_reported_by_Print_Assumptions": info["axioms"],
            "evaluations": len(cases), "observations_compared": n_evals,
            "distinct_nontrivial": len(distinct),
            "rule": "case = one rule text; every observation of the real GPR object (tree, genes, texts, eval for "
                    "every subset of its genes, round trips, ==, gene removal) is compared with the model and fed "
                    "to the monitors; non-trivial = distinct texts whose parsed rule has at least one operator",
            "samples": samples,
            "traces_validated_against_impl": len(cases) - len(failing_cases) - outside,
            "disagreements_checked": len(failing_cases),
            "outside_model_language": outside, "implementation_raised": exc,
            "exhaustive": bool(n_ex) and not args.replay,
            "exhaustive_space": ("all and/or trees (every BoolOp >= 2 children) with <= %s nodes over %s genes, "
                                 "canonical text: %d cases" % ((("5", "3") if args.tier == "quick" else ("6", "4"))
                                                               + (n_ex,))) if n_ex else "",
            "case_kinds": kinds, "observation_kinds": item_kinds,
            "broken_obligations": broken,
        },
        "assumptions": ["identifiers: ASCII letters, digits, underscore and . - : / ' \" = (and backslash); ids "
                        "containing the reserved word COBRA, starting with __cobra_escape__ or equal to and/or/AND/OR "
                        "are outside", "call syntax `f (x)`, empty parentheses with a blank inside, characters outside "
                        "the token alphabet and non-ASCII text are outside the modelled language"],
    }
    return rep.finish(evidence)


if __name__ == "__main__":
    sys.exit(main())
