"""C10 — SBML export is valid and import(export(model)) is the same model.

Per generated model: real write_sbml_model -> validate_sbml_model -> read_sbml_model (path and string
variants), one and two trips; the written document is parsed with xml.etree into the `doc` record of
IO/SbmlDoc.v and compared with the Gallina write_doc of the model (step 5); read_doc of that document is
compared with the model cobrapy read back (step 6); inside the proved side condition sbml_ok the read-back
must be norm(model) (step 7); identifiers and flux-bound parameter references are compared with the Gallina
codec (IO/SbmlId.v) and _create_bound model; the Coq-defined monitor (IO/SbmlCheck.v) is evaluated on full
observations.
Third-party files: every SBML file shipped under src/cobra/data and tests/data is read with cobrapy and
with an independent xml.etree reader of the fbc-v2 subset; stoichiometry, bounds, objective compared."""
import bz2
import copy
import gzip
import itertools
import json
import os
import random
import shutil
import sys
import tempfile
import xml.etree.ElementTree as ET

sys.path.insert(0, os.path.dirname(os.path.abspath(__file__)))
import common as K  # noqa: E402
import io_models as M  # noqa: E402

sys.path.insert(0, os.path.join(K.REPO, "src"))

PROP = "C10"
VARIANTS = ["path", "string"]
TMP = None
HEADER = """From Coq Require Import ZArith QArith List Bool.
From Cobra.IO Require Import Str JVal DictModel DictCheck SbmlId SbmlDoc SbmlCheck.
From Cobra.GPR Require Syntax.
Import ListNotations.
Open Scope Z_scope."""
CODES = {1: "Gallina model of the SBML codec / bound parameters / written document / reader and the implementation differ",
         2: "writing or reading back failed", 12: "reading back failed: a lower bound is above the default upper bound",
         20: "identifier containing __<digits>__ is not restored by the id codec",
         21: "identifier decoding raises (chr() of a number outside the code point range)",
         3: "round trip changed the model content", 6: "round trip changed the raw LP in the solver",
         7: "the SBML validator reports errors on the written document / second trip changed the model",
         8: "second trip failed"}
STEPS = "steps 1-3 = id codec / bound parameters, 4 = validator, 5 = write_doc vs the written document, 6 = read_doc of the " \
        "written document vs the model read, 7 = round trip of the model vs norm (theorem instance / implementation), " \
        "8 = duplicate SId accepted by the validator, 9 = export / import without id replacement (f_replace {} / None), 100+t / 200+t = first / second trip via "
NS = {"s": "http://www.sbml.org/sbml/level3/version1/core", "f": "http://www.sbml.org/sbml/level3/version1/fbc/version2",
      "g": "http://www.sbml.org/sbml/level3/version1/groups/version1"}
FBC = "{%s}" % NS["f"]


# ------------------------------------------------------------------ generator: the property's domain
def sbml_domain(rng, spec):
    """Keep the generated model inside the quantifier of C10 and away from value classes whose loss was
    observed but not classified (docs/C10.md): empty formula / model name, empty note values, one-element
    annotation lists, model ids that are not SIds, reactions without metabolites, compartment ''."""
    s = copy.deepcopy(spec)
    s["id"] = rng.choice(["m", "model_1", "iTest"])
    if s["name"] == "":
        s["name"] = None
    for m in s["mets"]:
        if m["formula"] == "":
            m["formula"] = None
        if m["compartment"] == "" or (m["compartment"] is None and rng.random() < 0.8):
            m["compartment"] = "c"
        m["_bound"] = 0
    for obj in s["mets"] + s["rxns"] + s["genes"] + [s]:
        # SBML notes are text: only string values (non-string note values are exercised by C11)
        obj["notes"] = {k: v for k, v in obj["notes"].items() if isinstance(v, str) and v != "" and k != "_"}
        obj["annotation"] = {k: v for k, v in obj["annotation"].items() if not (isinstance(v, list) and len(v) < 2)
                             and k in ("sbo", "kegg.compound", "chebi", "bigg.metabolite")}
        if "sbo" in obj["annotation"] and obj is not s and "stoich" not in obj:
            pass
    for r in s["rxns"]:
        r["subsystem"] = ""
        if not r["stoich"]:
            r["stoich"] = [[s["mets"][0]["id"], -1]]
        if "sbo" in r["annotation"]:
            r["annotation"]["sbo"] = "SBO:0000176"
    for g in s["genes"]:
        if "sbo" in g["annotation"]:
            g["annotation"]["sbo"] = "SBO:0000243"
    if "sbo" in s["annotation"]:
        del s["annotation"]["sbo"]
    if s["rxns"] and rng.random() < 0.06:                                  # known finding: 15 significant digits
        r = rng.choice(s["rxns"])
        k = rng.randrange(3)
        if k == 0 and r["stoich"]:
            r["stoich"][0][1] = rng.choice([1 / 3, -2 / 3, 0.1 + 0.2])
        elif k == 1:
            r["bounds"] = [r["bounds"][0], max(r["bounds"][1], 0) + rng.choice([1 / 3, 0.1 + 0.2])]
        else:
            r["objective"] = rng.choice([1 / 3, 2 / 3])
    s["compartments"] = {k: v for k, v in s["compartments"].items() if k != "unused" and k != ""}
    s["sort"] = False
    # groups of reactions / metabolites / genes
    s["groups"] = []
    for gi in range(rng.choice([0, 0, 1, 2])):
        members = []
        for kind, key in (("reactions", "rxns"), ("metabolites", "mets")):
            for x in s[key]:
                if rng.random() < 0.4:
                    members.append([kind, x["id"]])
        for x in s["genes"]:
            if rng.random() < 0.3:
                members.append(["genes", x["id"]])
        s["groups"].append({"id": "grp%d" % gi, "name": rng.choice(["", "Group A"]),
                            "kind": rng.choice(["collection", "classification", "partonomy"]), "members": members})
    return s


# ------------------------------------------------------------------ observation for C10
def truth_table(r):
    genes = sorted(g.id for g in r.genes)
    if len(genes) > 7:
        return str(r.gene_reaction_rule)
    bits = []
    for mask in itertools.product([False, True], repeat=len(genes)):
        ko = {g for g, off in zip(genes, mask) if off}
        bits.append("1" if r.gpr.eval(ko) else "0")
    return ",".join(genes) + "|" + "".join(bits)


def rule_tree(node):
    """GPR.body as a nested list: None | ["g", id] | ["and"/"or", [children]]"""
    import ast
    if node is None:
        return None
    if isinstance(node, ast.Name):
        return ["g", str(node.id)]
    if isinstance(node, ast.BoolOp):
        return ["and" if isinstance(node.op, ast.And) else "or", [rule_tree(v) for v in node.values]]
    return ["?", type(node).__name__]


def observe(model):
    o = M.observe(model)
    for r, x in zip(model.reactions, o["rxns"]):
        x["rule"] = truth_table(r)           # gene rules as Boolean functions
        x["rule_tree"] = rule_tree(r.gpr.body if r.gpr is not None else None)
        x["subsystem"] = ""                 # not among the attributes C10 lists
    for m in o["mets"]:
        m["_bound"] = ["q", 0, 1]
    groups = []
    for g in model.groups:
        groups.append([str(g.id), ["l", [M.jv(g.name), M.jv(g.kind),
                                         ["l", sorted([M.jv(type(x).__name__ + ":" + x.id) for x in g.members],
                                                      key=repr)]]]])
    kinds = {"Gene": 0, "Metabolite": 1, "Reaction": 2}
    o["groups_full"] = [{"id": str(g.id), "name": None if g.name is None else str(g.name), "kind": str(g.kind),
                         "members": sorted([kinds.get(type(x).__name__, 9), str(x.id)] for x in g.members)}
                        for g in model.groups]
    # groups ride along in the model-level notes slot of the abstract record (key "\0groups")
    o["notes"] = o["notes"] + [["\x00groups", ["d", sorted(groups)]]]
    return o


def parse_written(xml_text):
    """species / reaction / geneProduct ids, and per reaction the bound parameter ids with their values."""
    root = ET.fromstring(xml_text)
    model = root.find("s:model", NS)
    params = {}
    for p in model.findall("s:listOfParameters/s:parameter", NS):
        v = p.get("value")
        params[p.get("id")] = float({"INF": "inf", "-INF": "-inf"}.get(v, v))
    sp = [x.get("id") or "" for x in model.findall("s:listOfSpecies/s:species", NS)]
    gp = [x.get(FBC + "id") or "" for x in model.findall("f:listOfGeneProducts/f:geneProduct", NS)]
    rx = []
    for r in model.findall("s:listOfReactions/s:reaction", NS):
        lb, ub = r.get(FBC + "lowerFluxBound"), r.get(FBC + "upperFluxBound")
        rx.append((r.get("id") or "", lb, params.get(lb), ub, params.get(ub)))
    return sp, gp, rx


GRP = "{%s}" % NS["g"]


def _xnum(v):
    return float({"INF": "inf", "-INF": "-inf", "NaN": "nan"}.get(v, v))


def _assoc(e):
    tag = e.tag.replace(FBC, "")
    if tag == "geneProductRef":
        return ["g", e.get(FBC + "geneProduct") or ""]
    if tag in ("and", "or"):
        return [tag, [_assoc(c) for c in e]]
    return ["?", tag]


def parse_doc(xml_text):
    """The written document as the `doc` record of coq/theories/IO/SbmlDoc.v (an unset attribute is "")."""
    root = ET.fromstring(xml_text)
    model = root.find("s:model", NS)
    d = {"id": model.get("id") or "", "name": model.get("name") or ""}
    d["comps"] = [[c.get("id") or "", c.get("name") or ""] for c in model.findall("s:listOfCompartments/s:compartment", NS)]
    d["species"] = [{"id": x.get("id") or "", "name": x.get("name") or "", "comp": x.get("compartment") or "",
                     "charge": None if x.get(FBC + "charge") is None else int(x.get(FBC + "charge")),
                     "formula": x.get(FBC + "chemicalFormula") or "", "boundary": x.get("boundaryCondition") == "true"}
                    for x in model.findall("s:listOfSpecies/s:species", NS)]
    d["params"] = [[x.get("id") or "", M.num(_xnum(x.get("value", "NaN"))), x.get("constant") == "true"]
                   for x in model.findall("s:listOfParameters/s:parameter", NS)]
    d["rxns"] = []
    for r in model.findall("s:listOfReactions/s:reaction", NS):
        refs = {}
        for side in ("Reactants", "Products"):
            refs[side] = [[sr.get("species") or "", M.num(_xnum(sr.get("stoichiometry", "NaN")))]
                          for sr in r.findall("s:listOf%s/s:speciesReference" % side, NS)]
        gpa = r.find("f:geneProductAssociation", NS)
        d["rxns"].append({"id": r.get("id") or "", "name": r.get("name") or "", "reversible": r.get("reversible") == "true",
                          "fast": r.get("fast") == "true", "lb": r.get(FBC + "lowerFluxBound") or "",
                          "ub": r.get(FBC + "upperFluxBound") or "", "reactants": refs["Reactants"],
                          "products": refs["Products"], "assoc": None if gpa is None or len(gpa) == 0 else _assoc(gpa[0])})
    d["gps"] = [[x.get(FBC + "id") or "", x.get(FBC + "name") or "", x.get(FBC + "label") or ""]
                for x in model.findall("f:listOfGeneProducts/f:geneProduct", NS)]
    objs = model.find("f:listOfObjectives", NS)
    d["active"] = "" if objs is None else objs.get(FBC + "activeObjective") or ""
    d["objs"] = []
    for o in ([] if objs is None else objs.findall("f:objective", NS)):
        d["objs"].append([o.get(FBC + "id") or "", o.get(FBC + "type") == "maximize",
                          [[fo.get(FBC + "reaction") or "", M.num(_xnum(fo.get(FBC + "coefficient", "NaN")))]
                           for fo in o.findall("f:listOfFluxObjectives/f:fluxObjective", NS)]])
    d["groups"] = [{"id": g.get(GRP + "id") or "", "name": g.get(GRP + "name") or "", "kind": g.get(GRP + "kind"),
                    "members": [m.get(GRP + "idRef") or "" for m in g.findall("g:listOfMembers/g:member", NS)]}
                   for g in model.findall("g:listOfGroups/g:group", NS)]
    return d


def doc_representable(d):
    nums = [p[1] for p in d["params"]] + [x[1] for r in d["rxns"] for x in r["reactants"] + r["products"]] + \
           [x[1] for o in d["objs"] for x in o[2]]
    if any(n[0] == "nan" for n in nums) or any(x[1][0] != "q" for r in d["rxns"] for x in r["reactants"] + r["products"]) \
            or any(x[1][0] != "q" for o in d["objs"] for x in o[2]):
        return "nan / infinite number where the document record has a rational"
    if any(g["kind"] not in (None, "collection", "classification", "partonomy") for g in d["groups"]):
        return "group kind"
    return None


KINDS = {"collection": "KCollection", "classification": "KClassification", "partonomy": "KPartonomy"}


def c_bool(b):
    return "true" if b else "false"


def c_tree(t):
    if t[0] == "g":
        return "(Syntax.Gene %s)" % M.c_str(t[1])
    if t[0] in ("and", "or"):
        return "(Syntax.Bool Syntax.%s [%s])" % ("And" if t[0] == "and" else "Or", "; ".join(c_tree(x) for x in t[1]))
    raise ValueError(t)


def c_otree(t):
    return "None" if t is None else "(Some %s)" % c_tree(t)


def c_refs(l):
    return "[" + "; ".join("(%s, %s)" % (M.c_str(k), M.c_q(v)) for k, v in l) + "]"


def c_doc(d):
    comps = "; ".join("(%s, %s)" % (M.c_str(a), M.c_str(b)) for a, b in d["comps"])
    species = "; ".join("mkSp %s %s %s %s %s %s" % (
        M.c_str(x["id"]), M.c_str(x["name"]), M.c_str(x["comp"]), "None" if x["charge"] is None else "(Some (%d))" % x["charge"],
        M.c_str(x["formula"]), c_bool(x["boundary"])) for x in d["species"])
    params = "; ".join("(%s, %s, %s)" % (M.c_str(i), M.c_eb(v), c_bool(k)) for i, v, k in d["params"])
    rxns = "; ".join("mkDR %s %s %s %s %s %s %s %s %s" % (
        M.c_str(r["id"]), M.c_str(r["name"]), c_bool(r["reversible"]), c_bool(r["fast"]), M.c_str(r["lb"]), M.c_str(r["ub"]),
        c_refs(r["reactants"]), c_refs(r["products"]), c_otree(r["assoc"])) for r in d["rxns"])
    gps = "; ".join("(%s, %s, %s)" % (M.c_str(a), M.c_str(b), M.c_str(c)) for a, b, c in d["gps"])
    objs = "; ".join("(%s, %s, %s)" % (M.c_str(i), c_bool(mx), c_refs(fl)) for i, mx, fl in d["objs"])
    groups = "; ".join("mkDG %s %s %s [%s]" % (
        M.c_str(g["id"]), M.c_str(g["name"]), "None" if g["kind"] is None else "(Some %s)" % KINDS[g["kind"]],
        "; ".join(M.c_str(x) for x in g["members"])) for g in d["groups"])
    return "(mkDoc %s %s [%s] [%s] [%s] [%s] [%s] %s [%s] [%s])" % (
        M.c_str(d["id"]), M.c_str(d["name"]), comps, species, params, rxns, gps, M.c_str(d["active"]), objs, groups)


def smodel_representable(o):
    if any(x["rule_tree"] is not None and "?" in json.dumps(x["rule_tree"]) for x in o["rxns"]):
        return "rule tree with a node other than Name / BoolOp"
    for g in o["groups_full"]:
        if g["name"] is None or g["kind"] not in KINDS or any(k == 9 for k, _ in g["members"]):
            return "group name None / kind / member type"
    return M.representable(o)


def c_smodel(o):
    """an observation as the `smodel` record of coq/theories/IO/SbmlDoc.v"""
    mets = "; ".join("mkMet %s %s %s %s %s %s %s %s" % (
        M.c_str(m["id"]), M.c_str(m["name"]), M.c_ostr(m["compartment"]),
        "None" if m["charge"] is None else "(Some (%d))" % m["charge"][1], M.c_ostr(m["formula"]), M.c_q(m["_bound"]),
        M.c_items(m["notes"]), M.c_items(m["annotation"])) for m in o["mets"])
    genes = "; ".join("mkGene %s %s %s %s" % (M.c_str(g["id"]), M.c_str(g["name"]), M.c_items(g["notes"]),
                                              M.c_items(g["annotation"])) for g in o["genes"])
    rxns = "; ".join("(mkRxn %s %s %s %s %s %s %s %s %s %s, %s)" % (
        M.c_str(r["id"]), M.c_str(r["name"]), c_refs(r["stoich"]), M.c_eb(r["lb"]), M.c_eb(r["ub"]), M.c_str(r["rule"]),
        M.c_q(r["objective"]), M.c_str(r["subsystem"]), M.c_items(r["notes"]), M.c_items(r["annotation"]),
        c_otree(r["rule_tree"])) for r in o["rxns"])
    comps = "; ".join("(%s, %s)" % (M.c_str(k), M.c_str(v)) for k, v in o["comps_private"])
    groups = "; ".join("mkGroup %s %s %s [%s]" % (
        M.c_str(g["id"]), M.c_str(g["name"]), KINDS[g["kind"]],
        "; ".join("(%d, %s)" % (k, M.c_str(i)) for k, i in g["members"])) for g in o["groups_full"])
    return "(mkSModel %s %s [%s] [%s] [%s] [%s] %s [%s])" % (
        M.c_ostr(o["id"]), M.c_ostr(o["name"]), mets, rxns, genes, comps, c_bool(o["direction"] == "max"), groups)


def codec_obs(kind, s):
    import cobra.io.sbml as S
    rev = [S._f_gene_rev, S._f_specie_rev, S._f_reaction_rev, S._f_group_rev][kind]
    fwd = [S._f_gene, S._f_specie, S._f_reaction, S._f_group][kind]
    enc = rev(s)
    try:
        dec = {"ok": fwd(enc)}
    except Exception as e:
        dec = {"err": type(e).__name__}
    return enc, dec


EXTRA_IDS = ["a__45__b", "__5-", "_5__x", "x__0__", "a.b", "a__SBML_DOT__b", "__", "___", "a__b", "é__233__", "a-", "-",
             "__1114112__", "a__99999999999__", "__45", "45__", "_", "9", "a__4_5__", "a___45__"]


def run_impl(spec, seed):
    import cobra.io as cio
    rng = random.Random(seed)
    out = {"ids": [], "bounds": [], "trips": [], "valid": 0, "validator": []}
    with M.use_cfg(spec["cfg"]):
        model = M.build(spec)
        o0 = observe(model)
        out["obs0"] = o0
        out["skip"] = smodel_representable(o0)
        ids = [(1, m.id) for m in model.metabolites] + [(2, r.id) for r in model.reactions] + \
              [(0, g.id) for g in model.genes] + [(3, g.id) for g in model.groups]
        ids += [(rng.randrange(4), rng.choice(EXTRA_IDS)) for _ in range(3)]
        for kind, s in ids:
            enc, dec = codec_obs(kind, s)
            out["ids"].append((kind, s, enc, dec))
        p = os.path.join(TMP, "m%d.xml" % os.getpid())
        written = None
        try:
            cio.write_sbml_model(model, p)
            written = open(p, encoding="utf-8").read()
        except Exception as e:
            out["write_error"] = {"err": type(e).__name__, "msg": str(e)[:200]}
        if written is not None:
            sp, gp, rx = parse_written(written)
            out["doc"] = parse_doc(written)
            out["written_ids"] = {"species": sp, "genes": gp, "reactions": [x[0] for x in rx]}
            import cobra.io.sbml as S
            exp = {"species": [S._f_specie_rev(m.id) for m in model.metabolites],
                   "genes": [S._f_gene_rev(g.id) for g in model.genes],
                   "reactions": [S._f_reaction_rev(r.id) for r in model.reactions]}
            out["ids_in_document_match"] = (sorted(sp) == sorted(exp["species"]) and sorted(gp) == sorted(exp["genes"])
                                            and [x[0] for x in rx] == exp["reactions"])
            for r, (rid, lb, vlb, ub, vub) in zip(model.reactions, rx):
                out["bounds"].append((r.id, M.num(r.lower_bound), M.num(r.upper_bound), lb, None if vlb is None else M.num(vlb),
                                      ub, None if vub is None else M.num(vub)))
            try:
                _, errs = cio.validate_sbml_model(p)
                bad = [m for k in ("SBML_FATAL", "SBML_ERROR", "SBML_SCHEMA_ERROR")
                       for m in errs.get(k, [])]
            except Exception as e:
                bad = ["validator raised %s" % type(e).__name__]
            out["valid"] = len(bad)
            out["validator"] = [b[:160] for b in bad[:3]]
        for tag, var in enumerate(VARIANTS):
            if written is None:
                out["trips"].append((tag, dict(out["write_error"], stage="write"), {"err": "NotRun"}))
                continue
            try:
                m1 = cio.read_sbml_model(p if var == "path" else written)
            except Exception as e:
                out["trips"].append((tag, {"err": type(e).__name__, "msg": str(e)[:200], "stage": "read"}, {"err": "NotRun"}))
                continue
            o1 = observe(m1)
            try:
                p2 = os.path.join(TMP, "n%d.xml" % os.getpid())
                cio.write_sbml_model(m1, p2)
                m2 = cio.read_sbml_model(p2 if var == "path" else open(p2, encoding="utf-8").read())
                r2 = {"ok": observe(m2)}
            except Exception as e:
                r2 = {"err": type(e).__name__, "msg": str(e)[:200]}
            out["trips"].append((tag, {"ok": o1}, r2))
        if written is not None:
            out["raw_trip"] = raw_trip(cio, written)
    return out


def raw_trip(cio, written):
    """The documented configuration WITHOUT identifier replacement (f_replace = {} or None, on export and on import):
    the document is read raw (identifiers as in the document: R_..., M_..., G_...), exported raw and imported raw again;
    identifiers and rules must come back as they are.  (Monitor on the implementation; the Gallina codec is the default
    configuration.)"""
    fails = []

    def idview(m):
        return {"rxns": [(r.id, r.gene_reaction_rule) for r in m.reactions], "mets": [x.id for x in m.metabolites],
                "genes": sorted(g.id for g in m.genes), "groups": [(g.id, sorted(x.id for x in g.members)) for g in m.groups]}
    try:
        raw = cio.read_sbml_model(written, f_replace={})
    except Exception as e:  # noqa
        return ["reading without replacement raised %s" % type(e).__name__]
    want = idview(raw)
    for fw, fr in ((None, None), ({}, None), (None, {})):
        p3 = os.path.join(TMP, "r%d.xml" % os.getpid())
        try:
            cio.write_sbml_model(raw, p3, f_replace=fw)
            got = idview(cio.read_sbml_model(p3, f_replace=fr))
        except Exception as e:  # noqa
            fails.append("export f_replace=%r / import f_replace=%r raised %s: %s" % (fw, fr, type(e).__name__, str(e)[:100]))
            continue
        if got != want:
            fails.append("export f_replace=%r / import f_replace=%r: identifiers or rules differ: %s" % (
                fw, fr, [k for k in want if want[k] != got[k]]))
    return fails


def _run_one(a):
    return run_impl(*a)


def run_all(specs, seeds):
    import cobra  # noqa: F401
    args = list(zip(specs, seeds))
    if len(args) < 8 or K.JOBS < 2:
        return [run_impl(*a) for a in args]
    # forked children, a few in flight: a worker pool would hang when GLPK aborts a worker (bflib/sgf.c)
    outs = []
    for kind, val in K.map_isolated(_run_one, args, chunk=4):
        outs.append(val if kind == "ok" else
                    {"skip": "process aborted by the solver library or timed out: %s" % val, "obs0": None,
                     "dict": {"err": "aborted"}, "loads": [], "trips": [], "aborted": True})
    return outs


# ------------------------------------------------------------------ Coq terms
def c_res_obs(r, D):
    if "ok" in r:
        if M.representable(r["ok"]):
            return None
        return "(Ok (%s, %s))" % (D.ref("m", "amodel", M.c_model(r["ok"])), D.ref("l", "jval", M.c_jv(r["ok"]["lp"])))
    return M.c_err(r["err"])


def case_term(spec, out, D):
    cfg = "(mkCfg %s %s)" % (M.c_q(M.num(spec["cfg"][0])), M.c_q(M.num(spec["cfg"][1])))
    o0 = out["obs0"]
    obs0 = "(%s, %s)" % (D.ref("m", "amodel", M.c_model(o0)), D.ref("l", "jval", M.c_jv(o0["lp"])))
    ids = []
    for kind, s, enc, dec in out["ids"]:
        d = "(Ok %s)" % M.c_str(dec["ok"]) if "ok" in dec else M.c_err(dec["err"])
        ids.append("(%d, %s, %s, %s)" % (kind, M.c_str(s), M.c_str(enc), d))
    bounds = []
    for rid, lb, ub, plb, vlb, pub, vub in out["bounds"]:
        if plb is None or pub is None or vlb is None or vub is None:
            bounds.append("(%s, %s, %s, ([], PosInf), ([], NegInf))" % (M.c_str(rid), M.c_eb(lb), M.c_eb(ub)))
        else:
            bounds.append("(%s, %s, %s, (%s, %s), (%s, %s))" % (M.c_str(rid), M.c_eb(lb), M.c_eb(ub), M.c_str(plb),
                                                               M.c_eb(vlb), M.c_str(pub), M.c_eb(vub)))
    trips = []
    for tag, r1, r2 in out["trips"]:
        t1, t2 = c_res_obs(r1, D), c_res_obs(r2, D)
        if t1 is None or t2 is None:
            continue
        trips.append("(%d, %s, %s)" % (tag, t1, t2))
    sm = D.ref("sm", "smodel", c_smodel(o0))
    if "doc" in out:
        written = "(Ok %s)" % D.ref("doc", "doc", c_doc(out["doc"])) if doc_representable(out["doc"]) is None else None
    else:
        written = M.c_err(out["write_error"]["err"])
    readback = "None"
    first = [r1 for tag, r1, r2 in out["trips"] if tag == 0]
    if written is None:
        written = "(Err EUnmodelled)"
    elif first and "ok" in first[0]:
        if smodel_representable(first[0]["ok"]) is None:
            readback = "(Some (Ok %s))" % D.ref("sm", "smodel", c_smodel(first[0]["ok"]))
    elif first and first[0].get("stage") == "read":
        readback = "(Some (Err EOther))"
    return "(mkSCase %s true %s [%s] [%s] %d [%s] %s %s %s)" % (
        cfg, obs0, "; ".join(ids), "; ".join(bounds), out["valid"], "; ".join(trips), sm, written, readback)


def evaluate(specs, seeds):
    outs, terms, idx = [], [], []
    D = M.Defs()
    for i, o in enumerate(run_all(specs, seeds)):
        outs.append(o)
        if o["skip"] is None:
            idx.append(i)
            terms.append((case_term(specs[i], o, D), D))
    res, faults = M.eval_cases(K, HEADER, terms, "scase", "failing", shard=max(8, min(40, len(terms) // K.JOBS + 1)))
    codes = {i: [] for i in range(len(specs))}
    for j, lst in res:
        codes[idx[j]] = [tuple(x) for x in lst]
    for i, o in enumerate(outs):
        if o.get("ids_in_document_match") is False:
            codes[i].append((1, 1))
        if o.get("raw_trip"):
            codes[i].append((9, 3))
    return codes, faults, outs


# ------------------------------------------------------------------ causes, shrinking
def diff_paths(a, b, path=""):
    if type(a) != type(b):
        return [path]
    if isinstance(a, dict):
        return [p for k in a if k not in ("lp", "comps_private", "rule_tree", "groups_full")
                for p in diff_paths(a[k], b.get(k), path + "/" + k)]
    if isinstance(a, list):
        if len(a) != len(b):
            return [path]
        return [p for j, (x, y) in enumerate(zip(a, b)) for p in diff_paths(x, y, path + "/#")]
    return [] if a == b else [path]


def _f(n):
    return float("-inf" if n[1] else "inf") if n[0] == "inf" else n[1] / n[2] if n[0] == "q" else float("nan")


def lost_digits(o0, o1):
    """every number of the reactions came back as float('%.15g' % x), and at least one of them changed"""
    if len(o0["rxns"]) != len(o1["rxns"]):
        return False
    changed = False
    for a, b in zip(o0["rxns"], o1["rxns"]):
        pairs = [(a["lb"], b["lb"]), (a["ub"], b["ub"]), (a["objective"], b["objective"])]
        if len(a["stoich"]) != len(b["stoich"]):
            return False
        # (by value, not by key: with the identifier-codec finding the keys come back under other names)
        pairs += list(zip(sorted((x[1] for x in a["stoich"]), key=_f), sorted((y[1] for y in b["stoich"]), key=_f)))
        for x, y in pairs:
            if float("%.15g" % _f(x)) != _f(y):
                return False
            changed = changed or _f(x) != _f(y)
    return changed


def cause_of(spec, out, step, code):
    """A label for the failure, computed from the implementation's observations (used in signatures)."""
    if step == 9:
        return "without_id_replacement"
    if step < 100:
        if code in (20, 21):
            return "id_with_escape_pattern"
        if step == 3 and code == 2 and all(vlb is not None and vub is not None and float("%.15g" % _f(lb)) == _f(vlb)
                                           and float("%.15g" % _f(ub)) == _f(vub)
                                           for _, lb, ub, _, vlb, _, vub in out["bounds"]):
            return "number_15_digits"
        return "codec_or_bounds"
    tag = step % 100
    t = [t for t in out["trips"] if t[0] == tag]
    if code == 7 and step < 100:
        return "validator"
    if not t:
        return "other"
    r1 = t[0][1]
    if "err" in r1:
        if r1.get("stage") == "write" and any(m["compartment"] is None for m in spec["mets"]):
            return "write_fails_compartment_none"
        return "%s_%s" % (r1.get("stage"), r1["err"])
    if step >= 200:
        return "second_trip"
    import re
    atoms = []
    paths = set(diff_paths(out["obs0"], r1["ok"]))
    ids = [x["id"] for x in spec["mets"] + spec["rxns"] + spec["genes"]]
    if any(re.search(r"__\d+__", i) for i in ids):
        # the codec finding changes an id, and with it stoichiometry keys, LP names, group members
        atoms.append("id_with_escape_pattern")
        paths = {p for p in paths if not (p.endswith("/id") or "/stoich" in p or p.startswith("/notes") or "/genes" in p
                                           or p.endswith("/rule"))}
    gsids = {g["id"] for g in spec.get("groups", [])}
    if any(k == "genes" and i in gsids for g in spec.get("groups", []) for k, i in g["members"]) and \
            diff_paths(out["obs0"]["notes"], r1["ok"]["notes"]):
        # gene x and group x are both written G_x: the member resolves to the group and is dropped
        atoms.append("gene_member_written_like_a_group")
        paths = {p for p in paths if not p.startswith("/notes")}
    if lost_digits(out["obs0"], r1["ok"]):
        atoms.append("number_15_digits")
        paths = {p for p in paths if not p.startswith(("/rxns/#/stoich", "/rxns/#/lb", "/rxns/#/ub", "/rxns/#/objective"))}
    if "/mets/#/charge" in paths and all(
            (a["charge"] is None and b["charge"] == ["q", 0, 1]) or a["charge"] == b["charge"]
            for a, b in zip(out["obs0"]["mets"], r1["ok"]["mets"])):
        atoms.append("charge_none_to_zero"); paths.discard("/mets/#/charge")
    if "/genes/#/name" in paths and all(a["name"] == b["name"] or a["name"] == "" for a, b in
                                        zip(out["obs0"]["genes"], r1["ok"]["genes"])):
        atoms.append("empty_gene_name_becomes_id"); paths.discard("/genes/#/name")
    if paths:
        return "other:" + ",".join(sorted(paths))[:200]
    known = set(KNOWN_CAUSES)
    unknown = [a for a in atoms if a not in known]
    return (unknown or atoms or ["lp_only"])[0]


KNOWN_CAUSES = []


def shrink(spec, seed, want):
    import time
    cur, t0 = spec, time.time()
    import c11
    for _ in range(8):
        if time.time() - t0 > 45:
            break
        cands = c11.shrink_candidates(cur)
        for i, g in enumerate(cur.get("groups", [])):
            x = copy.deepcopy(cur); del x["groups"][i]; cands.append(x)
        cands = [c for c in cands if all(r["stoich"] for r in c["rxns"]) and c["id"] is not None and c["mets"]]
        for c in cands:
            ids = {"reactions": {r["id"] for r in c["rxns"]}, "metabolites": {m["id"] for m in c["mets"]},
                   "genes": {g["id"] for g in c["genes"]}}
            for g in c.get("groups", []):
                g["members"] = [m for m in g["members"] if m[1] in ids[m[0]]]
        if not cands:
            break
        codes, faults, outs = evaluate(cands, [seed] * len(cands))
        if faults:
            break
        ok = [i for i in range(len(cands)) if any((c, cause_of(cands[i], outs[i], s, c)) == want for s, c in codes[i])]
        if not ok:
            break
        cur = cands[ok[0]]
    return cur


# ------------------------------------------------------------------ third-party files
def etree_model(text):
    """independent reader of the fbc-v2 subset: {rid: (stoich {sid: coef}, lb, ub)}, objective {rid: coef}, direction"""
    root = ET.fromstring(text)
    model = root.find("s:model", NS)
    if model is None or model.find("f:listOfObjectives", NS) is None:
        return None
    params = {}
    for p in model.findall("s:listOfParameters/s:parameter", NS):
        v = p.get("value")
        if v is not None:
            params[p.get("id")] = float({"INF": "inf", "-INF": "-inf"}.get(v, v))
    rxns = {}
    for r in model.findall("s:listOfReactions/s:reaction", NS):
        st = {}
        for side, sign in (("s:listOfReactants", -1.0), ("s:listOfProducts", 1.0)):
            for sr in r.findall(side + "/s:speciesReference", NS):
                st[sr.get("species")] = st.get(sr.get("species"), 0.0) + sign * float(sr.get("stoichiometry", "1"))
        lb, ub = r.get(FBC + "lowerFluxBound"), r.get(FBC + "upperFluxBound")
        if lb is None or ub is None:
            return None
        rxns[r.get("id")] = ({k: v for k, v in st.items() if v != 0}, params[lb], params[ub])
    objs = model.find("f:listOfObjectives", NS)
    active = objs.get(FBC + "activeObjective")
    obj, direction = {}, "max"
    for o in objs.findall("f:objective", NS):
        if o.get(FBC + "id") == active:
            direction = {"maximize": "max", "minimize": "min"}[o.get(FBC + "type")]
            for fo in o.findall("f:listOfFluxObjectives/f:fluxObjective", NS):
                obj[fo.get(FBC + "reaction")] = float(fo.get(FBC + "coefficient"))
    return rxns, {k: v for k, v in obj.items() if v != 0}, direction


def rel(path):
    return os.path.basename(path) if path.startswith(TMP or "\0") else os.path.relpath(path, K.REPO)


def third_party(tier):
    import cobra.io as cio
    import cobra.io.sbml as S
    files = []
    for d in ("src/cobra/data", "tests/data"):
        dd = os.path.join(K.REPO, d)
        for f in sorted(os.listdir(dd)):
            if ".xml" in f or ".sbml" in f:
                files.append(os.path.join(dd, f))
    # a synthetic foreign document: same network as mini_fbc2.xml, but one species of the first reaction
    # appears on both sides (reactant +0.5, product 0.5), which a reader must net out
    try:
        src = open(os.path.join(K.REPO, "tests/data/mini_fbc2.xml"), encoding="utf-8").read()
        ET.register_namespace("", NS["s"]); ET.register_namespace("fbc", NS["f"])
        root = ET.fromstring(src)
        for r in root.find("s:model", NS).findall("s:listOfReactions/s:reaction", NS):
            lr, lp = r.find("s:listOfReactants", NS), r.find("s:listOfProducts", NS)
            if lr is not None and lp is not None and len(lr):
                sr = lr[0]
                sr.set("stoichiometry", repr(float(sr.get("stoichiometry")) + 0.5))
                extra = ET.SubElement(lp, "{%s}speciesReference" % NS["s"])
                extra.set("species", sr.get("species")); extra.set("stoichiometry", "0.5"); extra.set("constant", "true")
                break
        synth = os.path.join(TMP, "synthetic_both_sides.xml")
        ET.ElementTree(root).write(synth, encoding="utf-8", xml_declaration=True)
        files.append(synth)
    except Exception as e:  # noqa
        pass
    results, problems = [], []
    for path in files:
        big = os.path.getsize(path) > 400000
        if big and tier == "quick":
            results.append((os.path.relpath(path, K.REPO), "skipped-in-quick-tier"))
            continue
        try:
            opener = gzip.open if path.endswith(".gz") else bz2.open if path.endswith(".bz2") else open
            text = opener(path, "rt", encoding="utf-8").read()
            ref = etree_model(text)
        except Exception as e:
            results.append((os.path.relpath(path, K.REPO), "etree-reader: %s" % type(e).__name__))
            continue
        if ref is None:
            results.append((os.path.relpath(path, K.REPO), "not-fbc-v2"))
            continue
        try:
            m = cio.read_sbml_model(path)
        except Exception as e:
            results.append((os.path.relpath(path, K.REPO), "cobrapy-refuses: %s" % type(e).__name__))
            continue
        rxns, obj, direction = ref
        bad = []
        got = {r.id: r for r in m.reactions}
        want_ids = {S._f_reaction(rid) for rid in rxns}
        extra = set(got) - want_ids
        # cobrapy adds an exchange reaction for every boundaryCondition species (logged); nothing else may appear
        if want_ids - set(got) or any(not e.startswith("EX_") for e in extra):
            bad.append("reaction ids differ")
        for rid, (st, lb, ub) in rxns.items():
            r = got.get(S._f_reaction(rid))
            if r is None:
                continue
            mine = {k.id: float(v) for k, v in r.metabolites.items()}
            if mine != {S._f_specie(k): v for k, v in st.items()}:
                bad.append("stoichiometry of %s" % rid)
            if (float(r.lower_bound), float(r.upper_bound)) != (lb, ub):
                bad.append("bounds of %s" % rid)
        mobj = {r.id: float(r.objective_coefficient) for r in m.reactions if r.objective_coefficient != 0}
        if mobj != {S._f_reaction(k): v for k, v in obj.items()} or str(m.objective.direction) != direction:
            bad.append("objective")
        results.append((rel(path), "agree" if not bad else "DIFFER: " + "; ".join(bad[:4])))
        if bad:
            problems.append((rel(path), bad[:6]))
    return results, problems


# ------------------------------------------------------------------ main
def main(argv=None):
    global TMP
    import logging
    logging.disable(logging.CRITICAL)      # cobrapy logs every validator message; the check reports through Reporter
    args = K.parse_args(argv)
    rep = K.Reporter(PROP, args.tier, args.seed)
    KNOWN_CAUSES.extend(f["signature"].get("cause") for f in rep.findings)
    info, broken = K.standard_prelude(PROP, rep, extra_targets=["theories/IO/SbmlCheck.vo"])
    rng = random.Random(args.seed)
    TMP = tempfile.mkdtemp(prefix="verif_c10_")
    try:
        return run(args, rep, info, broken, rng)
    finally:
        shutil.rmtree(TMP, ignore_errors=True)


def run(args, rep, info, broken, rng):
    specs, seeds = [], []
    n_corpus = 0
    if args.replay:
        rp = json.load(open(args.replay))
        specs.append(rp["case"]); seeds.append(rp.get("case_seed", 0))
    else:
        corpus = os.path.join(K.VERIF, "corpus", PROP)
        if os.path.isdir(corpus):
            for f in sorted(os.listdir(corpus)):
                c = json.load(open(os.path.join(corpus, f)))
                specs.append(c["case"]); seeds.append(c.get("case_seed", 0))
        n_corpus = len(specs)
        n = 150 if args.tier == "quick" else 4000
        for _ in range(n):
            specs.append(sbml_domain(rng, M.gen_model(rng))); seeds.append(rng.randrange(1 << 30))

    codes, faults, outs = evaluate(specs, seeds)
    if faults:
        print("HARNESS FAULT: model evaluation failed:\n" + "\n".join(faults[:3]))
        if not broken:
            broken.append("model evaluation (coqc on generated cases) failed: " + faults[0][-600:])

    seen = {}
    n_fail = 0
    for i in sorted(codes):
        if codes[i]:
            n_fail += 1
        for s, c in codes[i]:
            if c == 7 and s < 100:
                cause = "validator:" + ("objective_without_flux_objectives" if any(
                    "listOfFluxObjectives" in m for m in outs[i]["validator"]) else "duplicate_sid" if any(
                    "Duplicate 'id'" in m for m in outs[i]["validator"]) else "other")
            else:
                cause = cause_of(specs[i], outs[i], s, c)
            seen.setdefault((c, cause), []).append(i)
    def is_known(key):
        return any(K.matches(f["signature"], {"code": key[0], "cause": key[1]}) for f in rep.findings)
    order = [k for k in sorted(seen) if is_known(k)] + [k for k in sorted(seen) if not is_known(k)][:5]
    smalls = []
    for key in order:
        i = seen[key][0]
        smalls.append(specs[i] if (args.replay or is_known(key) or key[1].startswith("validator"))
                      else shrink(specs[i], seeds[i], key))
    # the (shrunk) cases are evaluated once more, all in one batch
    c2, _, o2 = evaluate(smalls, [seeds[seen[key][0]] for key in order]) if order else ({}, [], [])
    for j, key in enumerate(order):
        i = seen[key][0]
        small = smalls[j]
        sig = {"code": key[0], "cause": key[1]}
        replay = {"case": small, "case_seed": seeds[i], "failed": CODES.get(key[0], str(key[0])), "cause": key[1],
                  "failing_steps": c2[j][:8], "n_cases_of_this_kind": len(seen[key]),
                  "exceptions": [(VARIANTS[t], r1.get("stage"), r1.get("err"), r1.get("msg")) for t, r1, r2 in o2[j]["trips"] if "err" in r1],
                  "validator_messages": o2[j]["validator"], "codec_observations": o2[j]["ids"][-6:],
                  "how_to_read": "case = model spec (harness/io_models.py: build); " + STEPS + ",".join(VARIANTS),
                  "theorem": "C10_sbml_doc_roundtrip / C10_gpr_assoc_roundtrip / C10_sid_roundtrip / C10_bound_param_roundtrip / "
                             "C10_read_bounds (coq/theories/Properties/C10.v)"}
        rep.violation(sig, replay)

    tp_results, tp_problems = ([], []) if args.replay else third_party(args.tier)
    for path, bad in tp_problems:
        rep.violation({"code": 30, "cause": "third_party_file"},
                      {"case": {"file": path}, "failed": "cobrapy and the independent xml.etree reader disagree", "details": bad})

    if broken and rep.violations == 0:
        rep.violation({"broken": True}, {"broken_obligations": broken,
                      "note": "proof obligation or correspondence machinery no longer checks; no failing input found"},
                      no_input=True)

    dist = {"with_groups": sum(1 for s in specs if s.get("groups")), "direction_min": sum(s["direction"] == "min" for s in specs),
            "compartment_none": sum(any(m["compartment"] is None for m in s["mets"]) for s in specs),
            "lb_above_default_ub": sum(any(r["bounds"][0] > s["cfg"][1] for r in s["rxns"]) for s in specs),
            "nondefault_cfg": sum(s["cfg"] != [-1000.0, 1000.0] for s in specs),
            "validator_errors": sum(1 for o in outs if o["valid"]),
            "ids_checked": sum(len(o["ids"]) for o in outs), "bounds_checked": sum(len(o["bounds"]) for o in outs),
            "documents_compared_with_write_doc": sum(1 for o in outs if "doc" in o and o["skip"] is None),
            "gene_in_group": sum(any(k == "genes" for g in s.get("groups", []) for k, _ in g["members"]) for s in specs),
            "rules_with_nesting": sum(any("(" in r["rule"] for r in s["rxns"]) for s in specs)}
    evidence = {
        "level": "proof",
        "coverage": {
            "obligations": info["obligations"], "discharged": info["discharged"], "checker_cmd": info["checker_cmd"],
            "trusted_base": K.TRUSTED_COMMON + [
                "libsbml: its effect on the modelled fields (SId check of setId, unset attribute = '', 15 significant digits, "
                "normal form of the association tree) is modelled in IO/SbmlDoc.v and compared on every case; XML text, "
                "notes/annotations and the validator are exercised, not modelled",
                "str(int)/int(str) and chr/ord of CPython (parameters of the codec theorems)",
                "xml.etree reader of the fbc-v2 subset in harness/c10.py", "swiglpk read-back of the GLPK problem"],
            "axioms_reported_by_Print_Assumptions": info["axioms"],
            "evaluations": len(specs), "distinct_nontrivial": len({json.dumps(s, sort_keys=True) for s in specs if s["rxns"]}),
            "rule": "one case = one generated model written with write_sbml_model, validated, read back via path and string, "
                    "twice; the written document (parsed with xml.etree) compared with write_doc, the model read back with "
                    "read_doc of that document and, inside sbml_ok, with norm(model); ids and bound parameters compared with "
                    "the Gallina codec",
            "samples": [specs[i] for i in ([n_corpus, len(specs) - 1] if len(specs) > n_corpus else [])][:2],
            "traces_validated_against_impl": len(specs) - n_fail, "disagreements_checked": n_fail,
            "exhaustive": False, "input_distribution": dist, "third_party_files": tp_results,
            "broken_obligations": broken,
        },
        "assumptions": ["libsbml and XML text are trusted", "f_replace=F_REPLACE (default) only; documents written without "
                        "id replacement are not generated", "gene rules compared as truth tables (monitor) and as trees (write_doc / read_doc correspondence)"],
    }
    return rep.finish(evidence)


if __name__ == "__main__":
    sys.exit(main())
