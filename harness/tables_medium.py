"""Tables for C18: `excludes` and `sbo_terms` of medium/annotations.py (used by is_boundary_type)."""
import ast
from tables_lib import section, parse, module_assign, coq_ascii_string, Abort


def _str(node):
    if isinstance(node, ast.Constant) and isinstance(node.value, str):
        return node.value
    raise Abort("string literal expected, got %s" % ast.dump(node))


@section("MediumTables")
def medium_tables(repo):
    tree, _ = parse(repo, "medium/annotations.py")
    ex = module_assign(tree, "excludes")
    if not isinstance(ex, ast.Dict):
        raise Abort("excludes is not a dict literal")
    rows = []
    for k, v in zip(ex.keys, ex.values):
        if not isinstance(v, ast.List):
            raise Abort("excludes[%s] is not a list literal" % _str(k))
        rows.append("(%s, [%s])" % (coq_ascii_string(_str(k)), "; ".join(coq_ascii_string(_str(e)) for e in v.elts)))
    sbo = module_assign(tree, "sbo_terms")
    if not isinstance(sbo, ast.Dict):
        raise Abort("sbo_terms is not a dict literal")
    srows = ["(%s, %s)" % (coq_ascii_string(_str(k)), coq_ascii_string(_str(v))) for k, v in zip(sbo.keys, sbo.values)]
    return ("Definition excludes : list (string * list string) := [%s].\n"
            "Definition sbo_terms : list (string * string) := [%s].\n") % (";\n  ".join(rows), ";\n  ".join(srows))
