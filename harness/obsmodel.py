"""Complete, canonical, JSON-able, deterministic observation of a cobra Model (shared module).

    observe(model, raw=True) -> dict
    diff(obs_a, obs_b, ignore_order=True) -> list[str]      (empty list == equal)
    fingerprint(obs) -> hex string

The observation has two layers:

* the *object layer*: model id/name, compartments, every reaction / metabolite / gene / group with
  its documented attributes, the cross references (``m.reactions``, ``g.reactions``, ``r.genes``),
  identity bits (the metabolite keys of a reaction ARE the objects registered in
  ``model.metabolites`` etc.), model back-pointers, DictList index coherence, objective direction,
  context depth, tolerance, solver interface name;
* with ``raw=True`` the *raw GLPK problem* read through ``swiglpk`` from ``model.solver.problem``
  after ``model.solver.update()`` — columns (name, kind, (lb|None, ub|None), objective coefficient),
  rows (name, (lb|None, ub|None), sparse coefficients {column name: value}), objective direction
  and constant term.  Works for the ``glpk`` and ``glpk_exact`` interfaces (both keep a
  ``glp_prob`` in ``.problem``).

Every number is converted exactly with ``fractions.Fraction(float)`` and rendered as the string
"p/q" ("inf" / "-inf" for infinities, "nan" for NaN, -0.0 as "0/1"); ``None`` stays ``None``.
Nothing in here mutates the model except the pending-update flush ``model.solver.update()`` that
optlang would do itself before the next optimisation.

Usage by other checks:   import obsmodel;  a = obsmodel.observe(m);  ...;  obsmodel.diff(a, obsmodel.observe(m))
Self-test:               python harness/obsmodel.py
"""
import fractions
import hashlib
import json
import math

__all__ = ["observe", "diff", "fingerprint", "num", "unnum"]


# ------------------------------------------------------------------------------- numbers

def num(x):
    """Exact canonical rendering of a number: "p/q" | "inf" | "-inf" | "nan" | None."""
    if x is None:
        return None
    if isinstance(x, bool):
        x = int(x)
    if isinstance(x, int):
        return "%d/1" % x
    if isinstance(x, fractions.Fraction):
        return "%d/%d" % (x.numerator, x.denominator)
    try:
        f = float(x)
    except Exception:
        # sympy numbers and the like
        try:
            f = float(x.evalf())  # pragma: no cover
        except Exception:
            return "?" + repr(x)
    if math.isnan(f):
        return "nan"
    if math.isinf(f):
        return "inf" if f > 0 else "-inf"
    fr = fractions.Fraction(f)          # exact; -0.0 -> 0
    return "%d/%d" % (fr.numerator, fr.denominator)


def unnum(s):
    """Inverse of num for finite values / infinities (float('inf')); None stays None."""
    if s is None:
        return None
    if s == "inf":
        return float("inf")
    if s == "-inf":
        return float("-inf")
    if s == "nan":
        return float("nan")
    return fractions.Fraction(s)


def _txt(x):
    """Strings stay strings, None stays None, anything else through str()."""
    if x is None or isinstance(x, str):
        return x
    return str(x)


def _try(f, default="<error>"):
    try:
        return f()
    except Exception as e:  # observation must never raise
        return "%s %s" % (default, type(e).__name__)


# ------------------------------------------------------------------------------- object layer

def _index_ok(dl):
    """`_dict` equals {id: position} (C15's coherence invariant) — checked on the raw fields."""
    try:
        d = dl._dict
        ids = [x.id for x in list.__iter__(dl)]
        return len(d) == len(ids) and all(d.get(i) == k for k, i in enumerate(ids)) and len(set(ids)) == len(ids)
    except Exception:
        return False


def _contains_same(dl, obj):
    try:
        return dl.get_by_id(obj.id) is obj
    except Exception:
        return False


def _obs_reaction(model, r):
    mets = {}
    ident_m = True
    for m, c in r._metabolites.items():
        mets[_txt(m.id)] = num(c)
        ident_m = ident_m and _contains_same(model.metabolites, m)
    genes = list(r._genes) if hasattr(r, "_genes") else list(r.genes)
    ident_g = all(_contains_same(model.genes, g) for g in genes)
    return {
        "id": _txt(r.id),
        "name": _txt(r.name),
        "lower_bound": num(r._lower_bound),
        "upper_bound": num(r._upper_bound),
        "metabolites": mets,
        "genes": sorted(_txt(g.id) for g in genes),
        "gene_reaction_rule": _try(lambda: _txt(r.gene_reaction_rule)),
        "subsystem": _txt(getattr(r, "subsystem", None)),
        "objective_coefficient": _try(lambda: num(r.objective_coefficient)),
        "model_ok": r._model is model,
        "metabolites_identical": bool(ident_m),
        "genes_identical": bool(ident_g),
    }


def _obs_metabolite(model, m):
    return {
        "id": _txt(m.id),
        "name": _txt(m.name),
        "formula": _txt(m.formula),
        "charge": num(m.charge) if isinstance(m.charge, (int, float)) else _txt(m.charge),
        "compartment": _txt(m.compartment),
        "reactions": sorted(_txt(r.id) for r in m._reaction),
        "reactions_identical": all(_contains_same(model.reactions, r) for r in m._reaction),
        "model_ok": m._model is model,
    }


def _obs_gene(model, g):
    return {
        "id": _txt(g.id),
        "name": _txt(g.name),
        "functional": _try(lambda: bool(g.functional)),
        "reactions": sorted(_txt(r.id) for r in g._reaction),
        "reactions_identical": all(_contains_same(model.reactions, r) for r in g._reaction),
        "model_ok": g._model is model,
    }


def _obs_group(model, grp):
    return {
        "id": _txt(grp.id),
        "name": _txt(grp.name),
        "kind": _try(lambda: _txt(grp.kind)),
        "members": sorted("%s:%s" % (type(x).__name__, _txt(getattr(x, "id", None))) for x in grp.members),
        "model_ok": getattr(grp, "_model", None) is model,
    }


# ------------------------------------------------------------------------------- raw GLPK layer

def _bounds(g, typ, lb, ub):
    """Canonicalise (GLP type, lb, ub) to an (lb|None, ub|None) pair: GLPK ignores the stored
    numbers on the sides the type says are absent."""
    if typ == g.GLP_FR:
        return [None, None]
    if typ == g.GLP_LO:
        return [num(lb), None]
    if typ == g.GLP_UP:
        return [None, num(ub)]
    if typ == g.GLP_DB:
        return [num(lb), num(ub)]
    if typ == g.GLP_FX:
        return [num(lb), num(lb)]
    return ["?type%s" % typ, "?"]


def observe_raw(model):
    """The raw GLPK problem behind model.solver (after flushing optlang's pending updates)."""
    import swiglpk as g
    model.solver.update()
    p = model.solver.problem
    n = g.glp_get_num_cols(p)
    m = g.glp_get_num_rows(p)
    kinds = {g.GLP_CV: "continuous", g.GLP_IV: "integer", g.GLP_BV: "binary"}
    cols, col_names = [], [None]
    for j in range(1, n + 1):
        name = g.glp_get_col_name(p, j)
        col_names.append(name)
        cols.append({
            "name": name,
            "kind": kinds.get(g.glp_get_col_kind(p, j), "?"),
            "bounds": _bounds(g, g.glp_get_col_type(p, j), g.glp_get_col_lb(p, j), g.glp_get_col_ub(p, j)),
            "obj": num(g.glp_get_obj_coef(p, j)),
        })
    rows = []
    ia = g.intArray(n + 1)
    da = g.doubleArray(n + 1)
    for i in range(1, m + 1):
        k = g.glp_get_mat_row(p, i, ia, da)
        coefs = {}
        for t in range(1, k + 1):
            if da[t] != 0.0:
                coefs[col_names[ia[t]]] = num(da[t])
        rows.append({
            "name": g.glp_get_row_name(p, i),
            "bounds": _bounds(g, g.glp_get_row_type(p, i), g.glp_get_row_lb(p, i), g.glp_get_row_ub(p, i)),
            "coefficients": coefs,
        })
    return {
        "columns": cols,
        "rows": rows,
        "direction": "max" if g.glp_get_obj_dir(p) == g.GLP_MAX else "min",
        "constant": num(g.glp_get_obj_coef(p, 0)),
        "column_names_unique": len(set(col_names[1:])) == n,
        "row_names_unique": len({r["name"] for r in rows}) == m,
    }


# ------------------------------------------------------------------------------- observe

def observe(model, raw=True):
    """Complete canonical observation of `model` (see module docstring)."""
    obs = {
        "id": _txt(model.id),
        "name": _txt(model.name),
        "compartments": {(_txt(k)): _txt(v) for k, v in sorted(dict(model._compartments).items())},
        "compartments_used": sorted(_txt(c) for c in {m.compartment for m in model.metabolites} if c is not None),
        "reactions": [_obs_reaction(model, r) for r in model.reactions],
        "metabolites": [_obs_metabolite(model, m) for m in model.metabolites],
        "genes": [_obs_gene(model, g) for g in model.genes],
        "groups": [_obs_group(model, grp) for grp in model.groups],
        "index_ok": {
            "reactions": _index_ok(model.reactions),
            "metabolites": _index_ok(model.metabolites),
            "genes": _index_ok(model.genes),
            "groups": _index_ok(model.groups),
        },
        "objective_direction": _try(lambda: _txt(model.objective_direction)),
        "context_depth": len(model._contexts),
        "tolerance": _try(lambda: num(model.tolerance)),
        "solver": _try(lambda: _txt(model.solver.interface.__name__.rsplit(".", 1)[-1])),
    }
    if raw:
        obs["raw"] = observe_raw(model)
    return obs


# ------------------------------------------------------------------------------- diff

_ORDER_FREE = ("reactions", "metabolites", "genes", "groups")


def _by_key(lst, key):
    out = {}
    for k, x in enumerate(lst):
        kk = x.get(key) if isinstance(x, dict) else None
        if kk in out or kk is None:
            kk = "%s#%d" % (kk, k)
        out[kk] = x
    return out


def _diff(a, b, path, out, limit):
    if len(out) >= limit:
        return
    if isinstance(a, dict) and isinstance(b, dict):
        for k in sorted(set(a) | set(b), key=str):
            if k not in a:
                out.append("%s[%r]: only in second: %s" % (path, k, _short(b[k])))
            elif k not in b:
                out.append("%s[%r]: only in first: %s" % (path, k, _short(a[k])))
            else:
                _diff(a[k], b[k], "%s[%r]" % (path, k) if path else str(k), out, limit)
    elif isinstance(a, list) and isinstance(b, list):
        if len(a) != len(b):
            out.append("%s: length %d != %d" % (path, len(a), len(b)))
        for i, (x, y) in enumerate(zip(a, b)):
            _diff(x, y, "%s[%d]" % (path, i), out, limit)
    elif a != b or type(a) is not type(b):
        out.append("%s: %s != %s" % (path, _short(a), _short(b)))


def _short(x):
    s = json.dumps(x, sort_keys=True, default=str)
    return s if len(s) <= 160 else s[:157] + "..."


def diff(obs_a, obs_b, ignore_order=True, limit=200):
    """Human-readable list of differences between two observations (empty == equal).

    ignore_order=True: the order of the reactions / metabolites / genes / groups lists (object
    layer) and of the raw columns / rows is not compared — entries are matched by id / name;
    everything else is compared.  ignore_order=False compares positions too."""
    out = []
    a, b = dict(obs_a), dict(obs_b)
    if ignore_order:
        for k in _ORDER_FREE:
            if k in a and k in b:
                a[k], b[k] = _by_key(a[k], "id"), _by_key(b[k], "id")
        if isinstance(a.get("raw"), dict) and isinstance(b.get("raw"), dict):
            ra, rb = dict(a["raw"]), dict(b["raw"])
            for k in ("columns", "rows"):
                ra[k], rb[k] = _by_key(ra[k], "name"), _by_key(rb[k], "name")
            a["raw"], b["raw"] = ra, rb
    _diff(a, b, "", out, limit)
    return out


def fingerprint(obs):
    """Stable hex digest of an observation (order-sensitive: it hashes the canonical JSON)."""
    return hashlib.sha256(json.dumps(obs, sort_keys=True, separators=(",", ":")).encode()).hexdigest()


# ------------------------------------------------------------------------------- self-test

def _selftest():
    import logging
    import warnings
    warnings.simplefilter("ignore")
    logging.disable(logging.CRITICAL)
    import cobra.io
    total = 0
    for solver in ("glpk", "glpk_exact"):
        model = cobra.io.load_model("textbook")
        model.solver = solver
        a = observe(model)
        b = observe(model)
        c = observe(model.copy())
        json.dumps(a)
        d1, d2 = diff(a, b, ignore_order=False), diff(a, c)
        assert fingerprint(a) == fingerprint(b)
        # sensitivity: a bound edit, an objective edit and a reorder must be seen
        with model:
            model.reactions[3].lower_bound = -3.25
            e = diff(a, observe(model))
            assert any("lower_bound" in x for x in e) and any("raw" in x for x in e), e
        with model:
            model.objective = model.reactions[5]
            e = diff(a, observe(model))
            assert any("obj" in x for x in e), e
        f = diff(a, observe(model))
        model.reactions.reverse()
        model.reactions._generate_index()
        g_ = observe(model)
        assert not diff(a, g_) and diff(a, g_, ignore_order=False)
        total += len(d1) + len(d2) + len(f)
        print("%-10s reactions=%d columns=%d rows=%d differences: twice=%d copy=%d after-contexts=%d fp=%s" % (
            solver, len(a["reactions"]), len(a["raw"]["columns"]), len(a["raw"]["rows"]),
            len(d1), len(d2), len(f), fingerprint(a)[:12]))
        for x in (d1 + d2 + f)[:10]:
            print("   ", x)
    print("number of differences = %d" % total)
    return 0 if total == 0 else 1


if __name__ == "__main__":
    import os
    import sys
    repo = os.environ.get("VERIF_REPO", "/repo")
    if os.path.join(repo, "src") not in sys.path:
        sys.path.insert(0, os.path.join(repo, "src"))
    sys.exit(_selftest())
