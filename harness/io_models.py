"""Generated cobra models for the I/O properties (C11, C10): a JSON-able *spec*, a builder that
creates the real cobra.Model through the public API, a full observation of a model (content,
objective, direction, raw GLPK problem read with swiglpk) and printers to Coq terms
(coq/theories/IO/DictModel.v records, JVal.v values)."""
import math
from fractions import Fraction

# ----------------------------------------------------------------------------- value pools
MET_IDS = ["a", "b_c", "m-1", "x[e]", "h2o.c", "α-D", "3pg", "M_", "glc__D_e", "q'", 'd"q', "z/9", "ü",
           "m:1", "(R)", "A#1", "p%", "a=b", "a+b", "_", "a__45__b", "true", "1e3", "null"]
RXN_IDS = ["R1", "EX_a(e)", "r-2", "PFK.1", "β", "R_", "3x", "r:4", "R[5]", "r'6", "a|b", "r__91__", "yes", "0"]
GENE_IDS = ["g1", "b0001", "G_2", "s0001.1", "YAL-1", "g5", "x7"]
NAMES = ["", "Water", "α name", "n (1)", "it's", 'say "x"', "a: b", "# hash", "- dash", "1.0", "~",
         # long names with non-ASCII characters beyond column 80 (peptidoglycan precursors are like that)
         "undecaprenyl-diphospho-N-acetylmuramoyl-L-alanyl-gamma-D-glutamyl-N6-(ε-pentaglycyl)-L-lysyl-D-alanyl-D-alanine x",
         "Lipid II (β-1,4 linked N-acetylglucosamine-N-acetylmuramoyl-pentapeptide)-pyrophosphoryl-undecaprenol-ε form y"]
COMPS = [None, "c", "e", "", "C_x", "p", "c"]
COMP_NAMES = ["", "cytosol", "extra cellular", "C: x"]
FORMULAS = [None, None, "H2O", "C6H12O6", "", "C10H12N5O13P3", "XR"]
CHARGES = [None, None, 0, -2, 3, 1, -1]
SUBSYSTEMS = ["", "", "Glycolysis", "S 1", "Transport, extracellular"]
NOTES = [{}, {}, {}, {"a": "b"}, {"z": "1", "a": "2"}, {"note": "two words", "Z": "x", "_": ""},
         {"curated_by": None, "a": "x"}, {"score": 2, "ok": True, "nested": {"a": [1, None], "b": None}}]
ANNOTS = [{}, {}, {}, {"sbo": "SBO:0000247"}, {"kegg.compound": ["C1", "C2"], "chebi": "CHEBI:1"},
          {"z": "1", "bigg.metabolite": "x", "a": ["1"]},
          # several identifiers for one provider where one is a prefix / substring of another
          {"ec-code": ["1.1.1.27", "1.1.1.2"]}, {"pubmed": ["10108", "1010", "101"], "chebi": "CHEBI:1"},
          {"kegg.compound": ["C00031", "C0003"], "chebi": ["CHEBI:17234", "CHEBI:1723"]}]
COEFFS = [1, -1, 2, -2, 0.5, -0.5, 0.25, 3, -1.5, 1.0, -1.0]
OBJ_COEFFS = [1, 1, -1, 2, 0.5, 1e-8, -2.5]     # incl. a weight below the solver tolerance (a genuine coefficient)
CFGS = [(-1000.0, 1000.0)] * 5 + [(-10.0, 10.0), (-1000.0, 50.0), (-99999.0, 99999.0), (-5.0, 1000.0)]


def gen_rule(rng, genes, depth=0):
    if not genes:
        return ""
    r = rng.random()
    if depth >= 3 or r < 0.35:
        return rng.choice(genes)
    op = " and " if rng.random() < 0.5 else " or "
    n = rng.choice([2, 2, 3])
    parts = []
    for _ in range(n):
        p = gen_rule(rng, genes, depth + 1)
        parts.append("(" + p + ")" if " " in p else p)
    return op.join(parts)


def gen_bounds(rng, cfg):
    lo, hi = cfg
    inf = float("inf")
    r = rng.random()
    if r < 0.18:
        return [0.0, hi]
    if r < 0.34:
        return [lo, hi]
    if r < 0.42:
        return [-inf, inf]
    if r < 0.48:
        return [0.0, inf]
    if r < 0.54:
        return [-inf, 0.0]
    if r < 0.575:                     # lower bound above the configured default upper bound
        return [hi + rng.choice([0.5, 1, 500]), hi + rng.choice([500, 1000, inf])]
    if r < 0.68:                      # both below the configured default lower bound
        return [lo - 2000, lo - rng.choice([1, 1000.5])]
    if r < 0.74:
        return [hi, hi]               # lb == default ub (boundary of the loadable region)
    if r < 0.77:
        # close to, but not equal to, a default bound or zero (a genuine bound: it must come back as it is)
        return rng.choice([[lo + 5e-7, 0.0], [2e-8, hi + 5e-7], [-3e-9, hi], [0.0, 3e-8]])
    if r < 0.80:
        return [-5.0, -1.0]
    if r < 0.85:
        return [0.0, 0.0]
    if r < 0.90:
        return [2.5, 2.5]
    if r < 0.95:
        return [-0.25, 1048576.0]
    return [1.0, hi + 1]


def gen_model(rng, size=None):
    cfg = list(rng.choice(CFGS))
    n_met = rng.randrange(1, 6) if size is None else size
    n_rxn = rng.randrange(0, 7) if size is None else size
    n_gene = rng.randrange(0, 6)
    mets = []
    for i in rng.sample(MET_IDS, n_met):
        mets.append({"id": i, "name": rng.choice(NAMES), "compartment": rng.choice(COMPS),
                     "charge": rng.choice(CHARGES), "formula": rng.choice(FORMULAS),
                     "_bound": rng.choice([0, 0, 0, 0, 0.0, 2.5]), "notes": dict(rng.choice(NOTES)),
                     "annotation": dict(rng.choice(ANNOTS))})
    gene_ids = rng.sample(GENE_IDS, n_gene)
    genes = [{"id": g, "name": rng.choice(NAMES[:5]), "notes": dict(rng.choice(NOTES)),
              "annotation": dict(rng.choice(ANNOTS))} for g in gene_ids]
    rxns = []
    for i in rng.sample(RXN_IDS, n_rxn):
        k = rng.randrange(1, min(3, n_met) + 1) if rng.random() < 0.93 else 0
        st = [[m["id"], rng.choice(COEFFS)] for m in rng.sample(mets, k)]
        rule = gen_rule(rng, gene_ids) if rng.random() < 0.6 else ""
        rxns.append({"id": i, "name": rng.choice(NAMES), "stoich": st, "bounds": gen_bounds(rng, cfg),
                     "rule": rule, "subsystem": rng.choice(SUBSYSTEMS), "notes": dict(rng.choice(NOTES)),
                     "annotation": dict(rng.choice(ANNOTS)), "objective": 0})
    for r in rng.sample(rxns, min(len(rxns), rng.choice([0, 1, 1, 1, 2]))):
        r["objective"] = rng.choice(OBJ_COEFFS)
    used = sorted({m["compartment"] for m in mets if m["compartment"] is not None})
    comps = {c: rng.choice(COMP_NAMES) for c in used if rng.random() < 0.6}
    if rng.random() < 0.15:
        comps["unused"] = "not used by any metabolite"
    return {"cfg": cfg, "sort": rng.random() < 0.4,
            "id": rng.choice([None, "m", "my-model", "é.1"]), "name": rng.choice([None, None, "", "Name of it"]),
            "mets": mets, "genes": genes, "rxns": rxns, "compartments": comps,
            "notes": dict(rng.choice(NOTES)), "annotation": dict(rng.choice(ANNOTS)),
            "direction": rng.choice(["max", "max", "min"]), "groups": []}


# ----------------------------------------------------------------------------- building
class use_cfg:
    """Configuration().bounds for the duration of a with-block."""
    def __init__(self, cfg):
        self.cfg = cfg

    def __enter__(self):
        from cobra import Configuration
        self.c = Configuration()
        self.old = self.c.bounds
        self.c.bounds = tuple(self.cfg)

    def __exit__(self, *a):
        self.c.bounds = self.old


def build(spec):
    """The real cobra.Model described by the spec (call inside use_cfg(spec['cfg']))."""
    from cobra import Model, Reaction, Metabolite, Gene
    model = Model(spec["id"], name=spec["name"])
    mets = {}
    for m in spec["mets"]:
        x = Metabolite(m["id"], formula=m["formula"], name=m["name"], charge=m["charge"], compartment=m["compartment"])
        x._bound = m["_bound"]
        x.notes = dict(m["notes"])
        x.annotation = {k: (list(v) if isinstance(v, list) else v) for k, v in m["annotation"].items()}
        mets[m["id"]] = x
    model.add_metabolites(list(mets.values()))
    rxns = []
    for r in spec["rxns"]:
        x = Reaction(r["id"], name=r["name"], subsystem=r["subsystem"], lower_bound=r["bounds"][0],
                     upper_bound=r["bounds"][1])
        x.add_metabolites({mets[k]: c for k, c in r["stoich"]})
        x.notes = dict(r["notes"])
        x.annotation = {k: (list(v) if isinstance(v, list) else v) for k, v in r["annotation"].items()}
        rxns.append(x)
    model.add_reactions(rxns)
    for r, x in zip(spec["rxns"], rxns):
        if r["rule"]:
            x.gene_reaction_rule = r["rule"]
    for g in spec["genes"]:
        if g["id"] not in model.genes:
            y = Gene(g["id"])
            y._model = model
            model.genes.append(y)
        y = model.genes.get_by_id(g["id"])
        y.name = g["name"]
        y.notes = dict(g["notes"])
        y.annotation = {k: (list(v) if isinstance(v, list) else v) for k, v in g["annotation"].items()}
    model.objective = {x: r["objective"] for r, x in zip(spec["rxns"], rxns) if r["objective"] != 0}
    model.objective_direction = spec["direction"]
    model.compartments = dict(spec["compartments"])
    model.notes = dict(spec["notes"])
    model.annotation = {k: (list(v) if isinstance(v, list) else v) for k, v in spec["annotation"].items()}
    for gspec in spec.get("groups", []):
        from cobra.core import Group
        members = []
        for kind, mid in gspec["members"]:
            members.append(getattr(model, kind).get_by_id(mid))
        grp = Group(gspec["id"], name=gspec["name"], members=members, kind=gspec["kind"])
        model.add_groups([grp])
    return model


# ----------------------------------------------------------------------------- observing
def num(x):
    """exact value of a number as ['q', n, d] / ['inf', neg] (floats are dyadic rationals)."""
    f = float(x)
    if math.isinf(f):
        return ["inf", f < 0]
    if f != f:
        return ["nan"]
    q = Fraction(f)
    return ["q", q.numerator, q.denominator]


def jv(v, sort_dicts=False):
    """Python value -> JSON-able tagged tree (the jval of JVal.v)."""
    if v is None:
        return ["null"]
    if isinstance(v, bool):
        return ["b", v]
    if isinstance(v, (int, float)):
        return num(v)
    if isinstance(v, str):
        return ["s", str(v)]
    if isinstance(v, dict):
        items = [[str(k), jv(x, sort_dicts)] for k, x in v.items()]
        if sort_dicts:
            items.sort(key=lambda kv: kv[0])
        return ["d", items]
    if isinstance(v, (list, tuple)):
        return ["l", [jv(x, sort_dicts) for x in v]]
    if isinstance(v, (set, frozenset)):
        return ["l", sorted((jv(x, sort_dicts) for x in v), key=repr)]
    try:
        return num(v)           # numpy numbers
    except Exception:
        return ["s", "<%s>" % type(v).__name__]


def dict_attr(d):
    """a dict-valued attribute as sorted [[key, jval]] (Python dict equality ignores order)."""
    return sorted([[str(k), jv(x, True)] for k, x in dict(d).items()], key=lambda kv: kv[0])


def raw_lp(model):
    """The GLPK problem as it is in the solver object: columns (name, type, lb, ub), rows (name, type,
    lb, ub, coefficients), objective coefficients; everything sorted by name.  Direction separately."""
    import swiglpk as g
    P = model.solver.problem
    nc, nr = g.glp_get_num_cols(P), g.glp_get_num_rows(P)
    names = [None] + [g.glp_get_col_name(P, j) for j in range(1, nc + 1)]

    def bnd(t, lb, ub):
        lo = None if t in (g.GLP_FR, g.GLP_UP) else lb
        hi = None if t in (g.GLP_FR, g.GLP_LO) else (lb if t == g.GLP_FX else ub)
        return [jv(lo), jv(hi)]
    cols = sorted([names[j], ["l", bnd(g.glp_get_col_type(P, j), g.glp_get_col_lb(P, j), g.glp_get_col_ub(P, j))
                              + [jv(g.glp_get_col_kind(P, j))]]] for j in range(1, nc + 1))
    rows = []
    ia, da = g.intArray(nc + 1), g.doubleArray(nc + 1)
    for i in range(1, nr + 1):
        n = g.glp_get_mat_row(P, i, ia, da)
        co = sorted([names[ia[k]], jv(da[k])] for k in range(1, n + 1) if da[k] != 0)
        rows.append([g.glp_get_row_name(P, i),
                     ["l", bnd(g.glp_get_row_type(P, i), g.glp_get_row_lb(P, i), g.glp_get_row_ub(P, i)) + [["d", co]]]])
    rows.sort()
    obj = sorted([names[j], jv(g.glp_get_obj_coef(P, j))] for j in range(1, nc + 1) if g.glp_get_obj_coef(P, j) != 0)
    direction = "max" if g.glp_get_obj_dir(P) == g.GLP_MAX else "min"
    return ["l", [["d", cols], ["d", rows], ["d", obj], jv(g.glp_get_obj_coef(P, 0))]], direction


def observe(model):
    """Full observation: the abstract model (amodel of DictModel.v) + raw LP."""
    mets = []
    for m in model.metabolites:
        mets.append({"id": str(m.id), "name": None if m.name is None else str(m.name),
                     "compartment": None if m.compartment is None else str(m.compartment),
                     "charge": None if m.charge is None else num(m.charge),
                     "formula": None if m.formula is None else str(m.formula),
                     "_bound": num(m._bound), "notes": dict_attr(m.notes), "annotation": dict_attr(m.annotation)})
    genes = [{"id": str(g.id), "name": None if g.name is None else str(g.name), "notes": dict_attr(g.notes),
              "annotation": dict_attr(g.annotation)} for g in model.genes]
    rxns = []
    for r in model.reactions:
        st = sorted([[str(k.id), num(c)] for k, c in r.metabolites.items()], key=lambda kv: kv[0])
        rxns.append({"id": str(r.id), "name": None if r.name is None else str(r.name), "stoich": st,
                     "lb": num(r.lower_bound), "ub": num(r.upper_bound), "rule": str(r.gene_reaction_rule),
                     "genes": sorted(str(g.id) for g in r.genes),
                     "objective": num(r.objective_coefficient),
                     "subsystem": None if r.subsystem is None else str(r.subsystem),
                     "notes": dict_attr(r.notes), "annotation": dict_attr(r.annotation)})
    lp, lp_dir = raw_lp(model)
    return {"id": None if model.id is None else str(model.id), "name": None if model.name is None else str(model.name),
            "mets": mets, "genes": genes, "rxns": rxns,
            "comps_private": sorted([[str(k), str(v)] for k, v in model._compartments.items()]),
            "comps_public": sorted([[str(k), str(v)] for k, v in model.compartments.items()]),
            "notes": dict_attr(model.notes), "annotation": dict_attr(model.annotation),
            "direction": str(model.objective.direction), "lp_direction": lp_dir, "lp": lp}


def representable(o):
    """None when the observation fits the amodel record, else the reason it does not."""
    for m in o["mets"]:
        if m["name"] is None:
            return "metabolite name None"
        if m["charge"] is not None and (m["charge"][0] != "q" or m["charge"][2] != 1):
            return "non-integer charge"
        if m["_bound"][0] != "q":
            return "_bound not finite"
    for g in o["genes"]:
        if g["name"] is None:
            return "gene name None"
    for r in o["rxns"]:
        if r["name"] is None or r["subsystem"] is None:
            return "reaction name/subsystem None"
        if r["lb"][0] == "nan" or r["ub"][0] == "nan" or r["objective"][0] != "q":
            return "nan bound / non-finite objective"
        if any(c[0] != "q" for _, c in r["stoich"]):
            return "non-finite coefficient"
    if o["direction"] != o["lp_direction"]:
        return "optlang and GLPK disagree on the direction"
    return None


# ----------------------------------------------------------------------------- Coq printers
def c_str(s):
    return "[" + "; ".join(str(ord(ch)) for ch in s) + "]"


def c_ostr(s):
    return "None" if s is None else "(Some %s)" % c_str(s)


def c_q(n):
    assert n[0] == "q", n
    return "((%d) # %d)%%Q" % (n[1], n[2]) if n[1] < 0 else "(%d # %d)%%Q" % (n[1], n[2])


def c_eb(n):
    if n[0] == "inf":
        return "NegInf" if n[1] else "PosInf"
    return "(Fin %s)" % c_q(n)


def c_jv(v):
    t = v[0]
    if t == "null":
        return "JNull"
    if t == "b":
        return "(JBool %s)" % ("true" if v[1] else "false")
    if t == "q":
        return "(JNum %s)" % c_q(v)
    if t == "inf":
        return "(JInf %s)" % ("true" if v[1] else "false")
    if t == "nan":
        return '(JStr %s)' % c_str("<nan>")
    if t == "s":
        return "(JStr %s)" % c_str(v[1])
    if t == "l":
        return "(JList [" + "; ".join(c_jv(x) for x in v[1]) + "])"
    if t == "d":
        return "(JDict %s)" % c_items(v[1])
    raise ValueError(v)


def c_items(items):
    return "[" + "; ".join("(%s, %s)" % (c_str(k), c_jv(x)) for k, x in items) + "]"


def c_model(o):
    mets = "; ".join("mkMet %s %s %s %s %s %s %s %s" % (
        c_str(m["id"]), c_str(m["name"]), c_ostr(m["compartment"]),
        "None" if m["charge"] is None else "(Some (%d))" % m["charge"][1], c_ostr(m["formula"]), c_q(m["_bound"]),
        c_items(m["notes"]), c_items(m["annotation"])) for m in o["mets"])
    genes = "; ".join("mkGene %s %s %s %s" % (c_str(g["id"]), c_str(g["name"]), c_items(g["notes"]),
                                              c_items(g["annotation"])) for g in o["genes"])
    rxns = "; ".join("mkRxn %s %s [%s] %s %s %s %s %s %s %s" % (
        c_str(r["id"]), c_str(r["name"]), "; ".join("(%s, %s)" % (c_str(k), c_q(c)) for k, c in r["stoich"]),
        c_eb(r["lb"]), c_eb(r["ub"]), c_str(r["rule"]), c_q(r["objective"]), c_str(r["subsystem"]),
        c_items(r["notes"]), c_items(r["annotation"])) for r in o["rxns"])
    comps = "; ".join("(%s, %s)" % (c_str(k), c_str(v)) for k, v in o["comps_private"])
    return "(mkModel %s %s [%s] [%s] [%s] [%s] %s %s %s)" % (
        c_ostr(o["id"]), c_ostr(o["name"]), mets, rxns, genes, comps, c_items(o["notes"]), c_items(o["annotation"]),
        "true" if o["direction"] == "max" else "false")


ERRS = {"ValueError": "EValue", "KeyError": "EKey", "TypeError": "EType", "AttributeError": "EAttr"}


def c_err(name):
    return "(Err %s)" % ERRS.get(name, "EOther")


# ----------------------------------------------------------------------------- evaluation in coqc
import hashlib
import os
import re
import shutil
import tempfile

_STR_RE = re.compile(r"\[\d+(?:; \d+)*\]")


class Defs:
    """Shared sub-terms of generated case files: every distinct big term (an observed model, an LP,
    a dict) is defined once per file and referred to by a content-derived name."""
    def __init__(self):
        self.by_name = {}

    def ref(self, prefix, typ, text):
        name = "%s_%s" % (prefix, hashlib.sha1(text.encode()).hexdigest()[:12])
        self.by_name[name] = (typ, text)
        return name


def eval_cases(K, header, cases, case_type, fn, shard=40, timeout=900):
    """cases: list of (term, set of def names); defs: Defs.  Like common.coq_eval_cases but with shared
    definitions and interned strings (code-point lists), which keeps coqc's elaboration time low."""
    from concurrent.futures import ThreadPoolExecutor
    tmp = tempfile.mkdtemp(prefix="verif_cases_")
    paths = []
    for s0 in range(0, len(cases), shard):
        chunk = cases[s0:s0 + shard]
        needed = {}
        for term, defs in chunk:
            for n in re.findall(r"\b[a-z]+_[0-9a-f]{12}\b", term):
                needed[n] = defs.by_name[n]
        body = []
        for n, (typ, text) in needed.items():
            body.append("Definition %s : %s := %s." % (n, typ, text))
        body.append("Definition cases : list (Z * (%s)) := [\n%s\n]." % (
            case_type, ";\n".join("(%d%%Z, %s)" % (s0 + i, t) for i, (t, _) in enumerate(chunk))))
        text = "\n".join(body)
        strs = {}
        def intern(m):
            k = m.group(0)
            if k not in strs:
                strs[k] = "s%d" % len(strs)
            return strs[k]
        text = _STR_RE.sub(intern, text)
        pre = "\n".join("Definition %s : str := %s." % (n, k) for k, n in strs.items())
        path = os.path.join(tmp, "cases_%d.v" % (s0 // shard))
        with open(path, "w") as f:
            f.write(header + "\n" + pre + "\n" + text + "\nEval vm_compute in (%s cases).\n" % fn)
        paths.append(path)
    results, faults = [], []
    with ThreadPoolExecutor(max_workers=K.JOBS) as ex:
        for path, rc, out in ex.map(K._run_shard, [(p, timeout) for p in paths]):
            m = K.RESULT_RE.search(out)
            if rc != 0 or not m:
                faults.append("%s: rc=%s %s" % (os.path.basename(path), rc, out[-1500:]))
                continue
            try:
                results.extend(K.parse_coq_list(m.group(1)))
            except Exception as e:  # noqa
                faults.append("%s: unparsable output %s" % (os.path.basename(path), e))
    if not os.environ.get("VERIF_KEEP"):
        shutil.rmtree(tmp, ignore_errors=True)
    return results, faults
