"""Shared driver for the LP-based property checks (C04, C05, C06, C09, C17, C18, C19).

A check module supplies
    PROP, HEADER, CASE_TYPE, CODES (code -> text), EXTRA_TARGETS
    gen_cases(rng, tier) -> list of JSON-able cases (each has at least {"net": ...})
    case_term(case) -> (coq term text | None, info dict)       runs the implementation + exact oracle
    signature(case, codes) -> dict                               for known-findings matching
and calls lpcheck.main(module).  Code 9 always means "the exact oracle's certificate was rejected by the
Coq checker" (a harness fault, reported as such, never as a violation of the property); code 1 means the
Gallina model and the implementation differ; codes >= 2 are property-monitor failures.
"""
import copy
import json
import os
import random
import sys
import time

import common as K


def shrink_net(case, fails, budget=60):
    """Greedy structural shrinking of case["net"]: drop reactions, then metabolites, then simplify bounds /
    rules, as long as `fails(case)` stays true.  `fails` re-runs implementation + model."""
    cur = copy.deepcopy(case)
    n_eval = 0
    changed = True
    while changed and n_eval < budget:
        changed = False
        net = cur["net"]
        cands = []
        for i in range(len(net["rxns"])):
            if len(net["rxns"]) > 1:
                c = copy.deepcopy(cur)
                del c["net"]["rxns"][i]
                cands.append(c)
        for mname in list(net["mets"]):
            if len(net["mets"]) > 1:
                c = copy.deepcopy(cur)
                c["net"]["mets"].remove(mname)
                for r in c["net"]["rxns"]:
                    r["st"].pop(mname, None)
                c["net"]["rxns"] = [r for r in c["net"]["rxns"] if r["st"]]
                if c["net"]["rxns"]:
                    cands.append(c)
        for i, r in enumerate(net["rxns"]):
            if r.get("gpr"):
                c = copy.deepcopy(cur)
                c["net"]["rxns"][i]["gpr"] = ""
                cands.append(c)
        for c in cands:
            if n_eval >= budget:
                break
            n_eval += 1
            c = fix_case(c)
            if c is None:
                continue
            try:
                if fails(c):
                    cur = c
                    changed = True
                    break
            except Exception:
                continue
    return cur


def fix_case(c):
    """Keep auxiliary fields of a case consistent with its (shrunk) network; drop the case when a
    referenced reaction/gene disappeared.  Modules may store ids under these conventional keys."""
    ids = {r["id"] for r in c["net"]["rxns"]}
    for key in ("rxn_list", "rxns2"):
        if key in c and c[key] is not None:
            c[key] = [r for r in c[key] if r in ids]
            if not c[key]:
                return None
    for key in ("rxn",):
        if key in c and c[key] is not None and c[key] not in ids:
            return None
    if not any(r["obj"] not in ("0", "0/1") for r in c["net"]["rxns"]):
        pass
    return c


def main(mod, argv=None):
    args = K.parse_args(argv)
    rep = K.Reporter(mod.PROP, args.tier, args.seed)
    info, broken = K.standard_prelude(mod.PROP, rep, extra_targets=mod.EXTRA_TARGETS)
    rng = random.Random(args.seed)
    t_gen = time.time()
    if args.replay:
        cases = [json.load(open(args.replay))["case"]]
    else:
        cases = []
        corpus = os.path.join(K.VERIF, "corpus", mod.PROP)
        if os.path.isdir(corpus):
            for f in sorted(os.listdir(corpus)):
                if f.endswith(".json"):
                    cases.append(json.load(open(os.path.join(corpus, f)))["case"])
        cases += mod.gen_cases(rng, args.tier)

    def evaluate(cs):
        terms, infos, skipped = [], [], []

        def one(c):
            try:
                return mod.case_term(c)
            except Exception as e:  # implementation crashed in an unforeseen way: report, never hide
                return None, {"harness_exception": "%s: %s" % (type(e).__name__, e)}
        try:
            import cobra  # noqa: F401  (import once in the parent: the forked children share it)
            import cobra.flux_analysis  # noqa: F401
            import cobra.sampling  # noqa: F401
        except Exception:  # noqa
            pass
        # forked children: GLPK now and then aborts the whole process on an internal assertion (bflib/sgf.c)
        for kind, val in K.map_isolated(one, cs):
            if kind == "ok":
                t, inf = val
            else:
                t, inf = None, {"skipped": True, "aborted": val,
                                "stats": {"verdict": "process aborted by the solver library or timed out"}}
            infos.append(inf)
            terms.append(t)
        idx = [i for i, t in enumerate(terms) if t is not None]
        res, faults = K.coq_eval_cases(mod.HEADER, [terms[i] for i in idx], mod.CASE_TYPE, "failing",
                                       shard=getattr(mod, "SHARD", 60), timeout=1500)
        out = {}
        for k, lst in res:
            out[idx[k]] = sorted({code for _, code in lst})
        for i, inf in enumerate(infos):          # codes decided on the Python side (monitors that need no model)
            if inf and inf.get("py_codes"):
                out[i] = sorted(set(out.get(i, [])) | set(inf["py_codes"]))
        return out, faults, infos

    res, faults, infos = evaluate(cases)
    if faults:
        print("HARNESS FAULT: model evaluation failed:\n" + "\n".join(faults[:3]))
        broken.append("model evaluation (coqc on generated cases) failed: " + faults[0][-800:])

    stats = {}
    n_unknown = 0
    skipped = 0
    nontrivial = set()
    for c, inf in zip(cases, infos):
        for k, v in inf.get("stats", {}).items():
            stats.setdefault(k, {})
            stats[k][str(v)] = stats[k].get(str(v), 0) + 1
        if inf.get("skipped"):
            skipped += 1
        elif inf.get("nontrivial", True):
            nontrivial.add(json.dumps(c, sort_keys=True))
        if inf.get("harness_exception"):
            broken.append("harness exception on a case: " + inf["harness_exception"])

    seen = set()
    n_fail = 0
    for idx in sorted(res):
        codes = res[idx]
        if codes == [9]:
            n_unknown += 1
            continue
        n_fail += 1
        want = [c for c in codes if c >= 2 and c != 9] or [1]
        key = tuple(want)
        if key in seen or len(seen) >= 8:
            continue
        seen.add(key)

        def fails(c, want=want):
            r, f, _ = evaluate([c])
            return (not f) and 0 in r and any(w in r[0] for w in want)
        small = cases[idx] if args.replay else shrink_net(cases[idx], fails)
        r2, _, inf2 = evaluate([small])
        codes2 = r2.get(0, codes)
        code = next((c for c in codes2 if c >= 2 and c != 9), codes2[0] if codes2 else want[0])
        replay = {"case": small, "failed": mod.CODES.get(code, str(code)), "codes": codes2,
                  "all_code_meanings": {str(k): v for k, v in mod.CODES.items()},
                  "implementation_observation": inf2[0].get("obs"),
                  "theorem": getattr(mod, "THEOREMS", "")}
        rep.violation(mod.signature(small, codes2), replay)

    if n_unknown:
        broken.append("%d case(s): exact oracle certificate rejected by the Coq checker (code 9)" % n_unknown)
    if broken and rep.violations == 0:      # known findings never hide a broken obligation
        rep.violation({"broken": True}, {"broken_obligations": broken,
                      "note": "a proof obligation, the translator or the correspondence machinery no longer "
                              "checks; no failing input found"}, no_input=True)

    samples = [cases[i] for i in sorted({0, len(cases) // 2, len(cases) - 1})] if cases else []
    evidence = {
        "level": "proof",
        "coverage": {
            "obligations": info["obligations"], "discharged": info["discharged"],
            "checker_cmd": info["checker_cmd"],
            "trusted_base": K.TRUSTED_COMMON + list(getattr(mod, "TRUSTED", [])),
            "axioms_reported_by_Print_Assumptions": info["axioms"],
            "evaluations": len(cases), "distinct_nontrivial": len(nontrivial),
            "rule": mod.RULE, "samples": samples,
            "traces_validated_against_impl": len(cases) - n_fail - skipped - n_unknown,
            "disagreements_checked": n_fail, "exhaustive": False,
            "skipped_ill_conditioned_or_out_of_scope": skipped,
            "oracle_unknown": n_unknown,
            "input_distribution": stats,
            "broken_obligations": broken,
            "case_generation_and_run_s": round(time.time() - t_gen, 1),
        },
        "assumptions": list(getattr(mod, "ASSUMPTIONS", [])),
    }
    return rep.finish(evidence)
