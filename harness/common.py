"""Shared machinery of the cobrapy verification harness.

Run with /venv/bin/python; the implementation under test is imported from REPO/src.
Every check has the same skeleton (DESIGN.md section 2.2):

  gate (no Admitted/Axiom/...) -> regenerate Gen/*.v from the source -> make (proofs) ->
  coqc Properties/<id>.v (Print Assumptions) -> generate cases -> run implementation ->
  evaluate the Gallina model on the same cases inside coqc (vm_compute) -> decide ->
  write evidence / replay files.
"""
import fractions
import hashlib
import json
import os
import random
import re
import shutil
import subprocess
import sys
import tempfile
import time

VERIF = os.path.dirname(os.path.dirname(os.path.abspath(__file__)))
REPO = os.environ.get("VERIF_REPO", "/repo")
COQ = os.path.join(VERIF, "coq")
THEORIES = os.path.join(COQ, "theories")
PY = "/venv/bin/python"
JOBS = int(os.environ.get("VERIF_JOBS", "16"))

FORBIDDEN = re.compile(
    r"\b(Admitted|admit|Axiom|Axioms|Parameter|Parameters|Conjecture|Conjectures|"
    r"Unset\s+Guard|Unset\s+Positivity|Unset\s+Universe|bypass_check|Admit\s+Obligations|"
    r"native_compute|type-in-type|impredicative-set)\b"
)
# Variable/Hypothesis are only allowed inside a Section; checked separately.

COQ_FLAGS = ["-Q", THEORIES, "Cobra", "-w", "-notation-overridden,-deprecated-hint-without-locality,"
             "-deprecated-instance-without-locality,-ambiguous-paths"]


def sh(cmd, timeout=600, cwd=None, env=None, input_=None):
    """Run a command, return (rc, stdout+stderr)."""
    try:
        p = subprocess.run(cmd, cwd=cwd, env=env, input=input_, timeout=timeout,
                           stdout=subprocess.PIPE, stderr=subprocess.STDOUT, text=True)
        out = "\n".join(l for l in p.stdout.splitlines() if "conda.cli.condarc" not in l)
        return p.returncode, out
    except subprocess.TimeoutExpired as e:
        return 124, "TIMEOUT after %ss: %s" % (timeout, cmd if isinstance(cmd, str) else " ".join(cmd))


# ----------------------------------------------------------------------------------------
# Coq side
# ----------------------------------------------------------------------------------------

def strip_comments(text):
    out, depth, i = [], 0, 0
    while i < len(text):
        if text.startswith("(*", i):
            depth += 1
            i += 2
        elif text.startswith("*)", i) and depth:
            depth -= 1
            i += 2
        else:
            if not depth:
                out.append(text[i])
            i += 1
    return "".join(out)


def gate():
    """grep gate over the whole development. Returns list of offending 'file:line: text'."""
    bad = []
    for root, _, files in os.walk(THEORIES):
        for f in files:
            if not f.endswith(".v"):
                continue
            p = os.path.join(root, f)
            text = strip_comments(open(p).read())
            depth = 0
            for n, line in enumerate(text.splitlines(), 1):
                if FORBIDDEN.search(line):
                    bad.append("%s:%d: %s" % (os.path.relpath(p, VERIF), n, line.strip()))
                if re.match(r"\s*Section\b", line):
                    depth += 1
                if re.match(r"\s*End\b", line) and depth:
                    depth -= 1
                if depth == 0 and re.match(r"\s*(Variable|Variables|Hypothesis|Hypotheses|Context)\b", line):
                    bad.append("%s:%d: %s" % (os.path.relpath(p, VERIF), n, line.strip()))
    return bad


def regenerate():
    """Regenerate coq/theories/Gen/*.v from REPO's working tree (fail-closed translator).
    A section that fails removes its file, so exactly the proofs importing it stop compiling."""
    rc, out = sh([PY, os.path.join(VERIF, "harness", "translate_tables.py"), REPO, os.path.join(THEORIES, "Gen")],
                 timeout=120)
    return rc == 0, out


def coq_project():
    files = []
    for root, _, fs in os.walk(THEORIES):
        for f in sorted(fs):
            if f.endswith(".v"):
                files.append(os.path.relpath(os.path.join(root, f), COQ))
    files.sort()
    body = "-Q theories Cobra\n-arg -w -arg -notation-overridden,-deprecated-hint-without-locality," \
           "-deprecated-instance-without-locality,-ambiguous-paths\n" + "\n".join(files) + "\n"
    p = os.path.join(COQ, "_CoqProject")
    if not os.path.exists(p) or open(p).read() != body:
        open(p, "w").write(body)
        sh(["coq_makefile", "-f", "_CoqProject", "-o", "Makefile"], cwd=COQ)
    elif not os.path.exists(os.path.join(COQ, "Makefile")):
        sh(["coq_makefile", "-f", "_CoqProject", "-o", "Makefile"], cwd=COQ)


def build(targets=None, timeout=1500):
    """Full .vo build (never -vos) of the development or of the given .vo targets."""
    coq_project()
    cmd = ["make", "-j%d" % JOBS, "COQC=timeout 900 coqc"]   # no single file may stall a check
    if targets:
        cmd += targets
    rc, out = sh(cmd, cwd=COQ, timeout=timeout)
    return rc == 0, out


AX_RE = re.compile(r"^Axioms:\s*$")


def proof_gate(prop, whitelist=()):
    """Compile Properties/<prop>.v afresh and read the Print Assumptions output.

    Returns dict(ok, obligations, discharged, axioms, log, checker_cmd)."""
    rel = "theories/Properties/%s.v" % prop
    src = strip_comments(open(os.path.join(COQ, rel)).read())
    obligations = len(re.findall(r"^\s*(Theorem|Lemma|Example|Corollary|Fact|Proposition)\b", src, re.M))
    n_print = len(re.findall(r"^\s*Print Assumptions\b", src, re.M))
    cmd = ["coqc"] + COQ_FLAGS + [rel]
    t0 = time.time()
    rc, out = sh(cmd, cwd=COQ, timeout=900)
    closed = len(re.findall(r"Closed under the global context", out))
    axioms = []
    lines = out.splitlines()
    i = 0
    while i < len(lines):
        if AX_RE.match(lines[i]):
            i += 1
            # the block lists  <name>  followed by an indented  ": <type>"  (possibly on the same line)
            while i < len(lines) and not AX_RE.match(lines[i]) and "Closed under" not in lines[i] \
                    and not lines[i].startswith("File ") and not lines[i].startswith("COQ"):
                ln = lines[i]
                if ln and not ln[0].isspace():
                    axioms.append(ln.split(":")[0].strip().split()[0])
                i += 1
        else:
            i += 1
    axioms = sorted(set(axioms))
    unexpected = [a for a in axioms if a not in whitelist]
    n_axiom_blocks = len([l for l in lines if AX_RE.match(l)])
    ok = rc == 0 and (closed + n_axiom_blocks == n_print) and not unexpected
    return dict(ok=ok, rc=rc, obligations=obligations, discharged=obligations if ok else 0,
                axioms=axioms, unexpected_axioms=unexpected, log=out[-4000:],
                checker_cmd="cd %s && make -j%d && %s" % (COQ, JOBS, " ".join(cmd)), wall=time.time() - t0)


class Raw(str):
    """Already-formatted Coq text."""


class C:
    """Constructor / function application:  C('Insert', -1, elem)."""
    def __init__(self, name, *args):
        self.name, self.args = name, args


def coq(v):
    """Python value -> Coq term text (integers are Z)."""
    if isinstance(v, Raw):
        return str(v)
    if isinstance(v, C):
        if not v.args:
            return v.name
        return "(" + v.name + " " + " ".join(coq(a) for a in v.args) + ")"
    if isinstance(v, bool):
        return "true" if v else "false"
    if isinstance(v, int):
        return "(%d)%%Z" % v if v < 0 else "%d%%Z" % v
    if isinstance(v, fractions.Fraction):
        return "(%d # %d)%%Q" % (v.numerator, v.denominator)
    if v is None:
        return "None"
    if isinstance(v, list):
        return "[" + "; ".join(coq(a) for a in v) + "]"
    if isinstance(v, tuple):
        return "(" + ", ".join(coq(a) for a in v) + ")"
    if isinstance(v, str):
        return '"' + v.replace('"', '""') + '"%string'
    raise TypeError("cannot print %r as a Coq term" % (v,))


def Some(v):
    return C("Some", v)


def nat(n):
    return Raw("%d%%nat" % n)


RESULT_RE = re.compile(r"=\s*(\[.*?\])\s*:\s*list", re.S)


def _run_shard(args):
    path, timeout = args
    rc, out = sh(["coqc"] + COQ_FLAGS + [path], cwd=os.path.dirname(path), timeout=timeout)
    return path, rc, out


def parse_coq_list(text):
    """Parse a printed Coq list of nats / pairs / nested lists into Python lists/tuples."""
    t = text.replace("%nat", "").replace("%Z", "").replace(";", ",")
    t = re.sub(r"\s+", " ", t)
    if not re.fullmatch(r"[\[\]\(\), \-0-9]*", t):
        raise ValueError("unexpected characters in Coq output: %r" % text[:200])
    return eval(t, {"__builtins__": {}})  # digits, brackets, commas only (checked above)


def coq_eval_cases(header, case_terms, case_type, fn, shard=250, timeout=900, workdir=None, keep=False):
    """Evaluate `fn` (a Coq function  list (Z * case_type) -> list (Z * RESULT)) on the cases.

    Returns (results: list of parsed entries, faults: list of strings)."""
    from concurrent.futures import ThreadPoolExecutor
    tmp = workdir or tempfile.mkdtemp(prefix="verif_cases_")
    paths = []
    for s in range(0, len(case_terms), shard):
        chunk = case_terms[s:s + shard]
        p = os.path.join(tmp, "cases_%d.v" % (s // shard))
        with open(p, "w") as f:
            f.write(header + "\n")
            f.write("Definition cases : list (Z * (%s)) := [\n" % case_type)
            f.write(";\n".join("(%d%%Z, %s)" % (s + i, c) for i, c in enumerate(chunk)))
            f.write("\n].\nEval vm_compute in (%s cases).\n" % fn)
        paths.append(p)
    results, faults = [], []
    with ThreadPoolExecutor(max_workers=JOBS) as ex:
        for path, rc, out in ex.map(_run_shard, [(p, timeout) for p in paths]):
            m = RESULT_RE.search(out)
            if rc != 0 or not m:
                faults.append("%s: rc=%s %s" % (os.path.basename(path), rc, out[-1500:]))
                continue
            try:
                results.extend(parse_coq_list(m.group(1)))
            except Exception as e:  # noqa
                faults.append("%s: unparsable output %s" % (os.path.basename(path), e))
    if not keep and not workdir:
        shutil.rmtree(tmp, ignore_errors=True)
    return results, faults


def map_isolated(fn, items, chunk=6, timeout=900, workers=None):
    """[fn(x) for x in items] with every chunk evaluated in its own forked child (several in flight).  Returns a list of
    ("ok", result) | ("aborted", reason): when a child dies (GLPK aborts the process on an internal assertion) or runs
    out of time, its items are re-run one by one, so exactly the offending item is reported as aborted."""
    from concurrent.futures import ThreadPoolExecutor
    items = list(items)
    if not items:
        return []
    chunks = [items[i:i + chunk] for i in range(0, len(items), chunk)]

    def many(xs):
        return [fn(x) for x in xs]

    def do(xs):
        kind, val = run_isolated(many, xs, timeout=timeout)
        if kind == "ok" and isinstance(val, list) and len(val) == len(xs):
            return [("ok", v) for v in val]
        out = []
        for x in xs:
            k, v = run_isolated(fn, x, timeout=timeout)
            out.append(("ok", v) if k == "ok" else ("aborted", str(v)[:300]))
        return out
    with ThreadPoolExecutor(max_workers=workers or max(1, min(JOBS, 8))) as ex:
        parts = list(ex.map(do, chunks))
    return [r for part in parts for r in part]


def run_isolated(fn, arg, timeout=600):
    """Run fn(arg) in a forked child and return ("ok", result) | ("aborted", reason).
    GLPK now and then aborts the whole process on an internal assertion (e.g. bflib/sgf.c); a check must
    survive that and count the case instead of dying."""
    import pickle
    import select
    import signal
    r, w = os.pipe()
    pid = os.fork()
    if pid == 0:
        code = 0
        try:
            os.close(r)
            try:
                payload = pickle.dumps(("ok", fn(arg)))
            except BaseException as e:  # noqa
                payload = pickle.dumps(("raised", "%s: %s" % (type(e).__name__, e)))
            with os.fdopen(w, "wb") as f:
                f.write(payload)
        except BaseException:
            code = 3
        finally:
            os._exit(code)
    os.close(w)
    chunks = []
    deadline = time.time() + timeout
    with os.fdopen(r, "rb") as f:
        while True:
            left = deadline - time.time()
            if left <= 0:
                os.kill(pid, signal.SIGKILL)
                os.waitpid(pid, 0)
                return "aborted", "timeout after %ss" % timeout
            ready, _, _ = select.select([f], [], [], min(left, 5))
            if ready:
                b = f.read(1 << 20)
                if not b:
                    break
                chunks.append(b)
    _, status = os.waitpid(pid, 0)
    data = b"".join(chunks)
    if not data:
        return "aborted", "child died (wait status %d) without a result" % status
    kind, val = pickle.loads(data)
    if kind == "raised":
        raise RuntimeError(val)
    return "ok", val


# ----------------------------------------------------------------------------------------
# findings, replay, evidence
# ----------------------------------------------------------------------------------------

def load_findings(prop):
    p = os.path.join(VERIF, "known_findings.json")
    if not os.path.exists(p):
        return []
    data = json.load(open(p))
    return [f for f in data.get("findings", []) if f.get("property") == prop]


def matches(sig, case_sig):
    """A finding signature matches when every key it names has the same value in the
    signature computed from the shrunk failing case."""
    return all(case_sig.get(k) == v for k, v in sig.items())


class Reporter:
    def __init__(self, prop, tier, seed):
        self.prop, self.tier, self.seed = prop, tier, seed
        self.t0 = time.time()
        self.violations = 0
        self.known = {}
        self.findings = load_findings(prop)
        self.lines = []
        self.replay_dir = os.path.join(VERIF, "replays", prop)
        self.n_replays = 0

    def violation(self, case_sig, replay, no_input=False):
        """Report one violation (already shrunk). case_sig: dict used to match known findings."""
        for f in self.findings:
            if not no_input and matches(f["signature"], case_sig):
                self.known.setdefault(f["key"], f)
                return "known"
        os.makedirs(self.replay_dir, exist_ok=True)
        self.n_replays += 1
        digest = hashlib.sha1(json.dumps(replay, sort_keys=True, default=str).encode()).hexdigest()[:10]
        path = os.path.join(self.replay_dir, "%s_%s_%s.json" % (self.prop, self.tier, digest))
        replay = dict(replay)
        replay.update(property=self.prop, tier=self.tier, seed=self.seed, signature=case_sig,
                      replay_cmd="bin/check %s --replay %s" % (self.prop, path))
        with open(path, "w") as f:
            json.dump(replay, f, indent=1, default=str)
        self.violations += 1
        line = "VIOLATION property=%s replay=%s" % (self.prop, path)
        if no_input:
            line += " no-failing-input-found"
        print(line, flush=True)
        return "new"

    def finish(self, evidence):
        for k, f in sorted(self.known.items()):
            print("KNOWN-FINDING: property=%s %s" % (self.prop, f["what_fails"]), flush=True)
        evidence.setdefault("property_id", self.prop)
        evidence.setdefault("tier", self.tier)
        evidence.setdefault("seed", self.seed)
        evidence.setdefault("level", "proof")
        evidence["violations"] = self.violations
        evidence["wall_s"] = round(time.time() - self.t0, 2)
        evidence.setdefault("coverage", {})["known_findings_seen"] = sorted(self.known)
        os.makedirs(os.path.join(VERIF, "evidence"), exist_ok=True)
        with open(os.path.join(VERIF, "evidence", "%s.json" % self.prop), "w") as f:
            json.dump(evidence, f, indent=1, default=str)
        print("%s tier=%s seed=%s violations=%d known=%d wall=%.1fs" % (
            self.prop, self.tier, self.seed, self.violations, len(self.known), evidence["wall_s"]), flush=True)
        return 1 if self.violations else 0


TRUSTED_COMMON = [
    "Coq 8.16.1 kernel incl. the vm_compute bytecode machine (no native_compute); full .vo build",
    "no axioms declared by the development; Print Assumptions of every property theorem is checked on each run",
    "harness/translate_tables.py (fail-closed Python-ast translator producing coq/theories/Gen/*.v)",
    "correspondence harness (Python generators, observation and canonicalisation code, Coq term printer, "
    "parser of coqc's printed result lists)",
    "CPython 3.12 and the third-party packages cobrapy runs on are exercised, not verified",
]


def standard_prelude(prop, rep, whitelist=(), extra_targets=()):
    """gate + regenerate + build (the property's own closure) + proof gate.
    Returns (proof_info, broken: list[str]).  extra_targets: further .vo files (relative to coq/)
    the check needs, e.g. the correspondence functions "theories/DictList/Check.vo"."""
    broken = []
    g = gate()
    if g:
        broken.append("gate: forbidden construct(s): " + "; ".join(g[:5]))
    ok_gen, out_gen = regenerate()
    if not ok_gen:
        # A table section no longer recognises the source (a broken tie, reported below).  So that the
        # failing-input search can still run the model, fall back to the committed snapshot of that table.
        snapdir = os.path.join(VERIF, "harness", "snapshots")
        for line in out_gen.splitlines():
            if line.startswith("FAIL "):
                stem = line.split()[1]
                snap = os.path.join(snapdir, stem + ".v")
                if os.path.exists(snap):
                    shutil.copy(snap, os.path.join(THEORIES, "Gen", stem + ".v"))
                    broken.append("translator no longer recognises the source for Gen/%s.v (%s); the committed snapshot of "
                                  "the table is used for the failing-input search only" % (stem, line[5:].strip()[:300]))
    ok, out = build(["theories/Properties/%s.vo" % prop] + list(extra_targets))
    if not ok:
        broken.append("make failed: " + out[-1500:] +
                      ("" if ok_gen else "\ntranslator (source shape no longer recognised): " + out_gen[-800:]))
    info = proof_gate(prop, whitelist) if ok else dict(ok=False, obligations=0, discharged=0, axioms=[],
                                                       unexpected_axioms=[], log=out[-1500:],
                                                       checker_cmd="cd %s && make" % COQ, rc=1)
    if ok and not info["ok"]:
        broken.append("Properties/%s.v no longer checks: %s" % (prop, info["log"][-1200:]))
    return info, broken


def parse_args(argv=None):
    import argparse
    ap = argparse.ArgumentParser()
    ap.add_argument("--tier", default=os.environ.get("VERIF_TIER", "quick"), choices=["quick", "thorough"])
    ap.add_argument("--seed", type=int, default=int(os.environ.get("VERIF_SEED", "20260926")))
    ap.add_argument("--replay", default=None)
    return ap.parse_args(argv)
