"""C01 — the solver holds exactly the model's flux-balance problem (see harness/core.py)."""
import os
import sys
sys.path.insert(0, os.path.dirname(os.path.abspath(__file__)))
import core  # noqa: E402
import groups  # noqa: E402  (kernel III, identifier part: renames, escape_ID, bounds after a rename; coq/theories/Groups)
import extras  # noqa: E402  (kernel IV: user constraints / variables, solver switch, merge; coq/theories/Extras)

if __name__ == "__main__":
    sys.exit(core.main(
        "C01", own_codes=[2],
        gen_params={"quick": 500, "thorough": 12000, "len_quick": 14, "len_thorough": 30, "gen": {"ctx_p": 0.08}},
        rule="random histories over the op kernel of coq/theories/Core/Model.v (build, add/remove reactions and "
             "metabolites, bounds incl. failing assignments and infinities, stoichiometry edits combine/replace, objective, "
             "direction, scaling, nested contexts), drawn while executing on the real Model, both solver interfaces; after "
             "EVERY step the Python objects and the raw GLPK problem (swiglpk) are observed; non-trivial = the history "
             "contains an operation other than Enter/Exit/NewRxn; distinct = distinct op lists",
        manifest_trusted=["optlang / GLPK container semantics are modelled (Core/Model.v 'solver primitives'), validated by "
                          "reading the raw problem back after every step",
                          "groups kernel (identifier part): the solver is observed through the names (optlang and raw GLPK), "
                          "see harness/groups.py observe",
                          "extras kernel: the ledger of what the user added is specification state of the model "
                          "(Extras/Model.v); which of the repaired / unrepaired variants of the merge code paths is under "
                          "test is decided by probes on the real implementation (harness/extras.py probe_variant)"],
        extra=[groups.run_c01, extras.run_c01], extra_targets=groups.EXTRA_TARGETS + extras.EXTRA_TARGETS))
