"""C16 — every flux sample is a feasible flux distribution.

(i)  Monitor on real samples: ACHRSampler / OptGPSampler through cobra.sampling.sample() and the
     sampler objects, flux and variable space; every returned row is converted exactly with
     Fraction(float) and checked by the proved-sound Coq checker `feasible_tol` at the sampler's
     tolerance; validate() must say 'v' exactly where that check does; shape, column order,
     reproducibility for equal seeds, model unchanged; degenerate-polytope refusals are accepted
     only when the polytope really has dimension <= 1.
(ii) Differential test of the real `step` and `validate` against the Gallina model
     (coq/theories/Sampling/Step.v) on scripted draws / constructed rows."""
import json
import math
import os
import random
import sys
from fractions import Fraction as F

sys.path.insert(0, os.path.dirname(os.path.abspath(__file__)))
import common as K  # noqa: E402
from common import C, Raw, Some, coq  # noqa: E402

sys.path.insert(0, os.path.join(K.REPO, "src"))

PROP = "C16"
CODES = {1: "model (Sampling/Step.v) and implementation differ (step / validate differential)",
         2: "a returned sample is not a feasible flux distribution at the sampler's tolerance (feasible_tol)",
         3: "validate() does not say 'v' exactly where the independent feasibility check does",
         4: "step returned a point outside the bounds its guard promises",
         5: "wrong shape or columns of the returned frame",
         6: "equal seeds gave different samples",
         7: "sampling modified the model",
         8: "sampler raised on a non-degenerate feasible finite-bound model",
         9: "validate() raised"}

COEF = [F(1), F(1), F(-1), F(2), F(-2), F(1, 2), F(-1, 2)]


# ------------------------------------------------------------------ generator

def gen_network(rng):
    """Finite-bound network: chain / branches / reversible cycles, exchanges, forced (lb > 0) and
    fixed fluxes.  JSON-able spec; feasibility and dimension are established by run_instance."""
    n_int = rng.randrange(2, 5)
    mets = ["M%d" % i for i in range(n_int)]
    rxns = []

    def bnd(kind):
        if kind == "irr":
            return 0, rng.choice([1, 5, 10, 1000])
        if kind == "rev":
            return rng.choice([-1, -5, -10, -1000]), rng.choice([1, 5, 10, 1000])
        if kind == "forced":
            return rng.choice([1, 1, 2]), rng.choice([5, 10, 1000])
        if kind == "fixed":
            v = rng.choice([1, 2, -1])
            return v, v
        return rng.choice([-10, -5, -1]), 0          # "neg"
    # uptake into M0, secretion from every other metabolite (probabilistically), both written either way
    rxns.append({"id": "EX_in", "mets": {mets[0]: str(rng.choice([F(1), F(1), F(2)]))},
                 "b": bnd(rng.choice(["irr", "irr", "rev", "forced"]))})
    for i, m in enumerate(mets[1:], 1):
        if rng.random() < 0.75 or i == n_int - 1:
            if rng.random() < 0.7:
                rxns.append({"id": "EX_o%d" % i, "mets": {m: "-1"}, "b": bnd(rng.choice(["irr", "irr", "rev"]))})
            else:      # import form: secretion is negative flux
                rxns.append({"id": "IM_o%d" % i, "mets": {m: "1"}, "b": bnd(rng.choice(["neg", "rev"]))})
    k = 0
    for i in range(n_int - 1):        # chain
        rxns.append({"id": "R%d" % k, "mets": {mets[i]: str(rng.choice([F(-1), F(-1), F(-2)])),
                                               mets[i + 1]: str(rng.choice([F(1), F(1), F(2), F(1, 2)]))},
                     "b": bnd(rng.choice(["irr", "rev", "rev"]))})
        k += 1
    for _ in range(rng.randrange(1, 4)):   # branches / parallel routes / cycles
        if len(rxns) >= 9:
            break
        a, b = rng.sample(range(n_int), 2)
        rxns.append({"id": "R%d" % k, "mets": {mets[a]: str(rng.choice([F(-1), F(-2), F(-1, 2)])),
                                               mets[b]: str(rng.choice([F(1), F(2), F(1, 2)]))},
                     "b": bnd(rng.choice(["irr", "rev", "rev", "forced", "fixed"] if rng.random() < 0.5
                                         else ["irr", "rev"]))})
        k += 1
    rng.shuffle(rxns)
    for r in rxns:
        r["lb"], r["ub"] = r.pop("b")
    n_extra = rng.choice([0, 0, 1, 1, 2, 3])
    extra = []
    for j in range(n_extra):
        ids = rng.sample([r["id"] for r in rxns], rng.choice([1, 2, 2, 3]))
        extra.append({"name": "uc%d" % j, "coefs": {i: str(rng.choice([F(1), F(-1), F(2), F(1, 2)])) for i in ids},
                      "below": rng.choice([None, "1/2", "1", "2", "0"]), "above": rng.choice([None, "1/2", "1", "3", "0"])})
        if extra[-1]["below"] is None and extra[-1]["above"] is None:
            extra[-1]["above"] = "1"
    return {"mets": mets, "rxns": rxns, "extra": extra, "tolerance": rng.choice([None, None, None, 1e-6])}


def gen_configs(rng, tier):
    cfgs = []
    for _ in range(3 if tier == "quick" else 6):
        method = rng.choice(["achr", "optgp"])
        api = rng.choice(["sample", "object", "object"])
        cfg = {"method": method, "api": api, "n": rng.choice([1, 2, 3, 5, 7, 10, 11, 17, 25] if tier == "quick"
                                                             else [1, 2, 5, 20, 50, 100]),
               "thinning": rng.choice([1, 2, 5, 10, 25]), "seed": rng.randrange(1, 2 ** 31),
               "processes": rng.choice([1, 1, 2, 2, 3]) if method == "optgp" else 1,
               # successive sample() calls on the SAME sampler object (its centre / counters carry over)
               "repeat": rng.choice([1, 1, 2, 3]) if api == "object" else 1,
               "fluxes": True if api == "sample" else rng.random() < 0.55,
               "nproj": None if api == "sample" else rng.choice([None, None, 1, 3, 7])}
        cfg["decoy"] = api == "object" and len(cfgs) % 3 == 0       # see draw(): a second sampler built in between
        cfgs.append(cfg)
    return cfgs


# ------------------------------------------------------------------ implementation side

def build_model(net):
    from cobra import Model, Reaction, Metabolite
    m = Model("n")
    mets = {mid: Metabolite(mid, compartment="c") for mid in net["mets"]}
    rs = []
    for r in net["rxns"]:
        x = Reaction(r["id"], lower_bound=r["lb"], upper_bound=r["ub"])
        x.add_metabolites({mets[k]: float(F(c)) for k, c in r["mets"].items()})
        rs.append(x)
    m.add_reactions(rs)
    m.objective = {m.reactions.get_by_id(net["rxns"][0]["id"]): 1}
    if net.get("tolerance"):
        m.tolerance = net["tolerance"]
    return m


def add_extra(m, net, resolved):
    cons = []
    for e, (lb, ub) in zip(net["extra"], resolved):
        expr = sum(float(F(c)) * m.reactions.get_by_id(i).flux_expression for i, c in e["coefs"].items())
        cons.append(m.problem.Constraint(expr, lb=None if lb is None else float(F(lb)),
                                         ub=None if ub is None else float(F(ub)), name=e["name"]))
    if cons:
        m.add_cons_vars(cons)


def fingerprint(m):
    def lin(c):
        return sorted((v.name, float(k)) for v, k in c.get_linear_coefficients(c.variables).items())
    return json.dumps({
        "rxns": [(r.id, r.lower_bound, r.upper_bound, sorted((k.id, v) for k, v in r.metabolites.items()),
                  r.gene_reaction_rule) for r in m.reactions],
        "mets": [x.id for x in m.metabolites], "genes": [g.id for g in m.genes],
        "dir": m.objective_direction, "obj": lin(m.solver.objective),
        "cons": [(c.name, c.lb, c.ub, lin(c)) for c in m.constraints],
        "vars": [(v.name, v.lb, v.ub) for v in m.variables], "tol": m.tolerance}, sort_keys=True, default=str)


def fr(x):
    x = float(x)
    if math.isnan(x):
        return "nan"
    if math.isinf(x):
        return None
    return str(F(x))


def vertex_points(m):
    """Flux vectors at the minimum / maximum of every reaction (the harness's own FVA)."""
    import numpy as np
    pts = []
    with m:
        for r in m.reactions:
            for d in ("max", "min"):
                m.objective = r
                m.objective_direction = d
                s = m.optimize()
                if s.status != "optimal":
                    return None
                pts.append([s.fluxes[x.id] for x in m.reactions])
    return np.array(pts)


def mirror_warmup(m, tol):
    """The harness's own replay of HRSampler.generate_fva_warmup on a fresh copy of the model (same solver
    call sequence, hence the same vertices) followed by the documented redundancy rule; returns the
    number of non-redundant warm-up rows.  Used only to decide whether a refusal's stated condition holds."""
    import numpy as np
    from optlang.symbolics import Zero
    mm = m.copy()
    rows = []
    mm.objective = Zero
    for sense in ("min", "max"):
        mm.objective_direction = sense
        for r in mm.reactions:
            if r.upper_bound - r.lower_bound < tol:
                continue
            mm.objective.set_linear_coefficients({r.forward_variable: 1, r.reverse_variable: -1})
            mm.slim_optimize()
            if mm.solver.status == "optimal":
                pr = mm.solver.primal_values
                rows.append([pr[v.name] for v in mm.variables])
                mm.objective.set_linear_coefficients({r.forward_variable: 0, r.reverse_variable: 0})
    if len(rows) < 2:
        return len(rows)
    mat = np.array(rows)
    extra_col = mat[:, 0] + 1
    extra_col[mat.sum(axis=1) == 0] = 2
    corr = np.tril(np.corrcoef(np.c_[mat, extra_col]), -1)
    return int((~(np.abs(corr) > 1.0 - tol).any(axis=1)).sum())


class ScriptedRandom:
    """Replaces numpy.random.uniform / randint while the real `step` runs a scripted retry."""
    def __init__(self, script):
        import numpy as np
        self.np, self.script, self.used = np, list(script), 0
        self.orig = (np.random.uniform, np.random.randint)

    def __enter__(self):
        def randint(n, *a, **k):
            kk, _ = self.script[self.used]
            return kk

        def uniform(lo, hi, *a, **k):
            _, u = self.script[self.used]
            self.used += 1
            return lo + float(F(u)) * (hi - lo)
        self.np.random.uniform, self.np.random.randint = uniform, randint
        return self

    def __exit__(self, *a):
        self.np.random.uniform, self.np.random.randint = self.orig


def problem_dump(s):
    p = s.problem
    import numpy as np
    k = p.inequalities.shape[0] if p.inequalities.ndim == 2 else 0
    return {"eq": [[fr(v) for v in row] for row in np.atleast_2d(p.equalities)] if p.equalities.size else [],
            "b": [fr(v) for v in p.b],
            "ineq": [[fr(v) for v in row] for row in p.inequalities] if k else [],
            "ilb": [fr(v) for v in p.bounds[0, ]] if k else [], "iub": [fr(v) for v in p.bounds[1, ]] if k else [],
            "fixed": [bool(v) for v in p.variable_fixed],
            "vlb": [fr(v) for v in p.variable_bounds[0, ]], "vub": [fr(v) for v in p.variable_bounds[1, ]],
            "homogeneous": bool(p.homogeneous), "ftol": fr(s.feasibility_tol), "btol": fr(s.bounds_tol),
            "center": [fr(v) for v in s.center], "warmup": [[fr(v) for v in row] for row in s.warmup],
            "thinning": int(s.thinning), "nproj": int(s.nproj)}


def run_instance(inst):
    import logging
    import warnings
    warnings.simplefilter("ignore")
    logging.disable(logging.CRITICAL)
    import numpy as np
    import cobra
    from cobra.sampling import sample, ACHRSampler, OptGPSampler
    from cobra.sampling.core import step
    cobra.Configuration().processes = 1
    net = inst["net"]
    rng = random.Random(inst["seed"])
    rids = [r["id"] for r in net["rxns"]]
    out = []
    m = build_model(net)
    pts = vertex_points(m)
    if pts is None:
        return [{"kind": "skip", "why": "infeasible network"}]
    # user constraints around an interior-ish point so that they are satisfiable
    centre = pts.mean(axis=0)
    resolved = inst.get("resolved_extra")
    if resolved is None:
        resolved = []
        for e in net["extra"]:
            val = sum(F(c) * F(float(centre[rids.index(i)])).limit_denominator(64) for i, c in e["coefs"].items())
            lb = None if e["below"] is None else str(val - F(e["below"]))
            ub = None if e["above"] is None else str(val + F(e["above"]))
            if lb is not None and ub is not None and F(lb) == F(ub) and rng.random() < 0.5:
                ub = str(F(ub) + 1)
            shape = rng.random()
            if shape < 0.15 and abs(val) >= 1:
                # a narrow two-sided range: wider than the tolerance, small relative to its value
                lb, ub = str(val * (1 - F(4, 10 ** 6))), str(val * (1 + F(4, 10 ** 6)))
                if F(lb) > F(ub):
                    lb, ub = ub, lb
            elif shape < 0.3 and val != 0:
                lb = ub = str(val)             # an equality with a non-zero right-hand side
            resolved.append([lb, ub])
    add_extra(m, net, resolved)
    pts = vertex_points(m)
    if pts is None:
        return [{"kind": "skip", "why": "infeasible with user constraints"}]
    ranges = pts.max(axis=0) - pts.min(axis=0)
    n_var = int((ranges > 1e-6).sum())
    dim = int(np.linalg.matrix_rank(pts - pts.mean(axis=0), tol=1e-6))
    base = {"net": net, "resolved_extra": resolved, "dim": dim, "n_nonzero_range": n_var,
            "tolerance": fr(m.tolerance)}
    if n_var < 3 and not inst.get("keep_degenerate"):
        return [dict(base, kind="skip", why="fewer than three reactions of non-zero range")]
    fp0 = fingerprint(m)
    var_names = [n for r in m.reactions for n in (r.id, r.reverse_id)]
    REFUSALS = ("Flux cone only consists a single point.",
                "Cannot sample from an inhomogenous problem with only 2 search directions.")

    def make(cfg):
        if cfg["method"] == "achr":
            return ACHRSampler(m, thinning=cfg["thinning"], nproj=cfg["nproj"], seed=cfg["seed"])
        return OptGPSampler(m, processes=cfg["processes"], thinning=cfg["thinning"], nproj=cfg["nproj"],
                            seed=cfg["seed"])

    def draw(cfg):
        if cfg["api"] == "sample":
            return None, sample(m, cfg["n"], method=cfg["method"], thinning=cfg["thinning"],
                                processes=cfg["processes"], seed=cfg["seed"])
        s = make(cfg)
        if cfg.get("decoy"):
            # another sampler, for a model with the same variables and WIDER bounds, is built before the first one is
            # used: samplers must not share state (a sample of `s` belongs to the model `s` was built for)
            try:
                m2 = m.copy()
                for r2 in m2.reactions:
                    r2.bounds = (2 * r2.lower_bound - 1, 2 * r2.upper_bound + 1)
                (ACHRSampler if cfg["method"] == "achr" else OptGPSampler)(m2, thinning=1, seed=7)
            except Exception:  # noqa  (the decoy itself may be refused)
                pass
        import pandas as pd
        dfs = [s.sample(cfg["n"], fluxes=cfg["fluxes"]) for _ in range(cfg.get("repeat", 1))]
        return s, (dfs[0] if len(dfs) == 1 else pd.concat(dfs, ignore_index=True))

    tolf = float(m.tolerance)
    inhomogeneous = any(r["lb"] == r["ub"] and r["lb"] != 0 for r in net["rxns"]) or any(
        lu[0] is not None and lu[1] is not None and F(lu[1]) - F(lu[0]) < F(tolf) and abs(F(lu[0])) > F(tolf)
        for lu in resolved)
    cache = {}

    def n_keep():
        if "k" not in cache:
            try:
                cache["k"] = mirror_warmup(m, tolf)
            except Exception:
                cache["k"] = -1
        return cache["k"]

    a_sampler = None
    for cfg in inst["configs"]:
        ob = dict(base, kind="sample", config=cfg, py_codes=[])
        try:
            s, df = draw(cfg)
        except ValueError as e:
            ob["refused"] = str(e)
            ob["error"] = "ValueError"
            ob["n_keep"] = n_keep()
            ok = (str(e) == REFUSALS[0] and ob["n_keep"] <= 1) or \
                 (str(e) == REFUSALS[1] and ob["n_keep"] == 2 and inhomogeneous)
            if not ok:
                ob["py_codes"].append(8)
            out.append(ob)
            continue
        except Exception as e:
            ob["refused"] = "%s: %s" % (type(e).__name__, str(e)[:200])
            ob["error"] = type(e).__name__
            ob["n_keep"] = n_keep()
            ob["py_codes"].append(8)
            out.append(ob)
            continue
        if s is not None and a_sampler is None and cfg["method"] == "achr":
            a_sampler = s
        want_rows = cfg["n"]
        if cfg["method"] == "optgp" and cfg["processes"] > 1:
            want_rows = -(-cfg["n"] // cfg["processes"]) * cfg["processes"]
        want_rows *= cfg.get("repeat", 1)
        want_cols = rids if cfg["fluxes"] else var_names
        ob["shape"] = [list(df.shape), want_rows, list(df.columns) == want_cols]
        if df.shape[0] != want_rows or list(df.columns) != want_cols:
            ob["py_codes"].append(5)
        ob["rows"] = [[fr(v) for v in row] for row in df.values]
        # validate() of the sampler itself (a second sampler object for the sample() API)
        try:
            vs = s if s is not None else ACHRSampler(m, thinning=1, seed=1)
            ob["codes"] = [str(c) for c in vs.validate(df.values)]
        except Exception as e:
            ob["validate_error"] = "%s: %s" % (type(e).__name__, str(e)[:160])
            ob["py_codes"].append(9)
        # equal seeds give equal frames
        try:
            _, df2 = draw(cfg)
            if df.shape != df2.shape or not np.array_equal(df.values, df2.values):
                ob["py_codes"].append(6)
        except Exception as e:
            ob["py_codes"].append(6)
            ob["repro_error"] = "%s: %s" % (type(e).__name__, str(e)[:160])
        if fingerprint(m) != fp0:
            ob["py_codes"].append(7)
        out.append(ob)

    # ---------------- differential: validate() on constructed rows, step() on scripted draws
    if a_sampler is None:
        try:
            a_sampler = ACHRSampler(m, thinning=2, seed=inst["seed"] % 1000 + 1)
        except Exception:
            a_sampler = None
    if a_sampler is not None and fingerprint(m) == fp0:
        s = a_sampler
        try:
            base_rows = s.sample(3, fluxes=False).values
        except Exception as e:     # the sampler failed on a model it had accepted
            out.append(dict(base, kind="sample", py_codes=[8], refused="%s: %s" % (type(e).__name__, str(e)[:200]),
                            error=type(e).__name__, n_keep=n_keep(),
                            config={"method": "achr", "api": "object", "n": 3, "thinning": int(s.thinning),
                                    "seed": None, "processes": 1, "fluxes": False, "nproj": int(s.nproj)}))
            return out
        for varspace in (False, True):
            rows = []
            for b in base_rows:
                v = b if varspace else b[s.fwd_idx] - b[s.rev_idx]
                rows.append(list(v))
                for _ in range(2):
                    w = list(v)
                    for _ in range(rng.choice([1, 1, 2])):
                        j = rng.randrange(len(w))
                        w[j] = w[j] + rng.choice([1.0, -1.0, 20.0, -20.0, 0.5, 2000.0, -0.25])
                    rows.append(w)
            rows.append([float(rng.randrange(-12, 13)) / 4 for _ in range(len(rows[0]))])
            ob = dict(base, kind="validate", varspace=varspace, rows=[[fr(v) for v in r] for r in rows], py_codes=[])
            try:
                ob["codes"] = [str(c) for c in s.validate(np.array(rows))]
            except Exception as e:
                ob["validate_error"] = "%s: %s" % (type(e).__name__, str(e)[:160])
                ob["py_codes"].append(9)
            out.append(ob)
        nv = len(s.center)
        for t in range(3):
            kind = rng.choice(["warm", "warm", "dyadic", "outside"])
            x = np.array(s.center if rng.random() < 0.5 else base_rows[rng.randrange(len(base_rows))], dtype=float)
            if kind in ("warm", "outside"):
                delta = s.warmup[rng.randrange(s.n_warmup)] - s.center
            else:
                delta = np.array([float(rng.randrange(-8, 9)) / 4 for _ in range(nv)])
            script = []
            if kind == "outside":     # push x out of a bound along a coordinate the direction does not move
                still = [j for j in range(nv) if abs(delta[j]) <= 1e-12]
                if still:
                    x[rng.choice(still)] += rng.choice([-3.0, 2000.5])
                    script = [[rng.randrange(s.n_warmup), str(F(rng.randrange(1, 16), 16))] for _ in range(3)]
            theta = F(rng.randrange(1, 17), 16)
            ob = dict(base, kind="step", sub=kind, x=[fr(v) for v in x], delta=[fr(v) for v in delta],
                      theta=str(theta), script=script, problem=problem_dump(s), py_codes=[])
            retries0 = s.retries
            try:
                with ScriptedRandom(script) as sr:
                    p = step(s, x, delta, float(theta))
                    ob["used"] = sr.used
                ob["result"] = [fr(v) for v in p]
            except IndexError:
                ob["result"] = None           # ran out of scripted draws: the model must run out as well
                ob["used"] = len(script)
            except RuntimeError:
                ob["result"] = None
            except Exception as e:
                ob["step_error"] = "%s: %s" % (type(e).__name__, str(e)[:160])
                ob["py_codes"].append(1)
            s.retries = retries0
            out.append(ob)
    return out


# ------------------------------------------------------------------ Coq terms

def q(s):
    f = F(s)
    return Raw("(%d # %d)" % (f.numerator, f.denominator))


def eb(s):
    return Raw("None") if s is None else Some(q(s))


LETTER = {"v": "Lv", "l": "Ll", "u": "Lu", "e": "Le"}


def code_term(c):
    return [Raw(LETTER[ch]) for ch in c]


def net_term(ob):
    net = ob["net"]
    rids = [r["id"] for r in net["rxns"]]
    S = [[q(r["mets"].get(mid, "0")) for r in net["rxns"]] for mid in net["mets"]]
    extra = [[q(e["coefs"].get(i, "0")) for i in rids] for e in net["extra"]]
    return C("mkNet", S, [q(r["lb"]) for r in net["rxns"]], [q(r["ub"]) for r in net["rxns"]], extra,
             [eb(lu[0]) for lu in ob["resolved_extra"]], [eb(lu[1]) for lu in ob["resolved_extra"]])


def usable(rows):
    return all(v is not None and v != "nan" for r in rows for v in r)


def case_term(ob):
    if ob["kind"] == "sample":
        if "rows" not in ob or "codes" not in ob or not usable(ob["rows"]):
            return None
        return coq(C("SampleCase", q(ob["tolerance"]), net_term(ob), not ob["config"]["fluxes"],
                     [[q(v) for v in r] for r in ob["rows"]], [code_term(c) for c in ob["codes"]]))
    if ob["kind"] == "validate":
        if "codes" not in ob:
            return None
        return coq(C("ValidateCase", q(ob["tolerance"]), net_term(ob), ob["varspace"],
                     [[q(v) for v in r] for r in ob["rows"]], [code_term(c) for c in ob["codes"]]))
    if ob["kind"] == "step":
        if "result" not in ob:
            return None
        p = ob["problem"]
        if not usable([p["b"], p["center"], ob["x"], ob["delta"]] + p["eq"] + p["ineq"] + p["warmup"]):
            return None
        if ob["result"] is not None and not usable([ob["result"]]):
            return None
        prob = C("mkProb", [[q(v) for v in r] for r in p["eq"]], [q(v) for v in p["b"]],
                 [[q(v) for v in r] for r in p["ineq"]], [eb(v) for v in p["ilb"]], [eb(v) for v in p["iub"]],
                 p["fixed"], [eb(v) for v in p["vlb"]], [eb(v) for v in p["vub"]], p["homogeneous"])
        S = C("mkS", prob, q(p["ftol"]), q(p["btol"]), [q(v) for v in p["center"]],
              [[q(v) for v in r] for r in p["warmup"]], p["thinning"], p["nproj"])
        res = Raw("None") if ob["result"] is None else Some([q(v) for v in ob["result"]])
        return coq(C("StepCase", S, [q(v) for v in ob["x"]], [q(v) for v in ob["delta"]], q(ob["theta"]),
                     [(K.nat(k), q(u)) for k, u in ob["script"]], res, Raw("(1 # 1000000000)")))
    return None


HEADER = """From Coq Require Import ZArith List Bool QArith.
From Cobra.Sampling Require Import Step Check.
Import ListNotations.
Open Scope Q_scope."""


def evaluate(instances, jobs=None):
    from concurrent.futures import ProcessPoolExecutor
    jobs = jobs or min(K.JOBS, 8)
    if len(instances) > 1 and jobs > 1:
        # forked children, a few in flight (an executor breaks when GLPK aborts a worker: bflib/sgf.c)
        import cobra.sampling  # noqa: F401
        per = [v if k == "ok" else [] for k, v in K.map_isolated(run_instance, instances, chunk=1, workers=jobs)]
    else:
        per = [run_instance(i) for i in instances]
    obs, owner = [], []
    for k, lst in enumerate(per):
        for o in lst:
            obs.append(o)
            owner.append(k)
    failing, detail = {}, {}
    terms, idx = [], []
    for i, ob in enumerate(obs):
        if ob["kind"] == "skip":
            continue
        if ob.get("py_codes"):
            failing[i] = sorted(set(ob["py_codes"]))
        t = case_term(ob)
        if t is not None:
            terms.append(t)
            idx.append(i)
    res, faults = K.coq_eval_cases(HEADER, terms, "case", "failing", shard=40, timeout=1500)
    for j, lst in res:
        i = idx[j]
        if [code for _, code in lst] == [0]:        # step case skipped as ill-conditioned (near a guard threshold)
            obs[i]["ill_conditioned"] = True
            continue
        failing[i] = sorted(set(failing.get(i, []) + [code for _, code in lst]))
        detail[i] = [[int(a), int(b)] for a, b in lst]
    return obs, owner, failing, detail, faults


def n_inequalities(ob):
    return len([1 for lu in ob["resolved_extra"]
                if lu[0] is None or lu[1] is None or F(lu[1]) - F(lu[0]) >= F(ob["tolerance"])])


def signature(ob, codes):
    sig = {"kind": ob["kind"], "code": min(codes)}
    varspace = False
    if ob["kind"] == "sample":
        varspace = not ob["config"]["fluxes"]
        sig.update(method=ob["config"]["method"], space="variables" if varspace else "flux")
    if ob["kind"] == "validate":
        varspace = ob["varspace"]
        sig.update(space="variables" if varspace else "flux")
    if 9 in codes:
        sig["code"] = 9
    if 8 in codes:
        sig.update(code=8, error=ob.get("error"), two_warmup_rows=ob.get("n_keep") == 2)
    # only validate()'s verdict is at stake (codes 1, 3, 9), on variable-space rows of a model that has
    # inequality constraints
    sig["validate_with_inequalities_in_variable_space"] = bool(
        ob["kind"] in ("sample", "validate") and varspace and n_inequalities(ob) >= 1 and set(codes) <= {1, 3, 9})
    return sig


def shrink_instance(inst, ob, want, kind_key):
    """Drop user constraints and other configurations while the same kind of failure remains."""
    cur = dict(inst)
    if ob["kind"] == "sample":
        cur["configs"] = [ob["config"]]
    else:
        cur["configs"] = []
    cur["resolved_extra"] = ob.get("resolved_extra")
    cur["keep_degenerate"] = True

    def still(c):
        o, _, f, _, faults = evaluate([c], jobs=1)
        if faults:
            return False
        return any(o[i]["kind"] == ob["kind"] and (o[i].get("varspace") == ob.get("varspace")) and want & set(cs)
                   for i, cs in f.items())
    try:
        if not still(cur):
            return inst
        for j in range(len(cur["net"]["extra"]) - 1, -1, -1):
            n2 = dict(cur["net"], extra=cur["net"]["extra"][:j] + cur["net"]["extra"][j + 1:])
            c2 = dict(cur, net=n2, resolved_extra=cur["resolved_extra"][:j] + cur["resolved_extra"][j + 1:])
            if still(c2):
                cur = c2
    except Exception:
        return cur
    return cur


def _long_chain_job(job):
    """A sampler OBJECT asked twice: a short call, then a long one (about 1e4-1e5 steps of the walk).  Rounding errors of
    the recursion are only kept small by the periodic re-projection; every row must satisfy S v = 0 and the bounds with
    an absolute slack of 1e-6 (ten times the tolerance)."""
    import warnings
    import logging
    warnings.simplefilter("ignore")
    logging.disable(logging.CRITICAL)
    import numpy as np
    from cobra import Metabolite, Model, Reaction
    from cobra.sampling import OptGPSampler, ACHRSampler
    m = Model("flux_split")
    a = Metabolite("A")
    rs = [Reaction("V1"), Reaction("V2"), Reaction("V3")]
    for r, ub, c in zip(rs, job["ubs"], (-1, -1, 1)):
        r.bounds = (0, ub)
        r.add_metabolites({a: c})
    m.add_reactions(rs)
    if job["method"] == "achr":
        s = ACHRSampler(m, thinning=job["thinning"], seed=job["seed"])
    else:
        s = OptGPSampler(m, thinning=job["thinning"], processes=job["processes"], seed=job["seed"])
    worst, bad = 0.0, 0
    for n in job["calls"]:
        v = s.sample(n).values
        eq = np.abs(v[:, 2] - v[:, 0] - v[:, 1])
        lo, hi = -v.min(axis=1), (v - np.array(job["ubs"], dtype=float)).max(axis=1)
        viol = np.maximum(eq, np.maximum(lo, hi))
        worst = max(worst, float(viol.max()))
        bad += int((viol > 1e-6).sum())
    return {"worst_violation": worst, "rows_beyond_1e-6": bad, "rows": sum(job["calls"])}


def long_chain_monitor(rep, args):
    jobs = [{"method": "optgp", "processes": 1, "thinning": 100, "seed": 42, "ubs": [6, 8, 10], "calls": [10, 400]},
            {"method": "achr", "processes": 1, "thinning": 100, "seed": 42, "ubs": [6, 8, 10], "calls": [10, 400]}]
    if args.tier != "quick":
        jobs += [{"method": "optgp", "processes": 2, "thinning": 100, "seed": 42, "ubs": [6, 8, 10], "calls": [10, 1000]},
                 {"method": "optgp", "processes": 1, "thinning": 50, "seed": 3, "ubs": [5, 5, 7], "calls": [5, 700, 700, 700]},
                 {"method": "achr", "processes": 1, "thinning": 50, "seed": 3, "ubs": [5, 5, 7], "calls": [5, 700, 700]}]
    out = {"samplers": len(jobs), "rows": 0, "worst_violation": 0.0, "aborted": 0}
    for job, (st, res) in zip(jobs, K.map_isolated(_long_chain_job, jobs, chunk=1, timeout=900)):
        if st != "ok":
            out["aborted"] += 1
            continue
        out["rows"] += res["rows"]
        out["worst_violation"] = max(out["worst_violation"], res["worst_violation"])
        if res["rows_beyond_1e-6"]:
            rep.violation({"monitor": "long-chain", "method": job["method"]},
                          {"failed": "rows of a later sample() call of the same sampler object violate S v = 0 / the bounds "
                                     "by more than 1e-6", "sampler": job, "result": res,
                           "how_to_read": "harness/c16.py: _long_chain_job(sampler) builds the model V3 -> A -> V1 + V2"})
    return out


def main(argv=None):
    args = K.parse_args(argv)
    rep = K.Reporter(PROP, args.tier, args.seed)
    info, broken = K.standard_prelude(PROP, rep, extra_targets=["theories/Sampling/Check.vo"])
    rng = random.Random(args.seed)

    if args.replay:
        instances = [json.load(open(args.replay))["case"]]
    else:
        instances = []
        corpus = os.path.join(K.VERIF, "corpus", PROP)
        if os.path.isdir(corpus):
            for f in sorted(os.listdir(corpus)):
                if f.endswith(".json"):
                    instances.append(json.load(open(os.path.join(corpus, f)))["case"])
        n_inst = 70 if args.tier == "quick" else 1200
        for _ in range(n_inst):
            instances.append({"net": gen_network(rng), "configs": gen_configs(rng, args.tier),
                              "seed": rng.randrange(1 << 30)})

    obs, owner, failing, detail, faults = evaluate(instances)
    if faults:
        print("HARNESS FAULT: model evaluation failed:\n" + "\n".join(faults[:3]))
        if not broken:
            broken.append("model evaluation (coqc on generated cases) failed: " + faults[0][-600:])

    dist = {"kinds": {}, "skipped": {}, "method": {}, "space": {}, "api": {}, "processes": {}, "dim": {},
            "homogeneous_step_cases": 0, "instances_with_user_constraints": 0, "refusals_accepted": 0, "two_row_warmups": 0,
            "samples_rows": 0, "validate_rows": 0, "step_retry_cases": 0, "nproj_forced_reprojection": 0,
            "step_cases_skipped_ill_conditioned": 0}
    n_eval, nontrivial = 0, set()
    for ob in obs:
        if ob["kind"] == "skip":
            dist["skipped"][ob["why"]] = dist["skipped"].get(ob["why"], 0) + 1
            continue
        n_eval += 1
        dist["kinds"][ob["kind"]] = dist["kinds"].get(ob["kind"], 0) + 1
        if ob["kind"] == "sample":
            c = ob["config"]
            for k, v in (("method", c["method"]), ("space", "flux" if c["fluxes"] else "variables"),
                         ("api", c["api"]), ("processes", str(c["processes"])), ("dim", str(ob["dim"]))):
                dist[k][v] = dist[k].get(v, 0) + 1
            if "refused" in ob and 8 not in ob["py_codes"]:
                dist["refusals_accepted"] += 1
            if c["nproj"] is not None:
                dist["nproj_forced_reprojection"] += 1
            if ob["net"]["extra"]:
                dist["instances_with_user_constraints"] += 1
            dist["samples_rows"] += len(ob.get("rows", []))
            if ob.get("rows"):
                nontrivial.add(json.dumps([ob["net"], ob["config"]], sort_keys=True))
        elif ob["kind"] == "validate":
            dist["validate_rows"] += len(ob["rows"])
            nontrivial.add(json.dumps([ob["net"], "validate", ob["varspace"]], sort_keys=True))
        else:
            if ob.get("ill_conditioned"):
                dist["step_cases_skipped_ill_conditioned"] += 1
            if ob.get("used"):
                dist["step_retry_cases"] += 1
            if ob["problem"]["homogeneous"]:
                dist["homogeneous_step_cases"] += 1
            nontrivial.add(json.dumps([ob["net"], "step", ob["x"], ob["delta"], ob["theta"]], sort_keys=True))

    seen = set()
    for i in sorted(failing):
        ob, codes = obs[i], failing[i]
        want = [c for c in codes if c != 1] or [1]
        sig0 = signature(ob, want)
        key = json.dumps(sig0, sort_keys=True)
        if key in seen or len(seen) >= 8:
            continue
        seen.add(key)
        inst = instances[owner[i]]
        small = inst if args.replay else shrink_instance(inst, ob, set(want), key)
        replay = {"case": small, "failed": [CODES[c] for c in want], "codes": codes,
                  "failing_rows_and_codes": detail.get(i),
                  "implementation_observation": {k: v for k, v in ob.items() if k not in ("net", "problem")},
                  "how_to_read": "numbers are exact fractions of the doubles; case = network spec (+ resolved user "
                                 "constraint bounds) + sampler configurations; kind sample/validate/step says which "
                                 "part failed",
                  "theorem": "coq/theories/Properties/C16.v; codes in coq/theories/Sampling/Check.v and harness/c16.py"}
        rep.violation(signature(ob, want), replay)

    if broken and rep.violations == 0:
        rep.violation({"broken": True}, {"broken_obligations": broken,
                      "note": "proof obligation or correspondence machinery no longer checks; no failing input found"},
                      no_input=True)

    live = [o for o in obs if o["kind"] == "sample" and o.get("rows")]
    samples = [{"config": o["config"], "first_row": o["rows"][0], "codes": o.get("codes", [])[:3],
                "reactions": [r["id"] for r in o["net"]["rxns"]]} for o in live[:3]]
    evidence = {
        "level": "proof",
        "coverage": {
            "obligations": info["obligations"], "discharged": info["discharged"],
            "checker_cmd": info["checker_cmd"],
            "trusted_base": K.TRUSTED_COMMON + [
                "numpy RNG, SVD null space, floating-point arithmetic of the random walk and multiprocessing are "
                "NOT modelled: real samples are checked one by one by the proved-sound feasible_tol",
                "the harness's own construction of S, bounds and user-constraint rows from the network spec, and "
                "its FVA-vertex estimate of the polytope dimension (used only to accept documented refusals)",
                "GLPK (warm-up points) is exercised, not verified"],
            "axioms_reported_by_Print_Assumptions": info["axioms"],
            "evaluations": n_eval, "distinct_nontrivial": len(nontrivial),
            "rule": "one evaluation = one sampling run (all rows checked by feasible_tol, validate(), shape, "
                    "reproducibility, model fingerprint), one validate() differential (10+ constructed rows) or one "
                    "step() differential; non-trivial = a sampling that returned rows, or a differential case; "
                    "distinct = distinct (network, configuration / inputs)",
            "samples": samples,
            "traces_validated_against_impl": n_eval - len(failing),
            "disagreements_checked": len(failing),
            "exhaustive": False,
            "instances": len(instances),
            "input_distribution": dist,
            "broken_obligations": broken,
            "long_chain_monitor": long_chain_monitor(rep, args) if not args.replay else {},
        },
        "assumptions": ["partial: IEEE rounding, numpy RNG, SVD null space and re-projection are outside the model; "
                        "the invariant theorems are about exact arithmetic with arbitrary draws",
                        "tolerance = model.tolerance (feasibility_tol = bounds_tol) as documented by the samplers",
                        "degenerate polytopes (dimension <= 1 by the harness's FVA vertices) may be refused with the "
                        "two documented ValueErrors"],
    }
    return rep.finish(evidence)


if __name__ == "__main__":
    sys.exit(main())
