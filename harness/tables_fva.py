"""Tables for C05 (flux_analysis/variability.py): the constants of the FVA formulation the Coq
model hard-wires, re-read from the source on every run (fail-closed):
  * _fva_step: the coefficient dictionaries set before and after the solve
  * flux_variability_analysis: the order of the two passes and the direction each selects (what[:3]),
    which side of fva_old_objective is bounded for "max" / otherwise, the lb/ub of its defining
    constraint, the fraction add_pfba is called with, the bound of flux_sum."""
import ast
from fractions import Fraction

from tables_lib import section, parse, find_def, Abort


def _num(node):
    if isinstance(node, ast.UnaryOp) and isinstance(node.op, ast.USub):
        return -_num(node.operand)
    if isinstance(node, ast.Constant) and isinstance(node.value, (int, float)) and not isinstance(node.value, bool):
        return Fraction(node.value)
    raise Abort("numeric literal expected, got %s" % ast.dump(node))


def _q(f):
    return "(%d # %d)%%Q" % (f.numerator, f.denominator)


def _calls(fn, name):
    out = []
    for node in ast.walk(fn):
        if isinstance(node, ast.Call):
            f = node.func
            n = f.attr if isinstance(f, ast.Attribute) else (f.id if isinstance(f, ast.Name) else None)
            if n == name:
                out.append(node)
    out.sort(key=lambda c: (c.lineno, c.col_offset))
    return out


def _kw(call, name):
    for k in call.keywords:
        if k.arg == name:
            return k.value
    return None


def _is_attr_chain(node, chain):
    for a in reversed(chain[1:]):
        if not (isinstance(node, ast.Attribute) and node.attr == a):
            return False
        node = node.value
    return isinstance(node, ast.Name) and node.id == chain[0]


@section("FvaTables")
def fva_tables(repo):
    tree, _ = parse(repo, "flux_analysis/variability.py")
    step = find_def(tree, "_fva_step")
    sets = _calls(step, "set_linear_coefficients")
    if len(sets) != 2:
        raise Abort("_fva_step: expected two set_linear_coefficients calls, found %d" % len(sets))
    pairs = []
    for c in sets:
        if not (len(c.args) == 1 and isinstance(c.args[0], ast.Dict) and len(c.args[0].keys) == 2):
            raise Abort("_fva_step: set_linear_coefficients argument is not a two-entry dict")
        d = c.args[0]
        names = [k.attr if isinstance(k, ast.Attribute) else None for k in d.keys]
        if names != ["forward_variable", "reverse_variable"]:
            raise Abort("_fva_step: keys are not rxn.forward_variable, rxn.reverse_variable")
        pairs.append((_num(d.values[0]), _num(d.values[1])))
    slim = _calls(step, "slim_optimize")
    if len(slim) != 1 or not (sets[0].lineno < slim[0].lineno < sets[1].lineno):
        raise Abort("_fva_step: the solve is not between the two coefficient updates")
    # the reported value: `value = _model.solver.objective.value` in the non-loopless branch
    ok_value = any(isinstance(n, ast.Assign) and isinstance(n.targets[0], ast.Name) and n.targets[0].id == "value"
                   and _is_attr_chain(n.value, ["_model", "solver", "objective", "value"]) for n in ast.walk(step))
    if not ok_value:
        raise Abort("_fva_step: value is not read from _model.solver.objective.value")

    fva = find_def(tree, "flux_variability_analysis")
    loops = [n for n in ast.walk(fva) if isinstance(n, ast.For) and isinstance(n.target, ast.Name)
             and n.target.id == "what"]
    if len(loops) != 1 or not isinstance(loops[0].iter, (ast.Tuple, ast.List)):
        raise Abort("flux_variability_analysis: `for what in (...)` not found")
    whats = []
    for e in loops[0].iter.elts:
        if not (isinstance(e, ast.Constant) and e.value in ("minimum", "maximum")):
            raise Abort("unexpected pass name")
        whats.append(e.value)
    inits = _calls(loops[0], "_init_worker")
    if len(inits) != 1 or len(inits[0].args) != 3:
        raise Abort("serial _init_worker(model, loopless, sense) call not found")
    sense = inits[0].args[2]
    if not (isinstance(sense, ast.Subscript) and isinstance(sense.value, ast.Name) and sense.value.id == "what"
            and isinstance(sense.slice, ast.Slice) and sense.slice.lower is None
            and isinstance(sense.slice.upper, ast.Constant) and sense.slice.upper.value == 3):
        raise Abort("sense is not what[:3]")
    order = ["true" if w[:3] == "max" else "false" for w in whats]

    # the if on the direction that creates fva_old_objective
    side = {}
    for node in ast.walk(fva):
        if isinstance(node, ast.If) and isinstance(node.test, ast.Compare) and len(node.test.ops) == 1 \
                and isinstance(node.test.ops[0], ast.Eq) and isinstance(node.test.comparators[0], ast.Constant) \
                and node.test.comparators[0].value == "max" \
                and _is_attr_chain(node.test.left, ["model", "solver", "objective", "direction"]):
            for key, body in (("max", node.body), ("min", node.orelse)):
                vs = [c for b in body for c in _calls(b, "Variable")]
                if len(vs) != 1:
                    raise Abort("fva_old_objective: one Variable per branch expected")
                kws = {k.arg for k in vs[0].keywords}
                which = kws & {"lb", "ub"}
                if len(which) != 1:
                    raise Abort("fva_old_objective: exactly one of lb/ub expected")
                w = which.pop()
                val = _kw(vs[0], w)
                if not (isinstance(val, ast.BinOp) and isinstance(val.op, ast.Mult)
                        and isinstance(val.left, ast.Name) and val.left.id == "fraction_of_optimum"
                        and _is_attr_chain(val.right, ["model", "solver", "objective", "value"])):
                    raise Abort("fva_old_objective bound is not fraction_of_optimum * model.solver.objective.value")
                side[key] = "SideLb" if w == "lb" else "SideUb"
    if set(side) != {"max", "min"}:
        raise Abort("direction test for fva_old_objective not found")
    cons = [c for c in _calls(fva, "Constraint")]
    names = {}
    for c in cons:
        nm = _kw(c, "name")
        if isinstance(nm, ast.Constant):
            names[nm.value] = c
    for nm in ("fva_old_objective_constraint", "flux_sum_constraint"):
        if nm not in names:
            raise Abort("constraint %s not found" % nm)
        c = names[nm]
        if _num(_kw(c, "lb")) != 0 or _num(_kw(c, "ub")) != 0:
            raise Abort("%s is not an equality with 0" % nm)
        e = c.args[0]
        if not (isinstance(e, ast.BinOp) and isinstance(e.op, ast.Sub)
                and _is_attr_chain(e.left, ["model", "solver", "objective", "expression"])
                and isinstance(e.right, ast.Name)):
            raise Abort("%s is not objective.expression - variable" % nm)
    # add_pfba(model, fraction_of_optimum=?)
    ap = _calls(fva, "add_pfba")
    if len(ap) != 1:
        raise Abort("add_pfba call not found")
    fr = _kw(ap[0], "fraction_of_optimum")
    if fr is None:
        arg = "(PfbaConst 1)"          # add_pfba's default
    elif isinstance(fr, ast.Name) and fr.id == "fraction_of_optimum":
        arg = "PfbaSameFraction"
    else:
        arg = "(PfbaConst %s)" % _q(_num(fr))
    # flux_sum = Variable("flux_sum", ub=pfba_factor * ub)
    fs = [c for c in _calls(fva, "Variable") if c.args and isinstance(c.args[0], ast.Constant)
          and c.args[0].value == "flux_sum"]
    if len(fs) != 1 or {k.arg for k in fs[0].keywords} != {"ub"}:
        raise Abort("flux_sum variable with only an upper bound not found")
    v = _kw(fs[0], "ub")
    if not (isinstance(v, ast.BinOp) and isinstance(v.op, ast.Mult) and isinstance(v.left, ast.Name)
            and v.left.id == "pfba_factor" and isinstance(v.right, ast.Name) and v.right.id == "ub"):
        raise Abort("flux_sum upper bound is not pfba_factor * ub")
    return ("From Cobra.FVA Require Import Model.\nOpen Scope Q_scope.\n"
            "Definition step_set : Q * Q := (%s, %s).\n"
            "Definition step_reset : Q * Q := (%s, %s).\n"
            "Definition pass_order : list bool := [%s].   (* direction is max? per pass *)\n"
            "Definition old_obj_side_max : side := %s.\n"
            "Definition old_obj_side_min : side := %s.\n"
            "Definition pfba_fraction_arg : pfba_arg := %s.\n") % (
        _q(pairs[0][0]), _q(pairs[0][1]), _q(pairs[1][0]), _q(pairs[1][1]), "; ".join(order),
        side["max"], side["min"], arg)
