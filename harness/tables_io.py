"""Tables for C11 (io/dict.py attribute lists, defaults, loader constants) and C10 (io/sbml.py
identifier codec constants), regenerated from the source on every run (fail-closed)."""
import ast
from tables_lib import section, parse, module_assign, find_def, coq_string, Abort


def _strs(node, what):
    if not isinstance(node, (ast.List, ast.Tuple, ast.Set)):
        raise Abort("%s: list/set literal expected" % what)
    out = []
    for e in node.elts:
        if not (isinstance(e, ast.Constant) and isinstance(e.value, str)):
            raise Abort("%s: string literal expected" % what)
        out.append(e.value)
    return out


def _default_code(node, what):
    """0 None | 1 number zero | 2 empty string | 3 empty dict | 4 empty list"""
    if isinstance(node, ast.Constant):
        if node.value is None:
            return 0
        if isinstance(node.value, (int, float)) and not isinstance(node.value, bool) and node.value == 0:
            return 1
        if node.value == "":
            return 2
    if isinstance(node, ast.Dict) and not node.keys:
        return 3
    if isinstance(node, ast.List) and not node.elts:
        return 4
    raise Abort("%s: unsupported default %s" % (what, ast.dump(node)))


def _defaults(node, what):
    if not isinstance(node, ast.Dict):
        raise Abort("%s: dict literal expected" % what)
    out = []
    for k, v in zip(node.keys, node.values):
        if not (isinstance(k, ast.Constant) and isinstance(k.value, str)):
            raise Abort("%s: string key expected" % what)
        out.append((k.value, _default_code(v, what)))
    return out


def _coq_strs(l):
    return "[" + "; ".join(coq_string(s) for s in l) + "]"


def _coq_defaults(l):
    return "[" + "; ".join("(%s, %d)" % (coq_string(k), c) for k, c in l) + "]"


def _bounds_mode(fn):
    """How _reaction_from_dict applies the two bounds.
    0: each of lower_bound/upper_bound is assigned with setattr(new_reaction, k, float(v)) inside the
       loop over the items (the historical shape);
    1: both are assigned at once through `new_reaction.bounds = (float(...get("lower_bound", ...)),
       float(...get("upper_bound", ...)))` before the loop, and the loop skips the two keys.
    Anything else is not recognised."""
    src = ast.unparse(fn)
    one = "setattr(new_reaction, k, float(v))" in src and "k == 'lower_bound' or k == 'upper_bound'" in src
    both = ("new_reaction.bounds = (float(reaction.get('lower_bound', new_reaction.lower_bound)), "
            "float(reaction.get('upper_bound', new_reaction.upper_bound)))") in src
    if one and not both and ".bounds" not in src:
        return 0, None
    if both and not one and "float(v)" not in src:
        return 1, None
    raise Abort("_reaction_from_dict: the way bounds are applied is not recognised")


def _skip_set(fn):
    """the literal set of keys the loop of _reaction_from_dict ignores"""
    for node in ast.walk(fn):
        if isinstance(node, ast.Compare) and len(node.ops) == 1 and isinstance(node.ops[0], ast.In) \
                and isinstance(node.left, ast.Name) and node.left.id == "k" and isinstance(node.comparators[0], ast.Set):
            return _strs(node.comparators[0], "skip set")
    raise Abort("_reaction_from_dict: `k in {...}` not found")


@section("DictTables")
def dict_tables(repo):
    tree, _ = parse(repo, "io/dict.py")
    out = []
    for coqname, pyname in [("dt_req_rxn", "_REQUIRED_REACTION_ATTRIBUTES"),
                            ("dt_opt_rxn_keys", "_ORDERED_OPTIONAL_REACTION_KEYS"),
                            ("dt_req_met", "_REQUIRED_METABOLITE_ATTRIBUTES"),
                            ("dt_opt_met_keys", "_ORDERED_OPTIONAL_METABOLITE_KEYS"),
                            ("dt_req_gene", "_REQUIRED_GENE_ATTRIBUTES"),
                            ("dt_opt_gene_keys", "_ORDERED_OPTIONAL_GENE_KEYS"),
                            ("dt_opt_model_keys", "_ORDERED_OPTIONAL_MODEL_KEYS")]:
        out.append("Definition %s : list (list Z) := %s." % (coqname, _coq_strs(_strs(module_assign(tree, pyname), pyname))))
    for coqname, pyname in [("dt_opt_rxn_defaults", "_OPTIONAL_REACTION_ATTRIBUTES"),
                            ("dt_opt_met_defaults", "_OPTIONAL_METABOLITE_ATTRIBUTES"),
                            ("dt_opt_gene_defaults", "_OPTIONAL_GENE_ATTRIBUTES"),
                            ("dt_opt_model_defaults", "_OPTIONAL_MODEL_ATTRIBUTES")]:
        out.append("Definition %s : list (list Z * Z) := %s." % (coqname, _coq_defaults(_defaults(module_assign(tree, pyname), pyname))))
    rfd = find_def(tree, "_reaction_from_dict")
    skip = _skip_set(rfd)
    mode, _ = _bounds_mode(rfd)
    if mode == 1:
        for k in ("lower_bound", "upper_bound"):
            if k not in skip:
                raise Abort("bounds set at once but %s is not skipped by the loop" % k)
            skip.remove(k)
    out.append("Definition dt_rxn_skip : list (list Z) := %s." % _coq_strs(sorted(skip)))
    out.append("Definition dt_bounds_at_once : bool := %s." % ("true" if mode == 1 else "false"))
    mfd = find_def(tree, "model_from_dict")
    attrs = None
    for node in ast.walk(mfd):
        if isinstance(node, ast.Compare) and len(node.ops) == 1 and isinstance(node.ops[0], ast.In) \
                and isinstance(node.left, ast.Name) and node.left.id == "k" and isinstance(node.comparators[0], ast.Set):
            attrs = _strs(node.comparators[0], "model attribute set")
    if attrs is None:
        raise Abort("model_from_dict: `k in {...}` not found")
    out.append("Definition dt_model_attrs : list (list Z) := %s." % _coq_strs(sorted(attrs)))
    return "\n".join(out)


# ----------------------------------------------------------------------------- C10: io/sbml.py
_CODEC_BODIES = {
    "_clip": ["return sid[len(prefix):] if sid.startswith(prefix) else sid"],
    "_f_gene": ["sid = sid.replace(SBML_DOT, '.')", "sid = pattern_from_sbml.sub(_number_to_chr, sid)",
                "return _clip(sid, prefix)"],
    "_f_gene_rev": ["sid = pattern_to_sbml.sub(_escape_non_alphanum, sid)", "return prefix + sid.replace('.', SBML_DOT)"],
    "_escape_non_alphanum": ["return '__' + str(ord(nonASCII.group())) + '__'"],
    "_number_to_chr": ["return chr(int(numberStr.group(1)))"],
}
for _k in ("specie", "reaction", "group"):
    _CODEC_BODIES["_f_" + _k] = ["sid = pattern_from_sbml.sub(_number_to_chr, sid)", "return _clip(sid, prefix)"]
    _CODEC_BODIES["_f_" + _k + "_rev"] = ["sid = pattern_to_sbml.sub(_escape_non_alphanum, sid)", "return prefix + sid"]


def _body(fn):
    return [ast.unparse(b) for b in fn.body
            if not (isinstance(b, ast.Expr) and isinstance(b.value, ast.Constant) and isinstance(b.value.value, str))]


def _str_const(tree, name):
    v = module_assign(tree, name)
    if not (isinstance(v, ast.Constant) and isinstance(v.value, str)):
        raise Abort("%s: string literal expected" % name)
    return v.value


def _regex_source(tree, name):
    v = module_assign(tree, name)
    if not (isinstance(v, ast.Call) and ast.unparse(v.func) == "re.compile" and len(v.args) == 1 and not v.keywords
            and isinstance(v.args[0], ast.Constant) and isinstance(v.args[0].value, str)):
        raise Abort("%s: re.compile(<literal>) expected" % name)
    return v.args[0].value


@section("SbmlTables")
def sbml_tables(repo):
    tree, _ = parse(repo, "io/sbml.py")
    out = []
    for name, want in _CODEC_BODIES.items():
        got = _body(find_def(tree, name))
        if got != want:
            raise Abort("%s: body not recognised: %r" % (name, got))
    prefixes = {}
    for kind in ("gene", "specie", "reaction", "group"):
        for suf in ("", "_rev"):
            fn = find_def(tree, "_f_%s%s" % (kind, suf))
            a = fn.args
            if [x.arg for x in a.args] != ["sid", "prefix"] or len(a.defaults) != 1 or \
                    not isinstance(a.defaults[0], ast.Constant) or not isinstance(a.defaults[0].value, str):
                raise Abort("_f_%s%s: signature not recognised" % (kind, suf))
            prefixes.setdefault(kind, set()).add(a.defaults[0].value)
        if len(prefixes[kind]) != 1:
            raise Abort("_f_%s and its inverse use different prefixes" % kind)
        out.append("Definition sb_prefix_%s : list Z := %s." % (kind, coq_string(prefixes[kind].pop())))
    to_sbml = _regex_source(tree, "pattern_to_sbml")
    from_sbml = _regex_source(tree, "pattern_from_sbml")
    # the two regular expressions are modelled by hand (SbmlId.v: is_plain / try_esc); their source text is pinned
    out.append("Definition sb_pattern_to_sbml : list Z := %s." % coq_string(to_sbml))
    out.append("Definition sb_pattern_from_sbml : list Z := %s." % coq_string(from_sbml))
    out.append("Definition sb_dot : list Z := %s." % coq_string(_str_const(tree, "SBML_DOT")))
    for coqname, pyname in [("sb_lower_bound_id", "LOWER_BOUND_ID"), ("sb_upper_bound_id", "UPPER_BOUND_ID"),
                            ("sb_zero_bound_id", "ZERO_BOUND_ID"), ("sb_minus_inf_id", "BOUND_MINUS_INF"),
                            ("sb_plus_inf_id", "BOUND_PLUS_INF")]:
        out.append("Definition %s : list Z := %s." % (coqname, coq_string(_str_const(tree, pyname))))
    # how the reader creates the reaction before assigning the two bounds one after the other
    src = ast.unparse(find_def(tree, "_sbml_to_model"))
    plain = "cobra_reaction = Reaction(rid)" in src
    wide = "cobra_reaction = Reaction(rid, lower_bound=-float('inf'), upper_bound=float('inf'))" in src
    if plain == wide:
        raise Abort("_sbml_to_model: construction of the reaction not recognised")
    if "cobra_reaction.lower_bound = p_lb.getValue()" not in src or "cobra_reaction.upper_bound = p_ub.getValue()" not in src \
            or src.find("cobra_reaction.lower_bound = p_lb.getValue()") > src.find("cobra_reaction.upper_bound = p_ub.getValue()"):
        raise Abort("_sbml_to_model: assignment of bounds not recognised")
    out.append("Definition sb_reader_wide_default : bool := %s." % ("true" if wide else "false"))
    # which lists the reader's sid_map (group members are resolved through it) is built from
    four = "[model.getListOfCompartments(), model.getListOfSpecies(), model.getListOfReactions(), model_groups.getListOfGroups()]"
    old_shape = ("for obj_list in " + four + ":") in src
    new_shape = ("obj_lists = " + four) in src and "if model_fbc:\n            obj_lists.insert(3, model_fbc.getListOfGeneProducts())" in src \
        and "for obj_list in obj_lists:" in src
    if old_shape == new_shape:
        raise Abort("_sbml_to_model: construction of sid_map not recognised")
    out.append("Definition sb_sidmap_genes : bool := %s." % ("true" if new_shape else "false"))
    return "\n".join(out)
