"""Tables for C11 (io/dict.py attribute lists, defaults, loader constants) and C10 (io/sbml.py
identifier codec constants), regenerated from the source on every run (fail-closed)."""
import ast
from tables_lib import section, parse, module_assign, find_def, coq_string, Abort


def _strs(node, what):
    if not isinstance(node, (ast.List, ast.Tuple, ast.Set)):
        raise Abort("%s: list/set literal expected" % what)
    out = []
    for e in node.elts:
        if not (isinstance(e, ast.Constant) and isinstance(e.value, str)):
            raise Abort("%s: string literal expected" % what)
        out.append(e.value)
    return out


def _default_code(node, what):
    """0 None | 1 number zero | 2 empty string | 3 empty dict | 4 empty list"""
    if isinstance(node, ast.Constant):
        if node.value is None:
            return 0
        if isinstance(node.value, (int, float)) and not isinstance(node.value, bool) and node.value == 0:
            return 1
        if node.value == "":
            return 2
    if isinstance(node, ast.Dict) and not node.keys:
        return 3
    if isinstance(node, ast.List) and not node.elts:
        return 4
    raise Abort("%s: unsupported default %s" % (what, ast.dump(node)))


def _defaults(node, what):
    if not isinstance(node, ast.Dict):
        raise Abort("%s: dict literal expected" % what)
    out = []
    for k, v in zip(node.keys, node.values):
        if not (isinstance(k, ast.Constant) and isinstance(k.value, str)):
            raise Abort("%s: string key expected" % what)
        out.append((k.value, _default_code(v, what)))
    return out


def _coq_strs(l):
    return "[" + "; ".join(coq_string(s) for s in l) + "]"


def _coq_defaults(l):
    return "[" + "; ".join("(%s, %d)" % (coq_string(k), c) for k, c in l) + "]"


def _bounds_mode(fn):
    """How _reaction_from_dict applies the two bounds.
    0: each of lower_bound/upper_bound is assigned with setattr(new_reaction, k, float(v)) inside the
       loop over the items (the historical shape);
    1: both are assigned at once through `new_reaction.bounds = (float(...get("lower_bound", ...)),
       float(...get("upper_bound", ...)))` before the loop, and the loop skips the two keys.
    Anything else is not recognised."""
    src = ast.unparse(fn)
    one = "setattr(new_reaction, k, float(v))" in src and "k == 'lower_bound' or k == 'upper_bound'" in src
    both = ("new_reaction.bounds = (float(reaction.get('lower_bound', new_reaction.lower_bound)), "
            "float(reaction.get('upper_bound', new_reaction.upper_bound)))") in src
    if one and not both and ".bounds" not in src:
        return 0, None
    if both and not one and "float(v)" not in src:
        return 1, None
    raise Abort("_reaction_from_dict: the way bounds are applied is not recognised")


def _skip_set(fn):
    """the literal set of keys the loop of _reaction_from_dict ignores"""
    for node in ast.walk(fn):
        if isinstance(node, ast.Compare) and len(node.ops) == 1 and isinstance(node.ops[0], ast.In) \
                and isinstance(node.left, ast.Name) and node.left.id == "k" and isinstance(node.comparators[0], ast.Set):
            return _strs(node.comparators[0], "skip set")
    raise Abort("_reaction_from_dict: `k in {...}` not found")


@section("DictTables")
def dict_tables(repo):
    tree, _ = parse(repo, "io/dict.py")
    out = []
    for coqname, pyname in [("dt_req_rxn", "_REQUIRED_REACTION_ATTRIBUTES"),
                            ("dt_opt_rxn_keys", "_ORDERED_OPTIONAL_REACTION_KEYS"),
                            ("dt_req_met", "_REQUIRED_METABOLITE_ATTRIBUTES"),
                            ("dt_opt_met_keys", "_ORDERED_OPTIONAL_METABOLITE_KEYS"),
                            ("dt_req_gene", "_REQUIRED_GENE_ATTRIBUTES"),
                            ("dt_opt_gene_keys", "_ORDERED_OPTIONAL_GENE_KEYS"),
                            ("dt_opt_model_keys", "_ORDERED_OPTIONAL_MODEL_KEYS")]:
        out.append("Definition %s : list (list Z) := %s." % (coqname, _coq_strs(_strs(module_assign(tree, pyname), pyname))))
    for coqname, pyname in [("dt_opt_rxn_defaults", "_OPTIONAL_REACTION_ATTRIBUTES"),
                            ("dt_opt_met_defaults", "_OPTIONAL_METABOLITE_ATTRIBUTES"),
                            ("dt_opt_gene_defaults", "_OPTIONAL_GENE_ATTRIBUTES"),
                            ("dt_opt_model_defaults", "_OPTIONAL_MODEL_ATTRIBUTES")]:
        out.append("Definition %s : list (list Z * Z) := %s." % (coqname, _coq_defaults(_defaults(module_assign(tree, pyname), pyname))))
    rfd = find_def(tree, "_reaction_from_dict")
    skip = _skip_set(rfd)
    mode, _ = _bounds_mode(rfd)
    if mode == 1:
        for k in ("lower_bound", "upper_bound"):
            if k not in skip:
                raise Abort("bounds set at once but %s is not skipped by the loop" % k)
            skip.remove(k)
    out.append("Definition dt_rxn_skip : list (list Z) := %s." % _coq_strs(sorted(skip)))
    out.append("Definition dt_bounds_at_once : bool := %s." % ("true" if mode == 1 else "false"))
    mfd = find_def(tree, "model_from_dict")
    attrs = None
    for node in ast.walk(mfd):
        if isinstance(node, ast.Compare) and len(node.ops) == 1 and isinstance(node.ops[0], ast.In) \
                and isinstance(node.left, ast.Name) and node.left.id == "k" and isinstance(node.comparators[0], ast.Set):
            attrs = _strs(node.comparators[0], "model attribute set")
    if attrs is None:
        raise Abort("model_from_dict: `k in {...}` not found")
    out.append("Definition dt_model_attrs : list (list Z) := %s." % _coq_strs(sorted(attrs)))
    return "\n".join(out)
