"""Groups-and-identifiers kernel of the C02 / C03 checks (coq/theories/Groups): histories of group edits, removals and
identifier assignments drawn while they are executed on a real cobra.Model, observation of the real object graph after
every step, Coq term printer, shrinker, `run(rep, args, rng)` (C02) and `run_ctx(rep, args, rng)` (C03), which
core.main calls.

Case (JSON-able): {"cfg": {...}, "ops": [[name, args...], ...]}.
cfg: {"nm": 5, "ng": 4, "np": 3, "rx": [{"sto": [[m, coef], ...], "genes": [k, ...]}, ...], "n_in": 3, "mets_in": [m, ...]}
  reactions "R<k>": the first n_in (with their metabolites "M<m>" and a flat `or` rule over genes "g<k>") are added to the
  model, the others are empty and outside; metabolites in mets_in are added explicitly, the remaining unused ones stay
  outside; genes no rule names are Gene objects outside the model; groups "G<k>" start empty and outside the model.
Objects are named by class ("R", "M", "G" gene, "P" group) and number; identifiers by number: k >= 0 is "<prefix>k",
-1 is "", -2 is "a b", -3 is the integer 5.
  ["AddGroups", [p...], via]            via: "list" | "single" (the bare object)
  ["RemoveGroups", [p...], via]         via: "list" | "single" | "id" (the bare identifier string)
  ["AddMembers", p, [[c, n]...], via]   via: "list" | "single"
  ["RemoveMembers", p, [[c, n]...], via]
  ["SetKind", p, k, style]              k: 0 collection, 1 classification, 2 partonomy, 3 "pathway" (refused)
  ["RemoveRxn", r, orphans, via]        via: "obj" | "id" | "method"
  ["RemoveMet", m, destructive, via]    via: "list" | "single" | "method"
  ["RemoveGenes", [id...], remove_reactions, via]   via: "id" | "obj"
  ["SetId", c, n, i]
  ["EscapeIds"]                         cobra.manipulation.modify.escape_ID(model); the Coq op carries _escape_str_id as a table
                                        (identifier number -> identifier number) evaluated by the REAL function at that moment
  ["SetBounds", r, lb, ub]              reaction.bounds = (lb, ub)
  ["Enter"], ["Exit"]
Identifier numbers 100+j are legacy identifiers "<prefix>" + LEG[j] that escape_ID rewrites, 200+j their escaped forms, -4 is
"a_SPACE_b" (the escaped form of -2); cfg may give initial identifiers: "ids": {"R": {"0": 101}, ...}."""
import json
import logging
import os
import sys
import time
import warnings

sys.path.insert(0, os.path.dirname(os.path.abspath(__file__)))
import common as K  # noqa: E402

sys.path.insert(0, os.path.join(K.REPO, "src"))
logging.getLogger("cobra").setLevel(logging.ERROR)

HEADER = """From Coq Require Import ZArith List Bool.
From Cobra.Groups Require Import Model Check.
Import ListNotations.
Open Scope Z_scope."""
CASE_TYPE = "obs * list (op * obs)"
CASE_TYPE_CTX = "obs * list (cop * obs)"
EXTRA_TARGETS = ["theories/Groups/Check.vo"]
CODES = {1: "groups kernel: model and implementation differ",
         3: "groups kernel: group / identifier cross references inconsistent (C02)"}
CODES_CTX = {4: "groups kernel: the model is not what it was when the block was entered (C03)",
             5: "groups kernel: __exit__ raised (C03)",
             6: "groups kernel: group membership is not what it was when the block was entered (C03)"}
CORPUS = os.path.join(K.VERIF, "corpus", "C02", "groups")
CORPUS_CTX = os.path.join(K.VERIF, "corpus", "C03", "groups")
CLS = "RMGP"
PFX = {"R": "R", "M": "M", "G": "g", "P": "G"}
COQ_CLS = {"R": "CR", "M": "CM", "G": "CG", "P": "CP"}
KINDS = ("collection", "classification", "partonomy")
ODD_IDS = {-1: "", -2: "a b", -3: 5}
NEW_IDS = 12        # identifiers 0 .. 11


LEG = ["-b", "1.a", "_glc(e)", "-D[e]", ":c,d", "+x=y", "/z>w"]     # legacy identifier suffixes; the first GLEG parse in a rule
GLEG = 2
ODD_IDS[-4] = "a_SPACE_b"


_ESC = []


def _esc_table():
    if not _ESC:
        from cobra.manipulation.modify import _escape_str_id
        _ESC.extend(_escape_str_id(x) for x in LEG)
    return _ESC


def enc(c, i):
    if i >= 200:
        return PFX[c] + _esc_table()[i - 200]
    if i >= 100:
        return PFX[c] + LEG[i - 100]
    return PFX[c] + str(i) if i >= 0 else ODD_IDS[i]


def dec(c, s):
    if not isinstance(s, str):
        return None
    for k, v in ODD_IDS.items():
        if s == v:
            return k
    p = PFX[c]
    if not s.startswith(p):
        return None
    rest = s[len(p):]
    if rest.isdigit() and str(int(rest)) == rest and int(rest) < 100:
        return int(rest)
    if rest in LEG:
        return 100 + LEG.index(rest)
    esc = _esc_table()
    if rest in esc:
        return 200 + esc.index(rest)
    return None


# Which variant of the code is under test (decided by probes on the real implementation, see probe_variant):
#   nested / orphan / addgene: modelled both ways (Model.v `variant`); as implemented they leave a dangling group member
#   idhook_gene / idhook_group / rxn_id_atomic / rmgroups_str: only the repaired behaviour is modelled; as implemented the
#   triggering operation is only generated as the LAST operation of a history (the known finding ends the comparison)
#   ctx_groups (C03): group membership is put back when a block is left
VARIANT = {"nested": False, "orphan": False, "addgene": False, "idhook_gene": False, "idhook_group": False,
           "rxn_id_atomic": False, "rmgroups_str": False, "ctx_groups": False}


def variant_term():
    b = lambda x: "true" if x else "false"  # noqa
    return "(mkV %s %s %s)" % (b(VARIANT["nested"]), b(VARIANT["orphan"]), b(VARIANT["addgene"]))


def probe_variant():
    import cobra
    from cobra.core.group import Group
    from cobra.core.gene import Gene
    with warnings.catch_warnings():
        warnings.simplefilter("ignore")

        def mk():
            M = cobra.Model("probe")
            r = cobra.Reaction("R0")
            r.add_metabolites({cobra.Metabolite("M0", compartment="c"): -1.0})
            r.gene_reaction_rule = "g0"
            M.add_reactions([r])
            return M, r
        try:
            M, r = mk()
            a, b = Group("G0"), Group("G1")
            b.add_members([a])
            M.add_groups([a, b])
            M.remove_groups([a])
            VARIANT["nested"] = a not in b.members
        except Exception:  # noqa
            VARIANT["nested"] = False
        try:
            M, r = mk()
            g = M.genes.get_by_id("g0")
            a = Group("G0", members=[g])
            M.add_groups([a])
            M.remove_reactions([r], remove_orphans=True)
            VARIANT["orphan"] = g not in a.members
        except Exception:  # noqa
            VARIANT["orphan"] = False
        try:
            M, r = mk()
            g = Gene("g7")
            M.add_groups([Group("G0", members=[g])])
            VARIANT["addgene"] = any(x is g for x in M.genes) and g._model is M
        except Exception:  # noqa
            VARIANT["addgene"] = False
        try:
            M, r = mk()
            g = M.genes.get_by_id("g0")
            g.id = "g5"
            VARIANT["idhook_gene"] = M.genes.has_id("g5") and not M.genes.has_id("g0") and M.genes.get_by_id("g5") is g
        except Exception:  # noqa
            VARIANT["idhook_gene"] = False
        try:
            M, r = mk()
            a = Group("G0")
            M.add_groups([a])
            a.id = "G5"
            VARIANT["idhook_group"] = M.groups.has_id("G5") and not M.groups.has_id("G0") and M.groups.get_by_id("G5") is a
        except Exception:  # noqa
            VARIANT["idhook_group"] = False
        M, r = mk()
        try:
            r.id = ""
            VARIANT["rxn_id_atomic"] = False
        except ValueError:
            VARIANT["rxn_id_atomic"] = r.id == "R0"
        except Exception:  # noqa
            VARIANT["rxn_id_atomic"] = False
        try:
            M, r = mk()
            M.add_groups([Group("G0")])
            M.remove_groups("G0")
            VARIANT["rmgroups_str"] = len(M.groups) == 0
        except Exception:  # noqa
            VARIANT["rmgroups_str"] = False
        try:
            M, r = mk()
            a = Group("G0", members=[r])
            M.add_groups([a])
            with M:
                M.remove_reactions([r])
            VARIANT["ctx_groups"] = r in a.members
        except Exception:  # noqa
            VARIANT["ctx_groups"] = False
    return dict(VARIANT)


# ------------------------------------------------------------------ implementation runner
class Impl:
    def __init__(self, cfg):
        import cobra
        from cobra.core.group import Group
        from cobra.core.gene import Gene
        self.cobra = cobra
        self.cfg = cfg
        with warnings.catch_warnings():
            warnings.simplefilter("ignore")
            M = self.model = cobra.Model("groups")
            ids = cfg.get("ids", {})
            name = lambda c, k: enc(c, int(ids.get(c, {}).get(str(k), k)))  # noqa
            self.mt = [cobra.Metabolite(name("M", k), compartment="c") for k in range(cfg["nm"])]
            self.rx = []
            for k, rc in enumerate(cfg["rx"]):
                r = cobra.Reaction(name("R", k))
                if k < cfg["n_in"]:
                    r.add_metabolites({self.mt[m]: float(c) for m, c in rc["sto"]})
                    if rc["genes"]:
                        r.gene_reaction_rule = " or ".join(name("G", g) for g in rc["genes"])
                self.rx.append(r)
            M.add_reactions(self.rx[:cfg["n_in"]])
            if cfg.get("mets_in"):
                M.add_metabolites([self.mt[m] for m in cfg["mets_in"]])
            self.gn = [M.genes.get_by_id(name("G", k)) if M.genes.has_id(name("G", k)) else Gene(name("G", k))
                       for k in range(cfg["ng"])]
            self.gp = [Group("G%d" % k) for k in range(cfg["np"])]
        self.objs = {"R": self.rx, "M": self.mt, "G": self.gn, "P": self.gp}
        self.num = {c: {id(o): k for k, o in enumerate(self.objs[c])} for c in CLS}

    def lists(self):
        M = self.model
        return {"R": M.reactions, "M": M.metabolites, "G": M.genes, "P": M.groups}

    def ref_of(self, x):
        for c in CLS:
            k = self.num[c].get(id(x))
            if k is not None:
                return [c, k]
        return None

    def obj(self, ref):
        return self.objs[ref[0]][ref[1]]

    def listed(self, c, k):
        o = self.objs[c][k]
        return any(x is o for x in self.lists()[c])

    def apply(self, o):
        n, a = o[0], o[1:]
        M = self.model
        from cobra.manipulation import remove_genes
        from cobra.core.gene import Gene
        with warnings.catch_warnings():
            warnings.simplefilter("ignore")
            try:
                if n == "AddGroups":
                    gs = [self.gp[k] for k in a[0]]
                    M.add_groups(gs[0] if (a[1] == "single" and len(gs) == 1) else gs)
                elif n == "RemoveGroups":
                    gs = [self.gp[k] for k in a[0]]
                    if a[1] == "id" and len(gs) == 1:
                        M.remove_groups(gs[0].id)
                    else:
                        M.remove_groups(gs[0] if (a[1] == "single" and len(gs) == 1) else gs)
                elif n in ("AddMembers", "RemoveMembers"):
                    g = self.gp[a[0]]
                    l = [self.obj(r) for r in a[1]]
                    arg = l[0] if (a[2] == "single" and len(l) == 1) else l
                    (g.add_members if n == "AddMembers" else g.remove_members)(arg)
                elif n == "SetKind":
                    word = KINDS[a[1]] if 0 <= a[1] <= 2 else "pathway"
                    self.gp[a[0]].kind = {"lower": word, "upper": word.upper(), "title": word.title()}[a[2]]
                elif n == "RemoveRxn":
                    r = self.rx[a[0]]
                    if a[2] == "method" and r._model is not None:
                        r.remove_from_model(remove_orphans=bool(a[1]))
                    elif a[2] == "id" and self.listed("R", a[0]):     # (an identifier names whatever the model has under it)
                        M.remove_reactions([r.id], remove_orphans=bool(a[1]))
                    else:
                        M.remove_reactions([r], remove_orphans=bool(a[1]))
                elif n == "RemoveMet":
                    m = self.mt[a[0]]
                    if a[2] == "method" and m._model is not None:
                        m.remove_from_model(destructive=bool(a[1]))
                    elif a[2] == "single":
                        M.remove_metabolites(m, destructive=bool(a[1]))
                    else:
                        M.remove_metabolites([m], destructive=bool(a[1]))
                elif n == "RemoveGenes":
                    ids = [enc("G", i) for i in a[0]]
                    if a[2] == "obj":
                        l = [M.genes.get_by_id(i) if (isinstance(i, str) and M.genes.has_id(i)) else Gene(str(i)) for i in ids]
                    else:
                        l = ids
                    remove_genes(M, l, remove_reactions=bool(a[1]))
                elif n == "SetId":
                    self.objs[a[0]][a[1]].id = enc(a[0], a[2])
                elif n == "EscapeIds":
                    from cobra.manipulation.modify import escape_ID
                    escape_ID(M)
                elif n == "SetBounds":
                    self.rx[a[0]].bounds = (float(a[1]), float(a[2]))
                elif n == "Enter":
                    M.__enter__()
                elif n == "Exit":
                    M.__exit__(None, None, None)
                else:
                    raise RuntimeError("unknown op " + n)
                return "Ok"
            except ValueError:
                return "RaiseValueError"
            except KeyError:
                return "RaiseKeyError"
            except TypeError:
                return "RaiseTypeError"
            except Exception as e:  # noqa
                return "RaiseOther:" + type(e).__name__

    def escape_table(self):
        """_escape_str_id on the identifiers the model has now, as pairs of identifier numbers (only those that change);
        None when an identifier or its escaped form is outside the encoding."""
        from cobra.manipulation.modify import _escape_str_id
        out = {}
        lists = self.lists()
        for c in "MRG":
            for x in lists[c]:
                if not isinstance(x.id, str):
                    return None
                i, e = dec(c, x.id), dec(c, _escape_str_id(x.id))
                if i is None or e is None or out.get(i, e) != e:
                    return None
                if i != e:
                    out[i] = e
        return sorted(out.items())

    # ---------------------------------------------------------------- observation of the real objects
    def observe(self, res="Ok"):
        M = self.model
        shape = True
        self.bad_bounds = False
        lists = self.lists()
        pos = {}
        for c in CLS:
            DL = lists[c]
            if len(DL._dict) != len(DL):
                shape = False
            pos[c] = {}
            for p, o in enumerate(DL):
                if id(o) not in self.num[c] or id(o) in pos[c]:
                    shape = False               # an object the case does not know / the same object twice
                pos[c][id(o)] = p
        com = {c: [] for c in CLS}
        for c in CLS:
            DL = lists[c]
            for k, o in enumerate(self.objs[c]):
                i = dec(c, o.id)
                if i is None:
                    shape, i = False, -9
                p = pos[c].get(id(o), -1)
                lk = True
                if p >= 0:
                    try:
                        lk = bool(isinstance(o.id, str) and DL.get_by_id(o.id) is o and DL.index(o.id) == p and
                                  DL.has_id(o.id) and DL.index(o) == p and (o in DL))
                    except (KeyError, ValueError):
                        lk = False
                mod = getattr(o, "_model", None)
                if mod is not None and mod is not M:
                    shape = False
                assoc = []
                for g in M.get_associated_groups(o):
                    gk = self.num["P"].get(id(g))
                    if gk is None:
                        shape = False
                    else:
                        assoc.append(gk)
                com[c].append({"n": k, "id": i, "mod": mod is M, "pos": p, "lookup": lk, "assoc": sorted(assoc)})
        # the solver, through the names
        var_owner, met_owner = {}, {}
        for k, r in enumerate(self.rx):
            if pos["R"].get(id(r), -1) >= 0 and isinstance(r.id, str):
                var_owner.setdefault(r.id, (k, False))
                var_owner.setdefault(r.reverse_id, (k, True))
        for k, m in enumerate(self.mt):
            if pos["M"].get(id(m), -1) >= 0 and isinstance(m.id, str):
                met_owner.setdefault(m.id, k)
        col = {}
        vars_, cons = [], []
        try:
            M.solver.update()
            for v in M.variables:
                w = var_owner.get(v.name)
                vars_.append([w[0], w[1]] if w else [-1, False])
            for con in M.constraints:
                mk = met_owner.get(con.name, -1)
                cons.append(mk)
                for v, cf in con.get_linear_coefficients(con.variables).items():
                    if cf == 0:
                        continue
                    w = var_owner.get(v.name)
                    if w is None or float(cf) != int(cf):
                        shape = False
                        continue
                    col.setdefault(w, []).append([mk, int(cf)])
            from swiglpk import (glp_get_num_cols, glp_get_col_name, glp_get_num_rows, glp_get_row_name, glp_get_col_type,
                                 glp_get_col_lb, glp_get_col_ub, GLP_FR, GLP_LO, GLP_UP, GLP_DB, GLP_FX)
            P = M.solver.problem
            # the raw GLPK column found under the name reaction.id / reverse_id carries the bounds of that reaction
            colb = {}
            for j in range(1, glp_get_num_cols(P) + 1):
                t = glp_get_col_type(P, j)
                lo = glp_get_col_lb(P, j) if t in (GLP_LO, GLP_DB, GLP_FX) else float("-inf")
                hi = glp_get_col_ub(P, j) if t in (GLP_UP, GLP_DB) else (lo if t == GLP_FX else float("inf"))
                colb[glp_get_col_name(P, j)] = (lo, hi)
            for k, r in enumerate(self.rx):
                if pos["R"].get(id(r), -1) >= 0 and isinstance(r.id, str):
                    lb, ub = r._lower_bound, r._upper_bound
                    if lb > 0:
                        want = ((lb, ub), (0.0, 0.0))
                    elif ub < 0:
                        want = ((0.0, 0.0), (-ub, -lb))
                    else:
                        want = ((0.0, ub), (0.0, -lb))
                    if colb.get(r.id) != want[0] or colb.get(r.reverse_id) != want[1]:
                        shape = False
                        self.bad_bounds = True
            if sorted(glp_get_col_name(P, j) for j in range(1, glp_get_num_cols(P) + 1)) != sorted(v.name for v in M.variables):
                shape = False
            if sorted(glp_get_row_name(P, j) for j in range(1, glp_get_num_rows(P) + 1)) != sorted(c.name for c in M.constraints):
                shape = False
        except Exception:  # noqa
            shape = False
        rx = []
        for k, r in enumerate(self.rx):
            sto, genes = [], []
            for m, cf in r._metabolites.items():
                mk = self.num["M"].get(id(m))
                if mk is None or float(cf) != int(cf):
                    shape = False
                else:
                    sto.append([mk, int(cf)])
            for g in r._genes:
                gk = self.num["G"].get(id(g))
                if gk is None:
                    shape = False
                else:
                    genes.append(gk)
            # the rule names exactly the identifiers of the reaction's genes (kernel II's clause, kept as a shape flag)
            if pos["R"].get(id(r), -1) >= 0:
                try:
                    if {g.id for g in r._genes} != set(r.gpr.genes):
                        shape = False
                except Exception:  # noqa
                    shape = False
            rx.append({"c": com["R"][k], "sto": sorted(sto), "genes": sorted(genes),
                       "col": sorted(col.get((k, False), [])), "colr": sorted(col.get((k, True), []))})
        mt = []
        for k, m in enumerate(self.mt):
            back = []
            for r in m._reaction:
                rk = self.num["R"].get(id(r))
                if rk is None:
                    shape = False
                else:
                    back.append(rk)
            mt.append({"c": com["M"][k], "back": sorted(back)})
        gn = []
        for k, g in enumerate(self.gn):
            back = []
            for r in g._reaction:
                rk = self.num["R"].get(id(r))
                if rk is None:
                    shape = False
                else:
                    back.append(rk)
            gn.append({"c": com["G"][k], "back": sorted(back)})
        gp = []
        for k, g in enumerate(self.gp):
            mem = []
            for x in g.members:
                rf = self.ref_of(x)
                if rf is None:
                    shape = False
                else:
                    mem.append(rf)
            if len(g) != len(g._members):
                shape = False
            kd = KINDS.index(g.kind) if g.kind in KINDS else -1
            gp.append({"c": com["P"][k], "members": sorted(mem), "kind": kd})
        return {"rx": rx, "mt": mt, "gn": gn, "gp": gp, "vars": vars_, "cons": cons, "shape": bool(shape), "res": res,
                "bounds_ok": not self.bad_bounds}


# ------------------------------------------------------------------ Coq terms
def bt(x):
    return "true" if x else "false"


def z(n):
    return "(%d)" % n if n < 0 else "%d" % n


def zl(l):
    return "[" + "; ".join(z(x) for x in l) + "]"


def pl(l):
    return "[" + "; ".join("(%s, %s)" % (z(a), z(b)) for a, b in l) + "]"


def refs_term(l):
    return "[" + "; ".join("(%s, %d)" % (COQ_CLS[c], k) for c, k in l) + "]"


def com_term(c):
    return "(mkCm %d %s %s %s %s %s)" % (c["n"], z(c["id"]), bt(c["mod"]), z(c["pos"]), bt(c["lookup"]), zl(c["assoc"]))


def res_name(r):
    return r if r in ("Ok", "RaiseValueError", "RaiseKeyError", "RaiseTypeError") else "RaiseOther"


def obs_term(o):
    rx = "[" + "; ".join("mkR %s %s %s %s %s" % (com_term(r["c"]), pl(r["sto"]), zl(r["genes"]), pl(r["col"]), pl(r["colr"]))
                         for r in o["rx"]) + "]"
    mt = "[" + "; ".join("mkM %s %s" % (com_term(m["c"]), zl(m["back"])) for m in o["mt"]) + "]"
    gn = "[" + "; ".join("mkG %s %s" % (com_term(g["c"]), zl(g["back"])) for g in o["gn"]) + "]"
    gp = "[" + "; ".join("mkP %s %s %s" % (com_term(g["c"]), refs_term(g["members"]), z(g["kind"])) for g in o["gp"]) + "]"
    vs = "[" + "; ".join("(%s, %s)" % (z(a), bt(b)) for a, b in o["vars"]) + "]"
    return "(mkO %s %s %s %s %s %s %s %s)" % (rx, mt, gn, gp, vs, zl(o["cons"]), bt(o["shape"]), res_name(o["res"]))


def op_term(o):
    n, a = o[0], o[1:]
    if n in ("AddGroups", "RemoveGroups"):
        return "(%s %s)" % (n, zl(a[0]))
    if n in ("AddMembers", "RemoveMembers"):
        return "(%s %d %s)" % (n, a[0], refs_term(a[1]))
    if n == "SetKind":
        return "(SetKind %d %d)" % (a[0], a[1])
    if n == "RemoveRxn":
        return "(RemoveRxn %d %s)" % (a[0], bt(a[1]))
    if n == "RemoveMet":
        return "(RemoveMet %d %s)" % (a[0], bt(a[1]))
    if n == "RemoveGenes":
        return "(RemoveGenes %s %s)" % (zl(a[0]), bt(a[1]))
    if n == "SetId":
        return "(SetId %s %d %s)" % (COQ_CLS[a[0]], a[1], z(a[2]))
    if n == "EscapeIds":
        return "(EscapeIds %s)" % pl(a[0])          # a[0]: the table, filled in by run_case
    if n == "SetBounds":
        return "(SetBounds %d %s %s)" % (a[0], z(a[1]), z(a[2]))
    raise ValueError(n)


def cop_term(o):
    return o[0] if o[0] in ("Enter", "Exit") else "(Do %s)" % op_term(o)


# ------------------------------------------------------------------ the domain of the model (see Groups/Proofs.v op_ok)
class InvalidCase(Exception):
    pass


def final_only(im, o):
    """With the unrepaired code this operation runs into a known finding that only the repaired behaviour is modelled
    for: it may only be the last operation of a history."""
    n = o[0]
    if n == "SetId":
        c, k, i = o[1], o[2], o[3]
        ob = im.objs[c][k]
        if getattr(ob, "_model", None) is None or enc(c, i) == ob.id or i == -3:
            return False
        if c == "G":
            return not VARIANT["idhook_gene"]
        if c == "P":
            return not VARIANT["idhook_group"]
        if c == "R":
            return i in (-1, -2) and not VARIANT["rxn_id_atomic"] and not im.model.reactions.has_id(enc(c, i))
        return False
    if n == "RemoveGroups" and o[2] == "id":
        return not VARIANT["rmgroups_str"]
    return False


def trigger(im, o):
    """With the code under test this operation runs into one of the known findings (final_only ones included)."""
    M = im.model
    try:
        if final_only(im, o):
            return True
        if o[0] == "RemoveGroups" and not VARIANT["nested"]:
            return any(im.listed("P", k) and M.get_associated_groups(im.gp[k]) for k in o[1])
        if o[0] == "RemoveRxn" and o[2] and not VARIANT["orphan"] and im.listed("R", o[1]):
            r = im.rx[o[1]]
            return any(len(g._reaction) == 1 and r in g._reaction and M.get_associated_groups(g) for g in r._genes)
        if o[0] == "AddGroups":
            return addable(im, o[1]) == "finding"
    except Exception:  # noqa
        pass
    return False


def addable(im, gl):
    """May these groups be given to add_groups?  True | False (outside the model's domain) | "finding" (a gene member
    outside the model with the unrepaired add_groups)."""
    lists = im.lists()
    ids = {c: {o.id for o in lists[c]} for c in CLS}
    inm = {c: {id(o) for o in lists[c]} for c in CLS}
    pruned = [g for g in gl if im.gp[g].id not in ids["P"]]
    if len({im.gp[g].id for g in pruned}) != len(pruned):
        return True                                     # DictList refuses them (ValueError), nothing happens
    out = True
    newc = {c: 0 for c in CLS}
    for g in pruned:
        for x in im.gp[g].members:
            rf = im.ref_of(x)
            if rf is None:
                return False
            c = rf[0]
            if id(x) in inm[c]:
                continue
            if c == "P":
                return False
            if c == "G" and not VARIANT["addgene"]:
                out = "finding"
                continue
            i = dec(c, x.id)
            if i is None or i < 0 or x.id in ids[c]:
                return False
            if c == "R" and (x._genes or any(id(m) not in inm["M"] for m in x._metabolites)):
                return False
            newc[c] += 1
            if newc[c] > 1:
                return False                            # set iteration order would decide the DictList order
            ids[c].add(x.id)
            inm[c].add(id(x))
        ids["P"].add(im.gp[g].id)
        inm["P"].add(id(im.gp[g]))
    return out


def precond(im, o, last=True, in_block=False):
    """The generator's domain, also enforced on replayed / shrunk cases."""
    n = o[0]
    cfg = im.cfg
    size = {"R": len(cfg["rx"]), "M": cfg["nm"], "G": cfg["ng"], "P": cfg["np"]}
    try:
        if n in ("Enter", "Exit"):
            return True
        if in_block and n not in ("RemoveRxn", "RemoveMet", "RemoveGenes", "SetBounds"):
            return False                                # not documented as reverted by a context
        if n in ("AddGroups", "RemoveGroups"):
            if not o[1] or any(not 0 <= k < size["P"] for k in o[1]):
                return False
            if n == "AddGroups" and addable(im, o[1]) is False:
                return False
            if n == "RemoveGroups" and o[2] == "id" and (len(o[1]) != 1 or not isinstance(im.gp[o[1][0]].id, str) or
                                                         (not im.listed("P", o[1][0]) and im.gp[o[1][0]].id in im.model.groups)):
                return False            # (an identifier names whatever the model has under it, not this object)
        elif n in ("AddMembers", "RemoveMembers"):
            if not 0 <= o[1] < size["P"] or not o[2] or any(not 0 <= k < size[c] for c, k in o[2]):
                return False
            if n == "AddMembers":
                for c, k in o[2]:
                    if c == "P" and not im.listed("P", k):
                        return False
                    if im.listed("P", o[1]) and not im.listed(c, k):
                        return False
        elif n == "SetKind":
            if not 0 <= o[1] < size["P"] or not 0 <= o[2] <= 3:
                return False
        elif n == "RemoveRxn":
            if not 0 <= o[1] < size["R"]:
                return False
        elif n == "RemoveMet":
            if not 0 <= o[1] < size["M"]:
                return False
            if not im.listed("M", o[1]) and im.mt[o[1]].id in im.model.metabolites:
                return False            # another object of the model has this identifier (kernel I: one object per id)
        elif n == "RemoveGenes":
            if not o[1] or any(i < 0 for i in o[1]):
                return False
        elif n == "EscapeIds":
            t = im.escape_table()
            if t is None:
                return False
            if not VARIANT["idhook_gene"]:
                # the unrepaired Gene.id accepts an identifier another gene has (known finding); only the repaired
                # setter is modelled: no escape_ID that would merge two gene identifiers
                gids = [g.id for g in im.model.genes]
                d = dict(t)
                new = [d.get(dec("G", i), dec("G", i)) for i in gids]
                if len(set(new)) != len(new):
                    return False
        elif n == "SetBounds":
            if not 0 <= o[1] < size["R"] or not (-50 <= o[2] <= 50 and -50 <= o[3] <= 50):
                return False
            if in_block and not im.listed("R", o[1]):
                return False            # (an object outside the model does not see the model's context: kernel I's scope rule)
        elif n == "SetId":
            if not 0 <= o[2] < size[o[1]] or not -4 <= o[3] < 200 + len(LEG):
                return False
            if o[1] == "G" and 100 <= o[3] < 200 and o[3] - 100 >= GLEG:
                return False            # not parseable inside a rule
            ob = im.objs[o[1]][o[2]]
            if o[1] in "GP" and getattr(ob, "_model", None) is not None and not im.listed(o[1], o[2]) \
                    and not VARIANT["idhook_gene" if o[1] == "G" else "idhook_group"]:
                return False            # (a gene removed as an orphan keeps _model) only the repaired setter is modelled
        else:
            return False
        if not last and final_only(im, o):
            return False
        return True
    except Exception:  # noqa
        return False


def run_case(case, ctx=False):
    im = Impl(case["cfg"])
    obs0 = im.observe()
    steps, depth, filled = [], 0, []
    n = len(case["ops"])
    for j, o in enumerate(case["ops"]):
        if o[0] == "Exit" and depth == 0:
            raise InvalidCase("exit without a block")
        if (o[0] in ("Enter", "Exit") and not ctx) or not precond(im, o, last=(j == n - 1), in_block=depth > 0):
            raise InvalidCase(str(o))
        if o[0] == "EscapeIds":
            filled.append(["EscapeIds", [list(x) for x in im.escape_table()]])
        else:
            filled.append(o)
        res = im.apply(o)
        depth += 1 if o[0] == "Enter" else (-1 if o[0] == "Exit" else 0)
        steps.append(im.observe(res))
    if depth != 0:
        raise InvalidCase("open block")
    case["_filled"] = filled            # the ops with run-time arguments filled in (for the term printer)
    return obs0, steps


# ------------------------------------------------------------------ generator
def gen_cfg(rng, legacy_p=0.4):
    nm = rng.choice([3, 4, 4, 5, 6])
    n_in = rng.choice([2, 3, 3, 4, 5])
    n_out = rng.choice([0, 1, 1, 2])
    ng = rng.choice([3, 4, 4, 5])
    np_ = rng.choice([2, 3, 3, 4])
    pool_g = list(range(ng - rng.choice([0, 1, 1])))        # the last gene may stay outside the model
    rx = []
    for k in range(n_in):
        ms = rng.sample(range(nm), rng.choice([1, 2, 2, 3]) if nm >= 3 else 1)
        sto = [[m, rng.choice([-2, -1, -1, 1, 1, 2, 3])] for m in sorted(ms)]
        genes = sorted(rng.sample(pool_g, rng.choice([1, 1, 2]))) if (pool_g and rng.random() < 0.6) else []
        rx.append({"sto": sto, "genes": genes})
    for k in range(n_out):
        rx.append({"sto": [], "genes": []})
    used = {m for r in rx for m, _ in r["sto"]}
    mets_in = [m for m in range(nm) if m not in used and rng.random() < 0.5]
    cfg = {"nm": nm, "ng": ng, "np": np_, "rx": rx, "n_in": n_in, "mets_in": mets_in}
    if rng.random() < legacy_p:
        # legacy identifiers that escape_ID rewrites ("R_glc(e)", "M-D[e]", "g1.a", ...), now and then one that already is
        # the escaped form of another
        ids = {}
        for c, size, nleg in (("R", len(rx), len(LEG)), ("M", nm, len(LEG)), ("G", ng, GLEG)):
            pool = [100 + j for j in range(nleg)] + ([200 + rng.randrange(nleg)] if rng.random() < 0.3 else [])
            for k in rng.sample(range(size), min(size, rng.choice([0, 1, 1, 2]))):
                code = rng.choice(pool)
                if code not in ids.get(c, {}).values():
                    ids.setdefault(c, {})[str(k)] = code
        if ids:
            cfg["ids"] = ids
    return cfg


def gen_history(rng, length, odd_p=0.15, ctx=False, weights=None, avoid_findings=False):
    cfg = gen_cfg(rng, legacy_p=0.75 if avoid_findings else 0.4)
    im = Impl(cfg)
    M = im.model
    ops = []
    size = {"R": len(cfg["rx"]), "M": cfg["nm"], "G": cfg["ng"], "P": cfg["np"]}
    depth, blocks = 0, 0
    state = {"stop": False}

    def listed(c):
        return [k for k in range(size[c]) if im.listed(c, k)]

    def unlisted(c):
        return [k for k in range(size[c]) if not im.listed(c, k)]

    def do(o):
        fin = final_only(im, o)
        if (fin and (ctx or depth > 0)) or (avoid_findings and trigger(im, o)):
            return False
        if not precond(im, o, last=True, in_block=depth > 0):
            return False
        im.apply(o)
        ops.append(o)
        if fin:
            state["stop"] = True
        return True

    def some_refs(cnt, want_listed=True, allow_out=False):
        out = []
        seen_out = set()
        for _ in range(cnt):
            c = rng.choice("RRRMMMGGP")
            pool = listed(c) if want_listed else list(range(size[c]))
            if allow_out and rng.random() < 0.35 and c != "P" and c not in seen_out and unlisted(c):
                pool = unlisted(c)
                seen_out.add(c)
            elif not want_listed and c == "P":
                pool = listed("P")
            if pool:
                rf = [c, rng.choice(pool)]
                if rf not in out:
                    out.append(rf)
        return out

    # most histories begin by filling one or two groups and adding them (ordinary, recorded operations)
    if rng.random() < (0.3 if avoid_findings else 0.85):
        for p in rng.sample(range(size["P"]), min(size["P"], rng.choice([1, 2, 2, 3]))):
            l = some_refs(rng.choice([1, 2, 3, 4]), want_listed=True, allow_out=rng.random() < 0.3)
            if l:
                do(["AddMembers", p, l, "list"])
            if rng.random() < 0.85:
                do(["AddGroups", [p], "list"])
    W = {"AddGroups": 10, "RemoveGroups": 8, "AddMembers": 14, "RemoveMembers": 6, "SetKind": 3, "RemoveRxn": 10,
         "RemoveMet": 8, "RemoveGenes": 6, "SetId": 26, "EscapeIds": 4, "SetBounds": 5}
    W.update(weights or {})
    if ctx:
        W.update({"RemoveRxn": 16, "RemoveMet": 12, "RemoveGenes": 9, "SetId": 12})
    names = [n for n, w in W.items() for _ in range(w)]
    inblock = ["RemoveRxn"] * 5 + ["RemoveMet"] * 4 + ["RemoveGenes"] * 3 + ["SetBounds"]
    guard = 0
    while len(ops) < length and guard < length * 25 and not state["stop"]:
        guard += 1
        if ctx:
            x = rng.random()
            if x < 0.18 and depth < 2 and blocks < 3:
                do(["Enter"])
                depth += 1
                blocks += 1
                continue
            if x < 0.30 and depth > 0 and ops[-1][0] != "Enter":
                do(["Exit"])
                depth -= 1
                continue
        n = rng.choice(inblock if depth > 0 else names)
        odd = rng.random() < odd_p
        lp, up = listed("P"), unlisted("P")
        o = None
        if n == "AddGroups":
            if odd and rng.random() < 0.5:
                # a group whose identifier the model has (another object), the same group twice, a listed group again
                x = rng.random()
                if x < 0.4 and lp:
                    o = ["AddGroups", [rng.choice(lp)], "list"]
                elif x < 0.7 and up:
                    g = rng.choice(up)
                    o = ["AddGroups", [g, g], "list"]
                elif len(up) >= 2:
                    a, b = rng.sample(up, 2)
                    if im.gp[a].id == im.gp[b].id:
                        o = ["AddGroups", [a, b], "list"]
            elif up:
                l = rng.sample(up, 2 if (len(up) >= 2 and rng.random() < 0.25) else 1)
                o = ["AddGroups", l, "single" if (len(l) == 1 and rng.random() < 0.2) else "list"]
        elif n == "RemoveGroups":
            pool = lp
            # prefer a group that is itself a member of a group (nested)
            nested = [k for k in lp if M.get_associated_groups(im.gp[k])]
            if nested and rng.random() < 0.5:
                pool = nested
            if odd or not pool:
                pool = list(range(size["P"]))           # not in the model: ignored; removing twice
            l = [rng.choice(pool)]
            if rng.random() < 0.2:
                l.append(rng.choice(list(range(size["P"]))))
            via = "list"
            if len(l) == 1:
                via = rng.choice(["list", "list", "single", "id" if (odd or VARIANT["rmgroups_str"]) else "list"])
            o = ["RemoveGroups", l, via]
        elif n == "AddMembers":
            p = rng.choice(lp) if (lp and rng.random() < 0.55) else rng.randrange(size["P"])
            if im.listed("P", p):
                l = some_refs(rng.choice([1, 1, 2, 3]), want_listed=True)
                if odd and rng.random() < 0.3:
                    l.append(["P", p])                  # a group as its own member
            else:
                l = some_refs(rng.choice([1, 2, 3]), want_listed=True, allow_out=rng.random() < 0.5)
            if l:
                o = ["AddMembers", p, l, "single" if (len(l) == 1 and rng.random() < 0.25) else "list"]
        elif n == "RemoveMembers":
            p = rng.randrange(size["P"])
            mem = sorted(im.ref_of(x) for x in im.gp[p].members if im.ref_of(x))
            l = []
            if mem and not odd:
                l = rng.sample(mem, min(len(mem), rng.choice([1, 1, 2])))
            else:
                l = some_refs(rng.choice([1, 2]), want_listed=False)
            if l:
                o = ["RemoveMembers", p, l, "single" if (len(l) == 1 and rng.random() < 0.25) else "list"]
        elif n == "SetKind":
            o = ["SetKind", rng.randrange(size["P"]), 3 if odd else rng.randrange(3), rng.choice(["lower", "lower", "upper", "title"])]
        elif n == "RemoveRxn":
            pool = listed("R")
            grouped = [k for k in pool if M.get_associated_groups(im.rx[k])]
            if grouped and rng.random() < 0.6:
                pool = grouped
            if (odd and depth == 0) or not pool:
                pool = list(range(size["R"]))
            if pool:
                o = ["RemoveRxn", rng.choice(pool), rng.random() < 0.45, rng.choice(["obj", "obj", "id", "method"])]
        elif n == "RemoveMet":
            pool = listed("M")
            grouped = [k for k in pool if M.get_associated_groups(im.mt[k])]
            if grouped and rng.random() < 0.6:
                pool = grouped
            if (odd and depth == 0) or not pool:
                pool = list(range(size["M"]))
            if pool:
                o = ["RemoveMet", rng.choice(pool), rng.random() < 0.4, rng.choice(["list", "list", "single", "method"])]
        elif n == "RemoveGenes":
            mg = [dec("G", g.id) for g in M.genes if dec("G", g.id) is not None and dec("G", g.id) >= 0]
            if not mg and not odd:
                continue
            l = [rng.choice(mg) for _ in range(rng.choice([1, 1, 2]))] if mg else []
            if odd or not l:
                l.append(rng.randrange(NEW_IDS))         # possibly unknown: KeyError, nothing changes
            o = ["RemoveGenes", l, rng.random() < 0.5, rng.choice(["id", "id", "obj"])]
        elif n == "SetId":
            c = rng.choice("RRRRMMMMGGPPP")
            pool = listed(c) if (listed(c) and rng.random() < 0.75) else list(range(size[c]))
            k = rng.choice(pool)
            cur = {dec(c, ob.id) for ob in im.lists()[c]}
            fresh = [i for i in range(NEW_IDS) if i not in cur]
            if rng.random() < 0.2:
                nleg = GLEG if c == "G" else len(LEG)     # a legacy identifier, or the escaped form of one
                fresh = [i for i in [100 + j for j in range(nleg)] + [200 + j for j in range(nleg)] if i not in cur] or fresh
            if odd:
                x = rng.random()
                if x < 0.35 and cur - {None}:
                    i = rng.choice(sorted(cur - {None}))  # an identifier the DictList has (possibly the object's own)
                elif x < 0.5:
                    i = dec(c, im.objs[c][k].id)          # the same identifier
                    i = 0 if i is None else i
                elif x < 0.7:
                    i = -1
                elif x < 0.85:
                    i = -2
                else:
                    i = -3
            elif fresh:
                i = rng.choice(fresh)
            else:
                continue
            o = ["SetId", c, k, i]
        elif n == "EscapeIds":
            o = ["EscapeIds"]
        elif n == "SetBounds":
            pool = listed("R") if (listed("R") and rng.random() < 0.85) else list(range(size["R"]))
            lb = rng.choice([-10, -5, 0, 0, 2])
            ub = rng.choice([0, 3, 7, 10]) if not odd else rng.choice([-20, 1])
            if lb > ub and not odd:
                lb, ub = ub, lb
            o = ["SetBounds", rng.choice(pool), lb, ub]
        if o is None:
            continue
        if trigger(im, o) and (avoid_findings or rng.random() < 0.8):
            continue                                    # known findings of the code under test: seldom (C01 part: never)
        do(o)
    while depth > 0:
        do(["Exit"])
        depth -= 1
    return {"cfg": cfg, "ops": ops}


# ------------------------------------------------------------------ evaluation, shrinking
def evaluate(cases, ctx=False):
    terms, impl, idx = [], [], []
    for i, c in enumerate(cases):
        try:
            obs0, steps = run_case(c, ctx=ctx)
        except InvalidCase:
            impl.append(None)
            continue
        pr = cop_term if ctx else op_term
        terms.append("(%s, [%s])" % (obs_term(obs0), "; ".join("(%s, %s)" % (pr(o), obs_term(s))
                                                               for o, s in zip(c.pop("_filled"), steps))))
        impl.append((obs0, steps))
        idx.append(i)
    fn = "%s %s" % ("failing_ctx" if ctx else "failing", variant_term())
    res, faults = K.coq_eval_cases(HEADER, terms, CASE_TYPE_CTX if ctx else CASE_TYPE, fn, shard=20, timeout=900)
    return {idx[i]: lst for i, lst in res}, faults, impl


def simpler(case, ctx=False):
    """Candidates: one op dropped (a block's brackets together); one element of a list argument dropped."""
    ops = case["ops"]
    n = len(ops)
    out = []
    for i in range(n - 1):
        if ops[i][0] not in ("Enter", "Exit"):
            out.append(ops[:i] + ops[i + 1:])
    for i, o in enumerate(ops):
        if o[0] == "Enter":
            d = 0
            for j in range(i, n):
                d += 1 if ops[j][0] == "Enter" else (-1 if ops[j][0] == "Exit" else 0)
                if d == 0:
                    out.append([x for t, x in enumerate(ops) if t not in (i, j)])
                    break
        if o[0] in ("AddGroups", "RemoveGroups", "RemoveGenes") and len(o[1]) > 1:
            for j in range(len(o[1])):
                out.append(ops[:i] + [[o[0], o[1][:j] + o[1][j + 1:]] + o[2:]] + ops[i + 1:])
        if o[0] in ("AddMembers", "RemoveMembers") and len(o[2]) > 1:
            for j in range(len(o[2])):
                out.append(ops[:i] + [[o[0], o[1], o[2][:j] + o[2][j + 1:]] + o[3:]] + ops[i + 1:])
    return [{"cfg": case["cfg"], "ops": x} for x in out]


def cut_after(case, step):
    """The history up to `step` (1-based), open blocks closed."""
    ops = case["ops"][:max(step, 1)]
    d = sum(1 if o[0] == "Enter" else (-1 if o[0] == "Exit" else 0) for o in ops)
    return {"cfg": case["cfg"], "ops": ops + [["Exit"]] * max(d, 0)}


def kind_of(sig):
    return (sig["op"], tuple(sig["codes_at_step"]), tuple(sig["symptoms"]), sig.get("res"), sig.get("id_setter_of"))


def shrink(case, want, ctx=False, rounds=30, own=None, kind=None):
    """Greedy shrinking; a candidate is only accepted if its first failing step fails in the same way (same operation,
    codes, symptoms and result) - otherwise shrinking could drift into one of the known findings."""
    own = own or want

    def fails(c, lst, ob):
        mine = [(s_, c_) for s_, c_ in lst if c_ in own]
        if ob is None or not any(c_ in want for _, c_ in mine):
            return None
        first = min(s_ for s_, _ in mine)
        cut = cut_after(c, first)
        if kind is not None and kind_of(make_sig(c, ob, mine, ctx)) != kind:
            return None
        return cut
    cur = case
    r, f, im = evaluate([cur], ctx)
    if f or 0 not in r:
        return cur
    got = fails(cur, r[0], im[0])
    if got is None:
        return cur
    cur = got
    for _ in range(rounds):
        cands = simpler(cur, ctx)
        if not cands:
            break
        try:
            r, f, im = evaluate(cands, ctx)
        except Exception:  # noqa
            break
        if f:
            break
        got = None
        for i in sorted(r):
            got = fails(cands[i], r[i], im[i])
            if got is not None:
                break
        if got is None or got == cur:
            break
        cur = got
    return cur


def symptoms(ob):
    """What is wrong in an observation, in words (for signatures and replay files)."""
    out = set()
    listed = {c: set() for c in CLS}
    key = {"R": "rx", "M": "mt", "G": "gn", "P": "gp"}
    for c in CLS:
        ids = []
        for x in ob[key[c]]:
            cm = x["c"]
            if cm["pos"] >= 0:
                listed[c].add(cm["n"])
                ids.append(cm["id"])
                if not cm["lookup"]:
                    out.add("lookup:" + c)
                if not cm["mod"]:
                    out.add("model-pointer:" + c)
        if len(ids) != len(set(ids)):
            out.add("duplicate-id:" + c)
    for g in ob["gp"]:
        if g["c"]["pos"] >= 0:
            for c, k in g["members"]:
                if k not in listed[c]:
                    out.add("dangling-member:" + c)
    want_v = sorted([k, rev] for k in listed["R"] for rev in (False, True))
    if sorted(ob["vars"]) != want_v:
        out.add("variable-names")
    if sorted(ob["cons"]) != sorted(listed["M"]):
        out.add("constraint-names")
    for r in ob["rx"]:
        if r["c"]["pos"] >= 0 and (r["col"] != r["sto"] or r["colr"] != sorted([m, -c] for m, c in r["sto"])):
            out.add("rows")
    if not ob.get("bounds_ok", True):
        out.add("column-bounds")
    if not ob["shape"]:
        out.add("shape")
    return sorted(out)


def probed_path(o):
    """The probed code path (VARIANT key) an operation exercises, if any."""
    if o[0] == "SetId":
        return {"G": "idhook_gene", "P": "idhook_group", "R": "rxn_id_atomic"}.get(o[1])
    if o[0] == "RemoveGroups":
        return "rmgroups_str" if o[2] == "id" else "nested"
    if o[0] == "RemoveRxn":
        return "orphan"
    if o[0] == "AddGroups":
        return "addgene"
    if o[0] == "Exit":
        return "ctx_groups"
    return None


def op_features(case, impl, first):
    """Features of the failing step of a (shrunk) case that the known-finding signatures refer to."""
    o = case["ops"][first - 1] if first >= 1 else ["init"]
    obs0, steps = impl
    before = steps[first - 2] if first >= 2 else obs0
    f = {}
    path = probed_path(o)
    if path:
        # a known finding is only recognised while the probe says that its code path is NOT repaired: on a repaired
        # tree the same symptom is a regression and is reported
        f["code_path"], f["repaired"] = path, bool(VARIANT[path])
    if o[0] == "SetId":
        c, k, i = o[1], o[2], o[3]
        key = {"R": "rx", "M": "mt", "G": "gn", "P": "gp"}[c]
        f["id_setter_of"] = {"R": "reaction", "M": "metabolite", "G": "gene-or-group", "P": "gene-or-group"}[c]
        f["object_has_model"] = bool(before[key][k]["c"]["mod"])
        f["new_id"] = "bad-solver-name" if i in (-1, -2) else ("non-string" if i == -3 else "ordinary")
    if o[0] == "RemoveGroups":
        f["via"] = o[2]
        listed = {g["c"]["n"] for g in before["gp"] if g["c"]["pos"] >= 0}
        f["removed_group_is_member"] = any(["P", k] in g["members"] for g in before["gp"] if g["c"]["pos"] >= 0
                                           for k in o[1] if k in listed)
    if o[0] == "RemoveRxn":
        f["remove_orphans"] = bool(o[2])
    if o[0] == "AddGroups":
        listed_g = {g["c"]["n"] for g in before["gn"] if g["c"]["pos"] >= 0}
        f["gene_member_outside_model"] = any(c == "G" and k not in listed_g for p in o[1] for c, k in before["gp"][p]["members"])
    return o, f


def load_corpus(d):
    out = []
    if os.path.isdir(d):
        for f in sorted(os.listdir(d)):
            if f.endswith(".json"):
                out.append(json.load(open(os.path.join(d, f)))["case"])
    return out


HOW_TO_READ = ("objects are named by class and number: R reaction 'R<k>', M metabolite 'M<k>', G gene 'g<k>', P group 'G<k>' "
               "(the initial identifiers; cfg says which are in the model at the start); identifiers by number: k >= 0 "
               "'<prefix>k', -1 '', -2 'a b', -3 the integer 5; in an observation c = {n: object, id, mod: _model is the "
               "model, pos: position in the DictList by identity (-1: not listed), lookup: get_by_id/index/has_id lead back to "
               "the object, assoc: get_associated_groups}; rx: sto = _metabolites, col/colr = solver rows found through the "
               "names; vars/cons = solver variables/constraints resolved through reaction/metabolite identifiers (-1: no "
               "owner); codes: 1 = differs from the Gallina model (coq/theories/Groups/Model.v), 3 = inv_b "
               "(coq/theories/Groups/Check.v) fails on the observation")


def make_sig(case, impl_case, lst, ctx):
    """Signature of a failing case: the codes of its FIRST failing step and what that step was."""
    first = min(s for s, _ in lst)
    codes = sorted({c for s, c in lst if s == first})
    last, feat = op_features(case, impl_case, first)
    ob = impl_case[1][first - 1] if first >= 1 else impl_case[0]
    sig = {"kernel": "groups", "code": codes[-1] if ctx else codes[0], "codes_at_step": codes, "op": last[0],
           "symptoms": symptoms(ob), "res": ob["res"]}
    sig.update(feat)
    if ctx:
        sig["member_removed_in_block"] = member_removed_in_block(case, impl_case, first)
    return sig


def report(rep, args, cases, res, impl, own, ctx):
    seen, reported, n_fail, n_new = set(), [], 0, 0
    for idx in sorted(res):
        mine = [(s, c) for s, c in res[idx] if c in own]
        if not mine:
            continue
        n_fail += 1
        first = min(s for s, _ in mine)
        codes = tuple(sorted({c for s, c in mine if s == first}))
        # one report per distinct signature (the signature only looks at the first failing step and, for contexts, at
        # the block it closes); a failure that has the signature of a known finding is not shrunk
        sig0 = make_sig(cases[idx], impl[idx], mine, ctx)
        key = json.dumps(sig0, sort_keys=True)
        if key in seen:
            continue
        seen.add(key)
        if any(K.matches(f["signature"], sig0) for f in getattr(rep, "findings", [])):
            reported.append({"signature": sig0, "status": rep.violation(sig0, {"kernel": "groups", "case": cases[idx]})})
            continue
        n_new += 1
        if n_new > 8:
            continue
        small = cases[idx] if args.replay else shrink(cases[idx], set(codes), ctx, own=own, kind=kind_of(sig0))
        r2, _, impl2 = evaluate([small], ctx)
        lst2 = [(s, c) for s, c in (r2.get(0) or []) if c in own]
        if impl2[0] is None or not lst2:
            small, impl2, lst2 = cases[idx], [impl[idx]], mine
        sig = make_sig(small, impl2[0], lst2, ctx)
        replay = {"kernel": "groups", "case": small,
                  "failed": (CODES_CTX if ctx else CODES).get(sig["code"], str(sig["code"])),
                  "failing_steps": lst2, "variant_under_test": dict(VARIANT),
                  "implementation_observation": {"initial": impl2[0][0], "after_each_op": impl2[0][1]},
                  "python": python_lines(small), "how_to_read": HOW_TO_READ,
                  "theorem": "coq/theories/Properties/%s.v (%s_groups_*)" % (("C03",) * 2 if ctx else ("C02",) * 2)}
        reported.append({"signature": sig, "status": rep.violation(sig, replay)})
    return n_fail, reported


def fault(rep, faults, what):
    print("HARNESS FAULT (groups kernel%s): model evaluation failed:\n" % what + "\n".join(faults[:3]))
    rep.violation({"broken": True, "kernel": "groups"},
                  {"kernel": "groups", "broken_obligations": ["model evaluation (coqc on generated cases) failed: " +
                                                              faults[0][-800:]],
                   "note": "the correspondence machinery of the groups kernel no longer runs; no failing input found"},
                  no_input=True)


C01_WEIGHTS = {"AddGroups": 5, "RemoveGroups": 1, "AddMembers": 6, "RemoveMembers": 1, "SetKind": 0, "RemoveRxn": 8,
               "RemoveMet": 8, "RemoveGenes": 3, "SetId": 30, "EscapeIds": 10, "SetBounds": 14}


def run_c01(rep, args, rng):
    """Called by core.main for C01 (the solver holds exactly the model's problem): the identifier part of the kernel -
    identifier assignments, escape_ID, bounds edits after a rename, removals and add_groups bringing objects in - with
    the operations that run into the known findings of C02 left out; the solver clauses of inv_b (every variable /
    constraint is named after a reaction / metabolite of the model and nothing else, the rows found under the names carry
    the coefficients, the columns found under the names carry the bounds) and the comparison with the model."""
    return run(rep, args, rng, sizes=((120, 12), (3000, 24)), weights=C01_WEIGHTS, avoid_findings=True, corpus=None)


def run(rep, args, rng, sizes=((300, 14), (6000, 30)), weights=None, avoid_findings=False, corpus=CORPUS):
    """Called by core.main for C02: evaluates histories of the groups kernel and reports violations."""
    t0 = time.time()
    probe_variant()
    n_corpus = 0
    if args.replay:
        data = json.load(open(args.replay))
        if data.get("kernel") != "groups":
            return {"skipped": "replay of a case of another kernel"}
        cases = [data["case"]]
    else:
        n, L = sizes[0] if args.tier == "quick" else sizes[1]
        cases = load_corpus(corpus) if corpus else []
        n_corpus = len(cases)
        for _ in range(n):
            cases.append(gen_history(rng, rng.randrange(3, L + 1), weights=weights, avoid_findings=avoid_findings))
    res, faults, impl = evaluate(cases)
    if faults:
        fault(rep, faults, "")
    op_hist, res_hist, n_steps, distinct = {}, {}, 0, set()
    feat = {"escape_ids_renaming": 0, "escape_ids_refused": 0, "bounds_after_rename": 0, "setid_in_model": 0, "setid_existing_id_refused": 0, "setid_same_id": 0, "setid_bad_name": 0,
            "setid_non_string": 0, "setid_outside_model": 0, "remove_of_group_member": 0, "remove_group_nested": 0,
            "remove_group_absent": 0, "add_group_existing_id": 0, "add_group_brings_objects": 0, "orphans_removed": 0,
            "max_model_groups": 0, "histories_outside_domain": 0}
    key = {"R": "rx", "M": "mt", "G": "gn", "P": "gp"}
    for c, ob in zip(cases, impl):
        if ob is None:
            feat["histories_outside_domain"] += 1
            continue
        distinct.add(json.dumps(c, sort_keys=True))
        prev = ob[0]
        for o, s in zip(c["ops"], ob[1]):
            op_hist[o[0]] = op_hist.get(o[0], 0) + 1
            res_hist[s["res"]] = res_hist.get(s["res"], 0) + 1
            n_steps += 1
            nl = lambda ob_, k: sum(1 for x in ob_[k] if x["c"]["pos"] >= 0)  # noqa
            feat["max_model_groups"] = max(feat["max_model_groups"], nl(s, "gp"))
            if o[0] == "SetId":
                cm = prev[key[o[1]]][o[2]]["c"]
                feat["setid_in_model"] += cm["pos"] >= 0
                feat["setid_outside_model"] += cm["pos"] < 0
                feat["setid_same_id"] += cm["id"] == o[3]
                feat["setid_existing_id_refused"] += (s["res"] == "RaiseValueError" and o[3] >= 0)
                feat["setid_bad_name"] += o[3] in (-1, -2)
                feat["setid_non_string"] += o[3] == -3
            elif o[0] == "EscapeIds":
                feat["escape_ids_renaming"] += any(x["c"]["id"] != y["c"]["id"] for k_ in ("rx", "mt", "gn") for x, y in zip(prev[k_], s[k_]))
                feat["escape_ids_refused"] += s["res"] != "Ok"
            elif o[0] == "SetBounds":
                feat["bounds_after_rename"] += prev["rx"][o[1]]["c"]["id"] != o[1] and prev["rx"][o[1]]["c"]["pos"] >= 0
            elif o[0] in ("RemoveRxn", "RemoveMet"):
                cm = prev["rx" if o[0] == "RemoveRxn" else "mt"][o[1]]["c"]
                feat["remove_of_group_member"] += bool(cm["assoc"]) and cm["pos"] >= 0
                feat["orphans_removed"] += (nl(s, "mt") + nl(s, "gn") < nl(prev, "mt") + nl(prev, "gn")) and o[0] == "RemoveRxn"
            elif o[0] == "RemoveGroups":
                feat["remove_group_nested"] += any(prev["gp"][k]["c"]["assoc"] for k in o[1] if prev["gp"][k]["c"]["pos"] >= 0)
                feat["remove_group_absent"] += any(prev["gp"][k]["c"]["pos"] < 0 for k in o[1])
            elif o[0] == "AddGroups":
                feat["add_group_existing_id"] += nl(s, "gp") < nl(prev, "gp") + len(set(o[1]))
                feat["add_group_brings_objects"] += (nl(s, "rx") + nl(s, "mt") + nl(s, "gn") > nl(prev, "rx") + nl(prev, "mt") + nl(prev, "gn"))
            prev = s
    n_fail, reported = report(rep, args, cases, res, impl, {1, 3}, False)
    return {"histories": len(cases), "distinct_histories": len(distinct), "steps_observed": n_steps,
            "variant_under_test": dict(VARIANT), "corpus_cases": n_corpus, "op_distribution": op_hist,
            "result_distribution": res_hist, "features": feat, "histories_failing": n_fail, "reported": reported,
            "samples": [cases[i] for i in sorted({0, len(cases) // 2, len(cases) - 1})] if cases else [],
            "rule": "random histories over the op kernel of coq/theories/Groups/Model.v (about 15 % odd arguments: an identifier "
                    "the DictList already has, the same identifier, '', a name optlang refuses, a non-string, objects outside "
                    "the model, removing an object that is a group member, nested groups, a group whose identifier exists, "
                    "removing a group twice, a bare object / identifier instead of a list), drawn while executing on the real "
                    "Model; after EVERY step all four DictLists (order, identity, look-ups), every object's identifier and "
                    "_model, group members and kinds, get_associated_groups, stoichiometry, back references and the solver's "
                    "variable / constraint names and rows are compared with the Gallina model and inv_b is evaluated on the "
                    "observation",
            "run_s": round(time.time() - t0, 1)}


def python_lines(case):
    """The history as Python statements (for the replay file)."""
    cfg = case["cfg"]
    out = ["# R, M, G (genes), P (groups): lists of the objects; reactions R[:%d] with their metabolites and rules are in the "
           "model, see cfg" % cfg["n_in"]]
    name = {"R": "R", "M": "M", "G": "G", "P": "P"}
    rf = lambda r: "%s[%d]" % (name[r[0]], r[1])  # noqa
    for o in case["ops"]:
        n, a = o[0], o[1:]
        if n in ("AddGroups", "RemoveGroups"):
            fn = "model.add_groups" if n == "AddGroups" else "model.remove_groups"
            if a[1] == "id":
                out.append("%s(P[%d].id)" % (fn, a[0][0]))
            elif a[1] == "single":
                out.append("%s(P[%d])" % (fn, a[0][0]))
            else:
                out.append("%s([%s])" % (fn, ", ".join("P[%d]" % k for k in a[0])))
        elif n in ("AddMembers", "RemoveMembers"):
            out.append("P[%d].%s([%s])" % (a[0], "add_members" if n == "AddMembers" else "remove_members",
                                           ", ".join(rf(r) for r in a[1])))
        elif n == "SetKind":
            out.append("P[%d].kind = %r" % (a[0], KINDS[a[1]] if a[1] <= 2 else "pathway"))
        elif n == "RemoveRxn":
            out.append("model.remove_reactions([R[%d]], remove_orphans=%s)" % (a[0], bool(a[1])))
        elif n == "RemoveMet":
            out.append("model.remove_metabolites([M[%d]], destructive=%s)" % (a[0], bool(a[1])))
        elif n == "RemoveGenes":
            out.append("remove_genes(model, %r, remove_reactions=%s)" % ([enc("G", i) for i in a[0]], bool(a[1])))
        elif n == "SetId":
            out.append("%s.id = %r" % (rf([a[0], a[1]]), enc(a[0], a[2])))
        elif n == "EscapeIds":
            out.append("cobra.manipulation.modify.escape_ID(model)")
        elif n == "SetBounds":
            out.append("R[%d].bounds = (%d, %d)" % (a[0], a[1], a[2]))
        elif n == "Enter":
            out.append("model.__enter__()")
        elif n == "Exit":
            out.append("model.__exit__(None, None, None)")
    return out


# ================================================================== contexts (C03): run_ctx
# Documented ("The change is reverted upon exit when using the model as a context") or implemented as reversible:
# remove_reactions, remove_metabolites, remove_genes.  Group edits (add_groups, remove_groups, add_members, remove_members,
# kind) and identifier assignments are neither: they are only generated outside blocks.
def member_removed_in_block(case, impl, step):
    """Inside the block closed at `step` an object left its DictList while a group of the model listed it."""
    ops = case["ops"]
    d, start = 0, None
    for j in range(step - 1, -1, -1):
        d += 1 if ops[j][0] == "Exit" else (-1 if ops[j][0] == "Enter" else 0)
        if d == 0:
            start = j
            break
    if start is None:
        return False
    obs0, steps = impl
    seq = [obs0] + steps
    for j in range(start + 1, step - 1):
        a, b = seq[j], seq[j + 1]           # before / after op j (0-based)
        for k in ("rx", "mt", "gn"):
            for x, y in zip(a[k], b[k]):
                if x["c"]["pos"] >= 0 and y["c"]["pos"] < 0 and x["c"]["assoc"]:
                    return True
    return False


def run_ctx(rep, args, rng):
    """Called by core.main for C03: removals inside 1-2 nested `with model:` blocks around group edits; codes 4, 5, 6."""
    t0 = time.time()
    probe_variant()
    n_corpus = 0
    if args.replay:
        data = json.load(open(args.replay))
        if data.get("kernel") != "groups":
            return {"skipped": "replay of a case of another kernel"}
        cases = [data["case"]]
    else:
        n, L = (250, 16) if args.tier == "quick" else (5000, 30)
        cases = load_corpus(CORPUS_CTX)
        n_corpus = len(cases)
        for _ in range(n):
            cases.append(gen_history(rng, rng.randrange(8, L + 3), odd_p=0.1, ctx=True))
    res, faults, impl = evaluate(cases, ctx=True)
    if faults:
        fault(rep, faults, ", contexts")
    op_hist, in_block, n_steps, n_blocks, nested, with_member = {}, {}, 0, 0, 0, 0
    for c, ob in zip(cases, impl):
        if ob is None:
            continue
        d = 0
        for j, o in enumerate(c["ops"]):
            n_steps += 1
            op_hist[o[0]] = op_hist.get(o[0], 0) + 1
            if o[0] == "Enter":
                d += 1
                nested += d >= 2
            elif o[0] == "Exit":
                d -= 1
                n_blocks += 1
                with_member += member_removed_in_block(c, ob, j + 1)
            elif d > 0:
                in_block[o[0]] = in_block.get(o[0], 0) + 1
    n_fail, reported = report(rep, args, cases, res, impl, {4, 5, 6}, True)
    return {"histories": len(cases), "histories_outside_scope": sum(1 for x in impl if x is None), "steps_observed": n_steps,
            "blocks_closed": n_blocks, "nested_blocks_entered": nested, "blocks_removing_a_group_member": with_member,
            "corpus_cases": n_corpus, "variant_under_test": dict(VARIANT), "op_distribution": op_hist,
            "ops_inside_blocks": in_block, "histories_failing": n_fail, "reported": reported,
            "samples": [cases[i] for i in sorted({0, len(cases) // 2, len(cases) - 1})] if cases else [],
            "rule": "random histories of group edits and identifier assignments with up to three blocks nested at most two "
                    "deep, drawn while executing on the real Model; inside a block only what is documented / implemented as "
                    "reverted by a context (remove_reactions with and without orphans, remove_metabolites destructive or not, "
                    "remove_genes incl. unknown identifiers) - preferably on members of groups; the observation at every "
                    "__enter__ is compared with the one after the matching __exit__ (Coq `restored`, `groups_restored`)",
            "run_s": round(time.time() - t0, 1)}


if __name__ == "__main__":
    # stand-alone run of the groups kernel only (no proof gate): harness/groups.py [--tier ..] [--seed ..]
    import random
    a = K.parse_args()
    ok, out = K.build(EXTRA_TARGETS)
    if not ok:
        print(out[-2000:])
        sys.exit(2)

    class _Rep:
        violations = 0
        known = set()
        findings = K.load_findings("C03" if os.environ.get("GROUPS_CTX") else "C02")

        def violation(self, sig, replay, no_input=False):
            for f in self.findings:
                if not no_input and K.matches(f["signature"], sig):
                    self.known.add(f["key"])
                    return "known"
            self.violations += 1
            print("VIOLATION(groups, stand-alone)", json.dumps(sig), json.dumps(replay.get("case")), replay.get("failing_steps"))
            print("   ", "\n    ".join(replay.get("python", [])))
            return "new"
    rp = _Rep()
    cov = (run_ctx if os.environ.get("GROUPS_CTX") else run)(rp, a, random.Random(a.seed))
    cov.pop("samples", None)
    cov["known_findings_seen"] = sorted(rp.known)
    print(json.dumps(cov, indent=1))
    sys.exit(1 if rp.violations else 0)
