"""Tables for C19 (find_blocked_reactions in flux_analysis/variability.py, fastcc.py), fail-closed:
  * the FVA inside find_blocked_reactions is called with fraction_of_optimum = 0.0
  * whether `model.objective = Zero` is assigned inside the `with model:` block before that call
  * the constants of open_exchanges: bounds = (min(lower_bound, -1000), max(upper_bound, 1000))
  * both filters compare `abs(...) < zero_cutoff`
  * fastcc: result of _find_sparse_mode = reactions with abs(rxn.flux) > zero_cutoff; default flux_threshold"""
import ast
from fractions import Fraction

from tables_lib import section, parse, find_def, Abort


def _num(node):
    if isinstance(node, ast.UnaryOp) and isinstance(node.op, ast.USub):
        return -_num(node.operand)
    if isinstance(node, ast.Constant) and isinstance(node.value, (int, float)) and not isinstance(node.value, bool):
        return Fraction(node.value)
    raise Abort("numeric literal expected, got %s" % ast.dump(node))


def _q(f):
    return "(%d # %d)%%Q" % (f.numerator, f.denominator)


@section("BlockedTables")
def blocked_tables(repo):
    tree, _ = parse(repo, "flux_analysis/variability.py")
    fn = find_def(tree, "find_blocked_reactions")
    withs = [n for n in fn.body if isinstance(n, ast.With)]
    if len(withs) != 1:
        raise Abort("find_blocked_reactions: one top-level `with model:` expected")
    w = withs[0]
    fva_line, frac = None, None
    for n in ast.walk(w):
        if isinstance(n, ast.Call) and getattr(n.func, "id", None) == "flux_variability_analysis":
            fva_line = n.lineno
            for k in n.keywords:
                if k.arg == "fraction_of_optimum":
                    frac = _num(k.value)
    if fva_line is None or frac is None:
        raise Abort("flux_variability_analysis(..., fraction_of_optimum=<literal>) not found")
    zero_obj = False
    for n in w.body:        # only unconditional statements directly in the with block count
        if isinstance(n, ast.Assign) and len(n.targets) == 1 and isinstance(n.targets[0], ast.Attribute) \
                and n.targets[0].attr == "objective" and isinstance(n.targets[0].value, ast.Name) \
                and n.targets[0].value.id == "model" and n.lineno < fva_line:
            if isinstance(n.value, ast.Name) and n.value.id == "Zero":
                zero_obj = True
            elif isinstance(n.value, ast.Dict) and not n.value.keys:
                zero_obj = True
            else:
                raise Abort("model.objective assigned something else than Zero / {}")
    # open_exchanges
    opens = None
    for n in ast.walk(w):
        if isinstance(n, ast.Assign) and isinstance(n.targets[0], ast.Attribute) and n.targets[0].attr == "bounds" \
                and isinstance(n.value, ast.Tuple) and len(n.value.elts) == 2:
            lo, hi = n.value.elts
            if not (isinstance(lo, ast.Call) and lo.func.id == "min" and isinstance(hi, ast.Call) and hi.func.id == "max"
                    and lo.args[0].attr == "lower_bound" and hi.args[0].attr == "upper_bound"):
                raise Abort("open_exchanges bounds are not (min(lower_bound, c), max(upper_bound, c'))")
            opens = (_num(lo.args[1]), _num(hi.args[1]))
    if opens is None:
        raise Abort("open_exchanges assignment not found")
    # the two filters
    n_lt = 0
    for n in ast.walk(w):
        if isinstance(n, ast.Compare) and len(n.ops) == 1 and isinstance(n.ops[0], ast.Lt) \
                and isinstance(n.comparators[0], ast.Name) and n.comparators[0].id == "zero_cutoff":
            n_lt += 1
    if n_lt != 2:
        raise Abort("expected two `... < zero_cutoff` filters, found %d" % n_lt)
    # fastcc
    t2, _ = parse(repo, "flux_analysis/fastcc.py")
    fs = find_def(t2, "_find_sparse_mode")
    gt = [n for n in ast.walk(fs) if isinstance(n, ast.Compare) and len(n.ops) == 1 and isinstance(n.ops[0], ast.Gt)
          and isinstance(n.comparators[0], ast.Name) and n.comparators[0].id == "zero_cutoff"]
    if len(gt) != 1:
        raise Abort("_find_sparse_mode: `abs(rxn.flux) > zero_cutoff` not found")
    fc = find_def(t2, "fastcc")
    names = [a.arg for a in fc.args.args]
    thr = _num(fc.args.defaults[names.index("flux_threshold") - (len(names) - len(fc.args.defaults))])
    return ("Open Scope Q_scope.\n"
            "Definition blocked_fva_fraction : Q := %s.\n"
            "Definition blocked_zero_objective : bool := %s.\n"
            "Definition open_lower : Q := %s.\nDefinition open_upper : Q := %s.\n"
            "Definition fastcc_flux_threshold : Q := %s.\n") % (
        _q(frac), "true" if zero_obj else "false", _q(opens[0]), _q(opens[1]), _q(thr))
