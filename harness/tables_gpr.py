"""GprTables: the constants of cobra/core/gene.py that the gene-rule theorems (C08) depend on.

Emitted (all strings as lists of code points):
  repl_table            `replacements`, in source order
  kw_list               the keyword list as built at module level (keyword.kwlist of the interpreter
                        that runs cobrapy, minus/plus what the source removes/adds)
  keyword_re_src        the pattern text handed to re.compile for keyword_re (keywords joined in)
  number_start_re_src   the pattern text of number_start_re
  esc_prefix_kw/num     replacement strings of the two .sub(...) calls in GPR.from_string
  esc_prefix_strip(+len) the startswith literal and the slice start in GPRCleaner.visit_Name
  unit_old/unit_new     the "()" removal in from_string
  upper_*               the uppercase AND/OR fallback patterns and their replacements
  from_string_steps     order in which the recognised steps occur in from_string
  unescape_steps        order of the two steps of GPRCleaner.visit_Name
Fail-closed: any unrecognised shape raises Abort."""
import ast
import keyword

from tables_lib import section, parse, find_def, module_assign, Abort, coq_string


def _const_str(node, what):
    if isinstance(node, ast.Constant) and isinstance(node.value, str):
        return node.value
    raise Abort("%s: string literal expected, got %s" % (what, ast.dump(node)))


def _call_name(node):
    """dotted name of a call's function, e.g. 're.compile', 'keywords.remove'."""
    f = node.func
    parts = []
    while isinstance(f, ast.Attribute):
        parts.append(f.attr)
        f = f.value
    if isinstance(f, ast.Name):
        parts.append(f.id)
        return ".".join(reversed(parts))
    return None


def _keywords(tree):
    """Interpret the module-level statements that build `keywords`."""
    kws = None
    for node in tree.body:
        if isinstance(node, ast.Assign) and len(node.targets) == 1 and isinstance(node.targets[0], ast.Name) \
                and node.targets[0].id == "keywords":
            v = node.value
            if isinstance(v, ast.Call) and _call_name(v) == "list" and len(v.args) == 1 \
                    and isinstance(v.args[0], ast.Name) and v.args[0].id == "kwlist":
                kws = list(keyword.kwlist)
            else:
                raise Abort("keywords = ... has an unrecognised right-hand side")
        elif isinstance(node, ast.Expr) and isinstance(node.value, ast.Call):
            name = _call_name(node.value)
            if name and name.startswith("keywords."):
                if kws is None:
                    raise Abort("keywords used before assignment")
                a = node.value.args
                if name == "keywords.remove" and len(a) == 1:
                    kws.remove(_const_str(a[0], "keywords.remove"))
                elif name == "keywords.append" and len(a) == 1:
                    kws.append(_const_str(a[0], "keywords.append"))
                elif name == "keywords.extend" and len(a) == 1 and isinstance(a[0], (ast.Tuple, ast.List)):
                    kws.extend(_const_str(e, "keywords.extend") for e in a[0].elts)
                else:
                    raise Abort("unrecognised operation on keywords: %s" % name)
    if kws is None:
        raise Abort("keywords assignment not found")
    # make sure `from keyword import kwlist` is where kwlist comes from
    ok = any(isinstance(n, ast.ImportFrom) and n.module == "keyword" and any(a.name == "kwlist" and a.asname is None
             for a in n.names) for n in tree.body)
    if not ok:
        raise Abort("kwlist is not imported from keyword")
    return kws


def _compile_arg(node, what):
    if not (isinstance(node, ast.Call) and _call_name(node) == "re.compile" and len(node.args) == 1
            and not node.keywords):
        raise Abort("%s is not a plain re.compile(pattern)" % what)
    return node.args[0]


def _keyword_re(tree, kws):
    arg = _compile_arg(module_assign(tree, "keyword_re"), "keyword_re")
    if not isinstance(arg, ast.JoinedStr):
        raise Abort("keyword_re pattern is not an f-string")
    out = ""
    for v in arg.values:
        if isinstance(v, ast.Constant) and isinstance(v.value, str):
            out += v.value
        elif isinstance(v, ast.FormattedValue) and v.conversion == -1 and v.format_spec is None:
            c = v.value
            if isinstance(c, ast.Call) and isinstance(c.func, ast.Attribute) and c.func.attr == "join" \
                    and len(c.args) == 1 and isinstance(c.args[0], ast.Name) and c.args[0].id == "keywords":
                out += _const_str(c.func.value, "join separator").join(kws)
            else:
                raise Abort("keyword_re: unrecognised interpolation")
        else:
            raise Abort("keyword_re: unrecognised f-string part")
    return out


def _replacements(tree):
    v = module_assign(tree, "replacements")
    if not isinstance(v, (ast.Tuple, ast.List)):
        raise Abort("replacements is not a tuple literal")
    out = []
    for e in v.elts:
        if not (isinstance(e, (ast.Tuple, ast.List)) and len(e.elts) == 2):
            raise Abort("replacements entry is not a pair")
        out.append((_const_str(e.elts[0], "replacements"), _const_str(e.elts[1], "replacements")))
    return out


def _is_name(n, name):
    return isinstance(n, ast.Name) and n.id == name


def _from_string(tree):
    """Recognise the escaping steps of GPR.from_string and their order."""
    fn = find_def(tree, "from_string", "GPR")
    steps, info = [], {}
    upper = {}
    for node in fn.body:
        # local regexes  uppercase_AND = re.compile(r"\bAND\b")
        if isinstance(node, ast.Assign) and len(node.targets) == 1 and isinstance(node.targets[0], ast.Name):
            tgt, v = node.targets[0].id, node.value
            if isinstance(v, ast.Call) and _call_name(v) == "re.compile":
                upper[tgt] = _const_str(_compile_arg(v, tgt), tgt)
                continue
            if tgt == "str_expr" and isinstance(v, ast.Call) and _call_name(v) == "string_gpr.strip" and not v.args:
                steps.append(1)
                continue
            if tgt == "escaped_str" and isinstance(v, ast.Call):
                name = _call_name(v)
                if name == "keyword_re.sub" and len(v.args) == 2 and _is_name(v.args[1], "str_expr"):
                    info["esc_prefix_kw"] = _const_str(v.args[0], "keyword_re.sub")
                    steps.append(3)
                    continue
                if name == "number_start_re.sub" and len(v.args) == 2 and _is_name(v.args[1], "escaped_str"):
                    info["esc_prefix_num"] = _const_str(v.args[0], "number_start_re.sub")
                    steps.append(4)
                    continue
                if name == "escaped_str.replace" and len(v.args) == 2:
                    info["unit_old"] = _const_str(v.args[0], "replace")
                    info["unit_new"] = _const_str(v.args[1], "replace")
                    steps.append(5)
                    continue
        # for char, escaped in replacements: if char in str_expr: str_expr = str_expr.replace(char, escaped)
        if isinstance(node, ast.For) and _is_name(node.iter, "replacements"):
            t = node.target
            if not (isinstance(t, ast.Tuple) and [getattr(e, "id", None) for e in t.elts] == ["char", "escaped"]):
                raise Abort("from_string: loop over replacements has an unexpected target")
            body = node.body
            if len(body) == 1 and isinstance(body[0], ast.If) and not body[0].orelse:
                test = body[0].test
                if not (isinstance(test, ast.Compare) and _is_name(test.left, "char") and len(test.ops) == 1
                        and isinstance(test.ops[0], ast.In) and _is_name(test.comparators[0], "str_expr")):
                    raise Abort("from_string: unexpected guard in the replacements loop")
                body = body[0].body
            if not (len(body) == 1 and isinstance(body[0], ast.Assign) and _is_name(body[0].targets[0], "str_expr")
                    and isinstance(body[0].value, ast.Call) and _call_name(body[0].value) == "str_expr.replace"
                    and [getattr(a, "id", None) for a in body[0].value.args] == ["char", "escaped"]):
                raise Abort("from_string: unexpected body of the replacements loop")
            steps.append(2)
            continue
        if isinstance(node, ast.Try):
            steps.append(6)
            # the fallback: uppercase_AND.sub("and", escaped_str), uppercase_OR.sub("or", escaped_str)
            for sub in ast.walk(node):
                if isinstance(sub, ast.Call) and _call_name(sub) in ("uppercase_AND.sub", "uppercase_OR.sub"):
                    info[_call_name(sub)] = _const_str(sub.args[0], "uppercase sub")
    for k in ("esc_prefix_kw", "esc_prefix_num", "unit_old", "unit_new", "uppercase_AND.sub", "uppercase_OR.sub"):
        if k not in info:
            raise Abort("from_string: step %s not found" % k)
    if "uppercase_AND" not in upper or "uppercase_OR" not in upper:
        raise Abort("from_string: uppercase regexes not found")
    info["upper_and_re"], info["upper_or_re"] = upper["uppercase_AND"], upper["uppercase_OR"]
    return steps, info


def _visit_name(tree):
    fn = find_def(tree, "visit_Name", "GPRCleaner")
    steps, info = [], {}
    for node in fn.body:
        if isinstance(node, ast.If) and isinstance(node.test, ast.Call) and _call_name(node.test) is None:
            pass
        if isinstance(node, ast.If) and isinstance(node.test, ast.Call) and isinstance(node.test.func, ast.Attribute) \
                and node.test.func.attr == "startswith":
            info["strip"] = _const_str(node.test.args[0], "startswith")
            b = node.body
            if not (len(b) == 1 and isinstance(b[0], ast.Assign) and isinstance(b[0].value, ast.Subscript)
                    and isinstance(b[0].value.slice, ast.Slice) and b[0].value.slice.upper is None
                    and b[0].value.slice.step is None and isinstance(b[0].value.slice.lower, ast.Constant)):
                raise Abort("visit_Name: unexpected prefix removal")
            info["striplen"] = int(b[0].value.slice.lower.value)
            steps.append(1)
        elif isinstance(node, ast.For) and _is_name(node.iter, "replacements"):
            t = node.target
            if not (isinstance(t, ast.Tuple) and [getattr(e, "id", None) for e in t.elts] == ["char", "escaped"]):
                raise Abort("visit_Name: loop over replacements has an unexpected target")
            calls = [c for c in ast.walk(node) if isinstance(c, ast.Call) and isinstance(c.func, ast.Attribute)
                     and c.func.attr == "replace"]
            if len(calls) != 1 or [getattr(a, "id", None) for a in calls[0].args] != ["escaped", "char"]:
                raise Abort("visit_Name: unexpected replace call")
            steps.append(2)
    if "strip" not in info:
        raise Abort("visit_Name: prefix removal not found")
    return steps, info


@section("GprTables")
def gpr_tables(repo):
    tree, _ = parse(repo, "core/gene.py")
    kws = _keywords(tree)
    repl = _replacements(tree)
    kre = _keyword_re(tree, kws)
    nre = _const_str(_compile_arg(module_assign(tree, "number_start_re"), "number_start_re"), "number_start_re")
    steps, info = _from_string(tree)
    usteps, uinfo = _visit_name(tree)
    out = []
    out.append("Definition repl_table : list (list Z * list Z) := [\n  %s]." % ";\n  ".join(
        "(%s, %s)" % (coq_string(a), coq_string(b)) for a, b in repl))
    out.append("Definition kw_list : list (list Z) := [\n  %s]." % ";\n  ".join(coq_string(k) for k in kws))
    out.append("Definition keyword_re_src : list Z := %s." % coq_string(kre))
    out.append("Definition number_start_re_src : list Z := %s." % coq_string(nre))
    out.append("Definition esc_prefix_kw : list Z := %s." % coq_string(info["esc_prefix_kw"]))
    out.append("Definition esc_prefix_num : list Z := %s." % coq_string(info["esc_prefix_num"]))
    out.append("Definition esc_prefix_strip : list Z := %s." % coq_string(uinfo["strip"]))
    out.append("Definition esc_prefix_striplen : Z := %d." % uinfo["striplen"])
    out.append("Definition unit_old : list Z := %s." % coq_string(info["unit_old"]))
    out.append("Definition unit_new : list Z := %s." % coq_string(info["unit_new"]))
    out.append("Definition upper_and_re_src : list Z := %s." % coq_string(info["upper_and_re"]))
    out.append("Definition upper_or_re_src : list Z := %s." % coq_string(info["upper_or_re"]))
    out.append("Definition upper_and_new : list Z := %s." % coq_string(info["uppercase_AND.sub"]))
    out.append("Definition upper_or_new : list Z := %s." % coq_string(info["uppercase_OR.sub"]))
    out.append("Definition from_string_steps : list Z := [%s]." % "; ".join(str(s) for s in steps))
    out.append("Definition unescape_steps : list Z := [%s]." % "; ".join(str(s) for s in usteps))
    return "\n".join(out)
