"""Kernel IV of the C01 / C02 / C03 checks (coq/theories/Extras): user constraints and variables, switching the solver
interface, Model.merge.  Histories are drawn while they are executed on a real cobra.Model; after every step the real
solver (harness/obsmodel.py observe_raw: columns with bounds and objective coefficient, rows with bounds and
coefficients, names included), the optlang view and the object graph are observed; Coq term printer, shrinker,
`run_c01(rep, args, rng)`, `run(rep, args, rng)` (C02) and `run_ctx(rep, args, rng)` (C03), which core.main calls.

Case (JSON-able): {"solver": "glpk" | "glpk_exact", "ops": [[name, args...], ...]}; the model starts empty.
Reaction r is "R<r>" (r >= 1000: "p_" prefixed r // 1000 times, the rest "R<r % 1000>"), metabolite m "M<m>", user variable
k "x<k>", user constraint k "uc<k>".  A solver variable is ["F", r] (forward), ["R", r] (reverse) or ["U", k].
  ["AddUserVar", k, lb, ub]                       model.add_cons_vars([model.problem.Variable("x<k>", lb=, ub=)])  (None = no bound)
  ["AddUserCons", k, lb, ub, [[var, coef]...], sloppy]
  ["RemoveUserVar", k] / ["RemoveUserCons", k]    model.remove_cons_vars([object])
  ["RemoveVarByName", k] / ["RemoveConsByName", k]   model.remove_cons_vars(["x<k>"]) / (["uc<k>"])
  ["AddRxn", r, lb, ub, [[m, coef]...]]           model.add_reactions([reaction object]) (the object kept from before, if any)
  ["RemoveRxn", r, via]                           via: "obj" | "id"
  ["SetBounds", r, lb, ub]   ["SetObj", [[r, coef]...]]   ["SetDir", "max" | "min"]
  ["SwitchSolver", "glpk" | "glpk_exact", via]    via: "str" | "module"
  ["Merge", right, prefix, mode, inplace]         right: {"solver", "rxns": [{"id", "lb", "ub", "sto", "genes"}], "mets": [m...] (without
                                                  reactions), "uvars": [[k, lb, ub]], "ucons": [[k, lb, ub, terms]], "obj": [[r, c]], "dir"};
                                                  prefix: bool ("p_"); mode: 0 left, 1 right, 2 sum
  ["Enter"], ["Exit"]"""
import json
import logging
import os
import sys
import time
import warnings

sys.path.insert(0, os.path.dirname(os.path.abspath(__file__)))
import common as K  # noqa: E402
import obsmodel  # noqa: E402

sys.path.insert(0, os.path.join(K.REPO, "src"))
logging.getLogger("cobra").setLevel(logging.ERROR)

HEADER = """From Coq Require Import ZArith List Bool.
From Cobra.Extras Require Import Model Inv Check.
Import ListNotations.
Open Scope Z_scope."""
CASE_TYPE = "univ * obs * list (cop * obs * list obs)"
EXTRA_TARGETS = ["theories/Extras/Check.vo"]
CODES = {1: "extras kernel: model and implementation differ",
         2: "extras kernel: the solver problem is not the flux-balance problem of the content plus what the user added (C01)",
         3: "extras kernel: cross references inconsistent (C02)",
         4: "extras kernel: the model is not what it was when the block was entered (C03)",
         5: "extras kernel: __exit__ raised (C03)",
         7: "extras kernel: an edit did not do what it documents (C02)",
         8: "extras kernel: switching the solver interface changed the problem (C01)"}
CORPUS = {"C01": os.path.join(K.VERIF, "corpus", "C01", "extras"), "C02": os.path.join(K.VERIF, "corpus", "C02", "extras"),
          "C03": os.path.join(K.VERIF, "corpus", "C03", "extras")}
PFX = 1000
SOLVERS = ("glpk", "glpk_exact")

# Which variant of the code is under test (decided by probes on the real implementation, see probe_variant):
#   merge_back / merge_rows / merge_sumdir: modelled both ways (Model.v `variant`: fx_back, fx_rows, fx_sumdir)
#   switch_ctx: undo closures recorded before a solver switch inside a block still work afterwards (C03; only the
#               specification -- Exit restores -- is modelled)
#   row_terms:  a variable removed inside a block comes back with its coefficients in user constraints (C03; known finding
#               C03-constraint-terms-of-removed-reaction, no small patch)
#   merge_objshare: merge(inplace=False, objective="left") gives the returned model its own objective (as found, with an
#               objective without variables the two models share ONE Objective object; only an identity flag of the
#               observation, `why: objective-not-owned`)
VARIANT = {"merge_back": False, "merge_rows": False, "merge_sumdir": False, "switch_ctx": False, "row_terms": False,
           "merge_objshare": False}


def variant_term():
    b = lambda x: "true" if x else "false"  # noqa
    return "(mkV %s %s %s)" % (b(VARIANT["merge_back"]), b(VARIANT["merge_rows"]), b(VARIANT["merge_sumdir"]))


def probe_variant():
    import cobra
    with warnings.catch_warnings():
        warnings.simplefilter("ignore")

        def mk(name, rx):
            M = cobra.Model(name)
            mets = {}
            l = []
            for rid, sto in rx:
                r = cobra.Reaction(rid)
                r.bounds = (0, 10)
                r.add_metabolites({mets.setdefault(m, cobra.Metabolite(m, compartment="c")): c for m, c in sto})
                l.append(r)
            M.add_reactions(l)
            return M
        try:
            L = mk("l", [("R1", [("M0", -1), ("M1", 1)])])
            Rt = mk("r", [("R1", [("M1", -1), ("M5", 1)]), ("R2", [("M2", -1), ("M5", 1)])])
            L.merge(Rt)
            m5 = L.metabolites.get_by_id("M5")
            VARIANT["merge_back"] = all(x.id in L.reactions and L.reactions.get_by_id(x.id) is x for x in m5._reaction)
        except Exception:  # noqa
            VARIANT["merge_back"] = False
        try:
            L = mk("l", [("R1", [("M0", -1), ("M1", 1)])])
            Rt = mk("r", [("R1", [("M1", -1), ("M5", 1)])])
            Rt.add_metabolites([cobra.Metabolite("M6", compartment="c")])
            L.merge(Rt)
            VARIANT["merge_rows"] = "M5" not in L.constraints and "M6" not in L.constraints
        except Exception:  # noqa
            VARIANT["merge_rows"] = False
        try:
            L = mk("l", [("R1", [("M0", -1), ("M1", 1)])])
            Rt = mk("r", [("R2", [("M1", -1), ("M5", 1)])])
            L.objective_direction = "min"
            Rt.objective_direction = "min"
            L.merge(Rt, objective="sum")
            VARIANT["merge_sumdir"] = L.objective_direction == "min"
        except Exception:  # noqa
            VARIANT["merge_sumdir"] = False
        try:
            L = mk("l", [("R1", [("M0", -1), ("M1", 1)])])
            Rt = mk("r", [("R2", [("M1", -1), ("M5", 1)])])
            N = L.merge(Rt, inplace=False)
            VARIANT["merge_objshare"] = L.objective.problem is L.solver and N.objective is not L.objective
        except Exception:  # noqa
            VARIANT["merge_objshare"] = False
        try:
            L = mk("l", [("R1", [("M0", -1), ("M1", 1)])])
            L.solver = "glpk"
            with L:
                L.add_cons_vars([L.problem.Variable("x0", lb=0, ub=1)])
                L.objective = {L.reactions.R1: 2.0}
                L.solver = "glpk_exact"
            VARIANT["switch_ctx"] = "x0" not in L.variables and len(L.variables) == 2
        except Exception:  # noqa
            VARIANT["switch_ctx"] = False
        try:
            L = mk("l", [("R1", [("M0", -1), ("M1", 1)])])
            c = L.problem.Constraint(L.reactions.R1.forward_variable * 2, lb=0, ub=5, name="uc0")
            L.add_cons_vars([c])
            with L:
                L.remove_reactions([L.reactions.R1])
            L.solver.update()
            co = L.constraints["uc0"].get_linear_coefficients([L.variables["R1"]])
            VARIANT["row_terms"] = float(list(co.values())[0]) == 2.0
        except Exception:  # noqa
            VARIANT["row_terms"] = False
    return dict(VARIANT)


# ------------------------------------------------------------------ names
def rid(r):
    return "p_" * (r // PFX) + "R%d" % (r % PFX)


def dec_r(s):
    n = 0
    while s.startswith("p_"):
        s = s[2:]
        n += 1
    if s.startswith("R") and s[1:].isdigit() and str(int(s[1:])) == s[1:] and int(s[1:]) < PFX:
        return n * PFX + int(s[1:])
    return None


def dec_num(prefix, s):
    if s.startswith(prefix) and s[len(prefix):].isdigit() and str(int(s[len(prefix):])) == s[len(prefix):]:
        return int(s[len(prefix):])
    return None


def dec_var(s):
    """Solver variable name -> ["F" | "R" | "U", number] | None."""
    k = dec_num("x", s)
    if k is not None:
        return ["U", k]
    r = dec_r(s)
    if r is not None:
        return ["F", r]
    if "_reverse_" in s:
        base = s.split("_reverse_")[0]
        r = dec_r(base)
        if r is not None and s == _reverse_id(base):
            return ["R", r]
    return None


def _reverse_id(base):
    import hashlib
    return "_".join((base, "reverse", hashlib.md5(base.encode("utf-8")).hexdigest()[0:5]))


def dec_con(s):
    k = dec_num("uc", s)
    if k is not None:
        return ["U", k]
    m = dec_num("M", s)
    if m is not None:
        return ["M", m]
    return None


def var_name(v):
    return rid(v[1]) if v[0] == "F" else (_reverse_id(rid(v[1])) if v[0] == "R" else "x%d" % v[1])


# ------------------------------------------------------------------ implementation runner
class InvalidCase(Exception):
    pass


def intnum(x):
    """'p/q' string of obsmodel -> int, or None when it is not an integer."""
    if x is None:
        return None
    if x in ("inf", "-inf", "nan") or x.startswith("?"):
        return "bad"
    p, q = x.split("/")
    return int(p) if q == "1" else "bad"


def observe_model(M, res="Ok"):
    """The observation of a cobra model (the left model, or the one returned by merge(inplace=False))."""
    shape = True
    why = []            # diagnostics for signatures / replay files (not part of the Coq term)
    rx, mt, cols, rows = [], [], [], []
    direction, exact = "max", False
    try:
        exact = M.solver.interface.__name__.endswith("glpk_exact_interface")
        if M.problem is not M.solver.interface:
            shape = False
        for r in M.reactions:
            k = dec_r(r.id)
            lb, ub = r._lower_bound, r._upper_bound
            if k is None or lb != int(lb) or ub != int(ub):
                shape = False
                continue
            sto = []
            for m, c in r._metabolites.items():
                mk = dec_num("M", m.id)
                if mk is None or c != int(c):
                    shape = False
                    continue
                sto.append([mk, int(c)])
                if m._model is not M or m.id not in M.metabolites or M.metabolites.get_by_id(m.id) is not m:
                    shape = False
            if r._model is not M or M.reactions.get_by_id(r.id) is not r:
                shape = False
            for g in r._genes:
                if g.id not in M.genes or M.genes.get_by_id(g.id) is not g or r not in g._reaction:
                    shape = False
            fv, rv = r.forward_variable, r.reverse_variable
            if fv.problem is not M.solver or rv.problem is not M.solver or M.variables[r.id] is not fv:
                shape = False
                why.append("reaction-variable-not-owned")
            rx.append({"id": k, "lb": int(lb), "ub": int(ub), "st": sorted(sto)})
        for m in M.metabolites:
            mk = dec_num("M", m.id)
            if mk is None:
                shape = False
                continue
            back, foreign = [], []
            for x in m._reaction:
                k = dec_r(x.id)
                if k is None:
                    shape = False
                    continue
                back.append(k)
                if not (x.id in M.reactions and M.reactions.get_by_id(x.id) is x):
                    foreign.append(k)
            if m._model is not M:
                shape = False
            if m.id in M.constraints and M.constraints[m.id].problem is not M.solver:
                shape = False
                why.append("metabolite-constraint-not-owned")
            mt.append({"id": mk, "back": sorted(back), "foreign": sorted(foreign)})
        for g in M.genes:
            if g._model is not M or any(not (x.id in M.reactions and M.reactions.get_by_id(x.id) is x) for x in g._reaction):
                shape = False
        for dl in (M.reactions, M.metabolites, M.genes):
            if not obsmodel._index_ok(dl):
                shape = False
        raw = obsmodel.observe_raw(M)
        direction = raw["direction"]
        if not (raw["column_names_unique"] and raw["row_names_unique"] and raw["constant"] in ("0/1", None)):
            shape = False
        for c in raw["columns"]:
            n = dec_var(c["name"] or "")
            lo, hi, ob = intnum(c["bounds"][0]), intnum(c["bounds"][1]), intnum(c["obj"])
            if n is None or c["kind"] != "continuous" or "bad" in (lo, hi, ob):
                shape = False
                continue
            cols.append({"name": n, "lb": lo, "ub": hi, "obj": ob})
        for rw in raw["rows"]:
            n = dec_con(rw["name"] or "")
            lo, hi = intnum(rw["bounds"][0]), intnum(rw["bounds"][1])
            if n is None or "bad" in (lo, hi):
                shape = False
                continue
            coefs = []
            for cn, v in rw["coefficients"].items():
                vn, vv = dec_var(cn), intnum(v)
                if vn is None or vv == "bad":
                    shape = False
                else:
                    coefs.append([vn, vv])
            rows.append({"name": n, "lb": lo, "ub": hi, "coefs": sorted(coefs)})
        # the optlang view is the raw problem, and everything in it belongs to model.solver
        if sorted(v.name for v in M.variables) != sorted(c["name"] for c in raw["columns"]):
            shape = False
        if sorted(c.name for c in M.constraints) != sorted(r["name"] for r in raw["rows"]):
            shape = False
        def vb(x):      # optlang reads an absent GLPK bound of a copied problem back as +-DBL_MAX: no bound
            return None if (x is None or abs(x) >= 1e300) else obsmodel.num(x)
        rawb = {c["name"]: c["bounds"] for c in raw["columns"]}
        for v in M.variables:
            if v.problem is not M.solver:
                shape = False
                why.append("variable-not-owned")
            if [vb(v.lb), vb(v.ub)] != rawb.get(v.name):
                shape = False
                why.append("variable-bounds-view")
        rawr = {r["name"]: r["bounds"] for r in raw["rows"]}
        for c in M.constraints:
            if c.problem is not M.solver:
                shape = False
                why.append("constraint-not-owned")
            if [vb(c.lb), vb(c.ub)] != rawr.get(c.name):
                shape = False
                why.append("constraint-bounds-view")
        if M.objective.problem is not M.solver:
            shape = False
            why.append("objective-not-owned")      # model.objective belongs to another problem
        if M.objective.direction != direction or M.objective_direction != direction:
            shape = False
            why.append("direction-view")
        if M.solver.configuration.tolerances.feasibility != M.tolerance:
            shape = False
            why.append("tolerance")
    except Exception as e:  # noqa  -- e.g. optlang's pending modifications refer to objects that are not in the problem
        shape = False
        rx, mt, cols, rows = [], [], [], []
        err = "%s: %s" % (type(e).__name__, str(e)[:200])
        return {"rx": rx, "mt": mt, "vars": cols, "cons": rows, "dir": direction, "exact": bool(exact), "shape": False,
                "depth": len(getattr(M, "_contexts", [])), "res": res, "observe_error": err}
    return {"rx": sorted(rx, key=lambda x: x["id"]), "mt": sorted(mt, key=lambda x: x["id"]),
            "vars": sorted(cols, key=lambda x: x["name"]), "cons": sorted(rows, key=lambda x: x["name"]),
            "dir": direction, "exact": bool(exact), "shape": bool(shape), "depth": len(M._contexts), "res": res,
            "why": why}


def build_right(cobra, rm):
    """The `right` model of a merge, built through the public API."""
    R = cobra.Model("right")
    R.solver = rm.get("solver", "glpk")
    mets = {}

    def met(m):
        if m not in mets:
            mets[m] = cobra.Metabolite("M%d" % m, compartment="c")
        return mets[m]
    rl = []
    for x in rm["rxns"]:
        r = cobra.Reaction(rid(x["id"]))
        r.bounds = (x["lb"], x["ub"])
        r.add_metabolites({met(m): float(c) for m, c in x["sto"]})
        if x.get("genes"):
            r.gene_reaction_rule = " or ".join("g%d" % g for g in x["genes"])
        rl.append(r)
    R.add_reactions(rl)
    if rm.get("mets"):
        R.add_metabolites([met(m) for m in rm["mets"]])
    for k, lb, ub in rm.get("uvars", []):
        R.add_cons_vars([R.problem.Variable("x%d" % k, lb=lb, ub=ub)])
    R.solver.update()
    for k, lb, ub, terms in rm.get("ucons", []):
        expr = sum(c * R.variables[var_name(v)] for v, c in terms)
        R.add_cons_vars([R.problem.Constraint(expr, lb=lb, ub=ub, name="uc%d" % k)])
    if rm.get("obj"):
        R.objective = {R.reactions.get_by_id(rid(r)): float(c) for r, c in rm["obj"]}
    R.objective_direction = rm.get("dir", "max")
    R.solver.update()
    return R


class Impl:
    def __init__(self, solver="glpk"):
        import cobra
        self.cobra = cobra
        with warnings.catch_warnings():
            warnings.simplefilter("ignore")
            self.model = cobra.Model("left")
            self.model.solver = solver
        self.rx = {}        # r -> Reaction object made by AddRxn (or taken from the model when it was removed)
        self.uv = {}        # k -> Variable object the user made
        self.uc = {}        # k -> Constraint object the user made
        self.aux = None     # the model returned by the last merge(inplace=False)
        self.py_fail = []

    def mets_of(self, l):
        M = self.model
        out = {}
        for m, c in l:
            mid = "M%d" % m
            out[M.metabolites.get_by_id(mid) if mid in M.metabolites else self.cobra.Metabolite(mid, compartment="c")] = float(c)
        return out

    def rxn_obj(self, r, lb, ub, sto):
        """The reaction object an AddRxn uses: the one kept from before (its own data), else a new one."""
        x = self.rx.get(r)
        if x is None:
            x = self.cobra.Reaction(rid(r))
            x.bounds = (lb, ub)
            x.add_metabolites(self.mets_of(sto))
            self.rx[r] = x
        return x

    def filled(self, o):
        """The op with run-time arguments filled in (AddRxn of a kept object: that object's data)."""
        if o[0] == "AddRxn" and o[1] in self.rx:
            x = self.rx[o[1]]
            return ["AddRxn", o[1], int(x._lower_bound), int(x._upper_bound),
                    sorted([dec_num("M", m.id), int(c)] for m, c in x._metabolites.items())]
        return o

    def apply(self, o):
        n, a = o[0], o[1:]
        M = self.model
        self.aux = None
        self.py_fail = []
        with warnings.catch_warnings():
            warnings.simplefilter("ignore")
            try:
                if n == "AddUserVar":
                    v = M.problem.Variable("x%d" % a[0], lb=a[1], ub=a[2])
                    self.uv[a[0]] = v
                    M.add_cons_vars([v])
                elif n == "AddUserCons":
                    expr = sum(c * M.variables[var_name(v)] for v, c in a[3])
                    sloppy = bool(a[4]) if len(a) > 4 else False
                    c = M.problem.Constraint(expr, lb=a[1], ub=a[2], name="uc%d" % a[0], sloppy=sloppy)
                    self.uc[a[0]] = c
                    if sloppy:
                        M.add_cons_vars([c], sloppy=True)
                    else:
                        M.add_cons_vars([c])
                elif n == "RemoveUserVar":
                    v = self.uv.get(a[0])
                    if v is None or v.problem is not M.solver:
                        v = M.variables["x%d" % a[0]]
                    M.remove_cons_vars([v])
                elif n == "RemoveUserCons":
                    c = self.uc.get(a[0])
                    if c is None or c.problem is not M.solver:
                        c = M.constraints["uc%d" % a[0]]
                    M.remove_cons_vars([c])
                elif n == "RemoveVarByName":
                    M.remove_cons_vars(["x%d" % a[0]])
                elif n == "RemoveConsByName":
                    M.remove_cons_vars(["uc%d" % a[0]])
                elif n == "AddRxn":
                    M.add_reactions([self.rxn_obj(a[0], a[1], a[2], a[3])])
                elif n == "RemoveRxn":
                    name = rid(a[0])
                    if name in M.reactions:
                        x = M.reactions.get_by_id(name)
                        self.rx[a[0]] = x
                        M.remove_reactions([name] if a[1] == "id" else [x])
                    else:
                        M.remove_reactions([self.rx[a[0]]] if a[0] in self.rx else [name])
                elif n == "SetBounds":
                    M.reactions.get_by_id(rid(a[0])).bounds = (a[1], a[2])
                elif n == "SetObj":
                    M.objective = {M.reactions.get_by_id(rid(r)): float(c) for r, c in a[0]}
                elif n == "SetDir":
                    M.objective_direction = a[0]
                elif n == "SwitchSolver":
                    if len(a) > 1 and a[1] == "module":
                        import optlang
                        M.solver = optlang.glpk_exact_interface if a[0] == "glpk_exact" else optlang.glpk_interface
                    else:
                        M.solver = a[0]
                elif n == "Merge":
                    rm, pfx, mode, inplace = a
                    R = build_right(self.cobra, rm)
                    before = obsmodel.observe(R)
                    N = M.merge(R, prefix_existing="p_" if pfx else None, inplace=bool(inplace),
                                objective=("left", "right", "sum")[mode])
                    d = obsmodel.diff(before, obsmodel.observe(R))
                    if d:
                        self.py_fail.append("merge changed the right model: " + "; ".join(d[:3]))
                    if inplace and N is not M:
                        self.py_fail.append("merge(inplace=True) did not return the left model")
                    if not inplace:
                        if N is M:
                            self.py_fail.append("merge(inplace=False) returned the left model")
                        self.aux = N
                elif n == "Enter":
                    M.__enter__()
                elif n == "Exit":
                    M.__exit__(None, None, None)
                else:
                    raise RuntimeError("unknown op " + n)
                return "Ok"
            except ValueError:
                return "RaiseValueError"
            except KeyError:
                return "RaiseKeyError"
            except LookupError:
                return "RaiseLookupError"
            except Exception as e:  # noqa
                return "RaiseOther:" + type(e).__name__

    def observe(self, res="Ok"):
        ob = observe_model(self.model, res)
        if self.aux is not None:
            ob["aux"] = observe_model(self.aux)
        if self.py_fail:
            ob["py_fail"] = list(self.py_fail)
        return ob

    # ---- what the generator / the domain check need to know
    def has_var(self, v):
        return var_name(v) in self.model.variables

    def user_rows_using(self, names):
        """User constraints with a non-zero coefficient on one of the variable names."""
        M = self.model
        M.solver.update()
        out = []
        for c in M.constraints:
            if dec_con(c.name) and dec_con(c.name)[0] == "U":
                vs = [M.variables[x] for x in names if x in M.variables]
                if vs and any(float(cf) != 0 for cf in c.get_linear_coefficients(vs).values()):
                    out.append(c.name)
        return out

    def recorded(self):
        return sum(h.size() for h in self.model._contexts)


def right_ok(im, rm, pfx):
    """Inv.v rm_okb."""
    M = im.model
    new = [(x["id"] + PFX if (pfx and rid(x["id"]) in M.reactions) else x["id"]) for x in rm["rxns"]]
    if len(set(new)) != len(new):
        return False
    for x in rm["rxns"]:
        ms = [m for m, _ in x["sto"]]
        if len(set(ms)) != len(ms) or any(c == 0 for _, c in x["sto"]) or x["lb"] > x["ub"]:
            return False
    ids = [x["id"] for x in rm["rxns"]]
    uk = [k for k, _, _ in rm.get("uvars", [])]
    ck = [k for k, _, _, _ in rm.get("ucons", [])]
    if len(set(uk)) != len(uk) or len(set(ck)) != len(ck):
        return False
    ok_vars = {("F", r) for r in ids} | {("R", r) for r in ids} | {("U", k) for k in uk}
    for _, _, _, terms in rm.get("ucons", []):
        if any(tuple(v) not in ok_vars for v, _ in terms):
            return False
    ob = [r for r, _ in rm.get("obj", [])]
    return len(set(ob)) == len(ob) and all(r in ids for r in ob)


def precond(im, o, in_block=False):
    """The domain of the model (Inv.v op_okb) and the scope of the kernel, also enforced on replayed / shrunk cases."""
    n = o[0]
    M = im.model
    try:
        if n in ("Enter", "Exit"):
            return True
        if n == "AddUserVar":
            return ("x%d" % o[1]) not in M.variables and (o[2] is None or o[3] is None or o[2] <= o[3])
        if n == "AddUserCons":
            return ("uc%d" % o[1]) not in M.constraints and all(im.has_var(v) for v, _ in o[4]) and len(o[4]) > 0 \
                and (o[2] is None or o[3] is None or o[2] <= o[3])
        if n == "RemoveUserVar":
            return ("x%d" % o[1]) in M.variables
        if n == "RemoveUserCons":
            return ("uc%d" % o[1]) in M.constraints
        if n in ("RemoveVarByName", "RemoveConsByName"):
            # cobra documents objects; a name works through optlang, but its undo (solver.add of a string) does not
            return not in_block
        if n == "AddRxn":
            if o[1] in im.rx:
                x = im.rx[o[1]]
                if x._model is not None and x._model is not M:
                    return False
                return True
            ms = [m for m, _ in o[4]]
            return len(set(ms)) == len(ms) and all(c != 0 for _, c in o[4]) and o[2] <= o[3] and len(ms) > 0
        if n == "RemoveRxn":
            return rid(o[1]) in M.reactions or o[1] in im.rx
        if n == "SetBounds":
            return rid(o[1]) in M.reactions
        if n == "SetObj":
            rs = [r for r, _ in o[1]]
            return len(set(rs)) == len(rs) and all(rid(r) in M.reactions for r in rs)
        if n == "SetDir":
            return o[1] in ("max", "min")
        if n == "SwitchSolver":
            return o[1] in SOLVERS
        if n == "Merge":
            return right_ok(im, o[1], o[2]) and o[3] in (0, 1, 2)
        return False
    except Exception:  # noqa
        return False


def trigger(im, o, depth):
    """With the code under test this operation runs into one of the known findings of C03 (returns its class)."""
    M = im.model
    try:
        if depth > 0 and not VARIANT["row_terms"]:
            if o[0] == "RemoveRxn" and rid(o[1]) in M.reactions:
                r = M.reactions.get_by_id(rid(o[1]))
                if im.user_rows_using([r.id, r.reverse_id]):
                    return "row_terms"
            if o[0] in ("RemoveUserVar", "RemoveVarByName") and im.user_rows_using(["x%d" % o[1]]):
                return "row_terms"
        if depth > 0 and not VARIANT["switch_ctx"] and o[0] == "SwitchSolver":
            cur = "glpk_exact" if M.solver.interface.__name__.endswith("glpk_exact_interface") else "glpk"
            if o[1] != cur and im.recorded() > 0:
                return "switch-in-context"
    except Exception:  # noqa
        pass
    return None


def merge_trigger(im, o):
    """A merge that runs into one of the (modelled) findings of merge as found."""
    if o[0] != "Merge":
        return None
    M = im.model
    rm, pfx, mode = o[1], o[2], o[3]
    skipped = [x for x in rm["rxns"] if rid(x["id"]) in M.reactions and
               (not pfx or rid(x["id"] + PFX) in M.reactions)]
    joining = {m for x in rm["rxns"] if x not in skipped for m, _ in x["sto"] if ("M%d" % m) not in M.metabolites}
    if not VARIANT["merge_back"] and any(m in joining for x in skipped for m, _ in x["sto"]):
        return "merge-stale-back-reference"
    right_mets = {m for x in rm["rxns"] for m, _ in x["sto"]} | set(rm.get("mets", []))
    if not VARIANT["merge_rows"] and any(m not in joining and ("M%d" % m) not in M.constraints for m in right_mets):
        return "merge-foreign-metabolite-row"
    if not VARIANT["merge_sumdir"] and mode == 2 and M.objective_direction == "min":
        return "merge-sum-direction"
    if not VARIANT["merge_objshare"] and mode == 0 and not o[4] and not M.objective.variables:
        return "merge-shares-left-objective"
    return None


def run_case(case, ctx=True):
    im = Impl(case.get("solver", "glpk"))
    obs0 = im.observe()
    steps, filled, depth = [], [], 0
    for o in case["ops"]:
        if o[0] == "Exit" and depth == 0:
            raise InvalidCase("exit without a block")
        if not precond(im, o, in_block=depth > 0):
            raise InvalidCase(str(o))
        filled.append(im.filled(o))
        res = im.apply(o)
        depth += 1 if o[0] == "Enter" else (-1 if o[0] == "Exit" else 0)
        steps.append(im.observe(res))
    if depth != 0:
        raise InvalidCase("open block")
    return obs0, steps, filled


# ------------------------------------------------------------------ Coq terms
def bt(x):
    return "true" if x else "false"


def z(n):
    return "(%d)" % n if n < 0 else "%d" % n


def bnd(x):
    return "None" if x is None else "(Some %s)" % z(x)


def vn(v):
    return "(%s %d)" % ({"F": "VF", "R": "VR", "U": "VU"}[v[0]], v[1])


def cn(c):
    return "(%s %d)" % ({"M": "CM", "U": "CU"}[c[0]], c[1])


def zz(l):
    return "[" + "; ".join("(%s, %s)" % (z(a), z(b)) for a, b in l) + "]"


def terms(l):
    return "[" + "; ".join("(%s, %s)" % (vn(v), z(c)) for v, c in l) + "]"


def zl(l):
    return "[" + "; ".join(z(x) for x in l) + "]"


def res_name(r):
    return r if r in ("Ok", "RaiseValueError", "RaiseKeyError", "RaiseLookupError") else "RaiseOther"


def obs_term(o):
    rx = "[" + "; ".join("mkR %d %s %s %s" % (r["id"], z(r["lb"]), z(r["ub"]), zz(r["st"])) for r in o["rx"]) + "]"
    mt = "[" + "; ".join("mkM %d %s %s" % (m["id"], zl(m["back"]), zl(m["foreign"])) for m in o["mt"]) + "]"
    vs = "[" + "; ".join("mkVo %s %s %s %s" % (vn(v["name"]), bnd(v["lb"]), bnd(v["ub"]), z(v["obj"])) for v in o["vars"]) + "]"
    cs = "[" + "; ".join("mkCo %s %s %s %s" % (cn(c["name"]), bnd(c["lb"]), bnd(c["ub"]), terms(c["coefs"]))
                         for c in o["cons"]) + "]"
    return "(mkO %s %s %s %s %s %s %s %d %s)" % (rx, mt, vs, cs, bt(o["dir"] == "max"), bt(o["exact"]), bt(o["shape"]),
                                                   o["depth"], res_name(o["res"]))


def rm_term(rm):
    rx = "[" + "; ".join("mkRR %d (%s, %s) %s" % (x["id"], z(x["lb"]), z(x["ub"]), zz(x["sto"])) for x in rm["rxns"]) + "]"
    mets = sorted({m for x in rm["rxns"] for m, _ in x["sto"]} | set(rm.get("mets", [])))
    uv = "[" + "; ".join("(%d, (%s, %s))" % (k, bnd(lb), bnd(ub)) for k, lb, ub in rm.get("uvars", [])) + "]"
    uc = "[" + "; ".join("(%d, (%s, %s), %s)" % (k, bnd(lb), bnd(ub), terms(t)) for k, lb, ub, t in rm.get("ucons", [])) + "]"
    return "(mkRM %s %s %s %s %s %s)" % (rx, zl(mets), uv, uc, zz(rm.get("obj", [])), bt(rm.get("dir", "max") == "max"))


def op_term(o):
    n, a = o[0], o[1:]
    if n == "AddUserVar":
        return "(AddUserVar %d %s %s)" % (a[0], bnd(a[1]), bnd(a[2]))
    if n == "AddUserCons":
        return "(AddUserCons %d %s %s %s)" % (a[0], bnd(a[1]), bnd(a[2]), terms(a[3]))
    if n in ("RemoveUserVar", "RemoveUserCons", "RemoveVarByName", "RemoveConsByName"):
        return "(%s %d)" % (n, a[0])
    if n == "AddRxn":
        return "(AddRxn %d %s %s %s)" % (a[0], z(a[1]), z(a[2]), zz(a[3]))
    if n == "RemoveRxn":
        return "(RemoveRxn %d)" % a[0]
    if n == "SetBounds":
        return "(SetBounds %d %s %s)" % (a[0], z(a[1]), z(a[2]))
    if n == "SetObj":
        return "(SetObj %s)" % zz(a[0])
    if n == "SetDir":
        return "(SetDir %s)" % bt(a[0] == "max")
    if n == "SwitchSolver":
        return "(SwitchSolver %s)" % bt(a[0] == "glpk_exact")
    if n == "Merge":
        return "(Merge %s %s %d %s)" % (rm_term(a[0]), bt(a[1]), a[2], bt(a[3]))
    raise ValueError(n)


def cop_term(o):
    return o[0] if o[0] in ("Enter", "Exit") else "(Do %s)" % op_term(o)


def universe(case, obs0, steps, filled):
    R, Mm, V, C = set(), set(), set(), set()

    def of_obs(ob):
        for r in ob["rx"]:
            R.add(r["id"])
            Mm.update(m for m, _ in r["st"])
        for m in ob["mt"]:
            Mm.add(m["id"])
            R.update(m["back"])
        for v in ob["vars"]:
            (V if v["name"][0] == "U" else R).add(v["name"][1])
        for c in ob["cons"]:
            (C if c["name"][0] == "U" else Mm).add(c["name"][1])
            for w, _ in c["coefs"]:
                (V if w[0] == "U" else R).add(w[1])
        if "aux" in ob:
            of_obs(ob["aux"])
    of_obs(obs0)
    for ob in steps:
        of_obs(ob)
    for o in filled:
        n = o[0]
        if n in ("AddUserVar", "RemoveUserVar", "RemoveVarByName"):
            V.add(o[1])
        elif n in ("AddUserCons", "RemoveUserCons", "RemoveConsByName"):
            C.add(o[1])
            if n == "AddUserCons":
                for w, _ in o[4]:
                    (V if w[0] == "U" else R).add(w[1])
        elif n in ("AddRxn", "RemoveRxn", "SetBounds"):
            R.add(o[1])
            if n == "AddRxn":
                Mm.update(m for m, _ in o[4])
        elif n == "SetObj":
            R.update(r for r, _ in o[1])
        elif n == "Merge":
            rm = o[1]
            for x in rm["rxns"]:
                R.update([x["id"], x["id"] + PFX])
                Mm.update(m for m, _ in x["sto"])
            Mm.update(rm.get("mets", []))
            V.update(k for k, _, _ in rm.get("uvars", []))
            C.update(k for k, _, _, _ in rm.get("ucons", []))
    return "(mkU %s %s %s %s)" % (zl(sorted(R)), zl(sorted(Mm)), zl(sorted(V)), zl(sorted(C)))


def case_term(case):
    obs0, steps, filled = run_case(case)
    st = "; ".join("(%s, %s, [%s])" % (cop_term(o), obs_term(s), obs_term(s["aux"]) if "aux" in s else "")
                   for o, s in zip(filled, steps))
    return "(%s, %s, [%s])" % (universe(case, obs0, steps, filled), obs_term(obs0), st), (obs0, steps)


# ------------------------------------------------------------------ generator
BNDS = [(0, 10), (0, 5), (-5, 10), (-10, 0), (-4, 4), (2, 8), (-8, -1), (0, 0), (3, 3)]
UB = [None, 0, 1, 3, 5, 9, -1, -2]
NR, NM, NK = 7, 7, 4


def gen_sto(rng, mets=None):
    ms = rng.sample(range(NM) if mets is None else mets, rng.choice([1, 2, 2, 3]))
    return sorted([m, rng.choice([-2, -1, -1, 1, 1, 2, 3])] for m in ms)


def gen_bounds(rng):
    lo, hi = rng.choice(UB), rng.choice(UB)
    if lo is not None and hi is not None and lo > hi:
        lo, hi = hi, lo
    return lo, hi


def gen_right(rng, im):
    """A right model that overlaps the left one: reactions whose identifier exists (same or different content), new ones,
    shared and new metabolites, a metabolite without reactions, user items of the same and of new names."""
    M = im.model
    left_r = sorted(dec_r(r.id) for r in M.reactions if dec_r(r.id) is not None and dec_r(r.id) < PFX)
    ids = []
    for _ in range(rng.choice([1, 2, 2, 3])):
        if left_r and rng.random() < 0.45:
            r = rng.choice(left_r)
        else:
            r = rng.randrange(NR)
        if r not in ids:
            ids.append(r)
    rxns = []
    for r in ids:
        lb, ub = rng.choice(BNDS)
        x = {"id": r, "lb": lb, "ub": ub, "sto": gen_sto(rng)}
        if rid(r) in M.reactions and rng.random() < 0.3:       # the very same content as the left reaction
            lr = M.reactions.get_by_id(rid(r))
            x = {"id": r, "lb": int(lr._lower_bound), "ub": int(lr._upper_bound),
                 "sto": sorted([dec_num("M", m.id), int(c)] for m, c in lr._metabolites.items())}
        if rng.random() < 0.3:
            x["genes"] = sorted(rng.sample(range(3), rng.choice([1, 2])))
        rxns.append(x)
    used = {m for x in rxns for m, _ in x["sto"]}
    rm = {"solver": rng.choice(SOLVERS), "rxns": rxns,
          "mets": [m for m in range(NM) if m not in used and rng.random() < 0.12],
          "uvars": [], "ucons": [], "obj": [], "dir": rng.choice(["max", "max", "min"])}
    for k in rng.sample(range(NK), rng.choice([0, 1, 1, 2])):
        lo, hi = gen_bounds(rng)
        rm["uvars"].append([k, lo, hi])
    pool = [["F", r] for r in ids] + [["R", r] for r in ids] + [["U", k] for k, _, _ in rm["uvars"]]
    for k in rng.sample(range(NK), rng.choice([0, 1, 1, 2])):
        vs = rng.sample(pool, min(len(pool), rng.choice([1, 2, 3])))
        lo, hi = gen_bounds(rng)
        rm["ucons"].append([k, lo, hi, [[v, rng.choice([-2, -1, 1, 2, 3])] for v in vs]])
    if rng.random() < 0.7:
        rm["obj"] = [[rng.choice(ids), rng.choice([1, 1, 2, -1])]]
    return rm


def gen_history(rng, length, solver="glpk", ctx=False, avoid=False, odd_p=0.15, weights=None, avoid_merge=False):
    """Draw a history while executing it on the real implementation.  avoid: never generate an operation that runs into a
    known C03 finding of the code under test (C01 / C02 runs); otherwise such operations are seldom."""
    im = Impl(solver)
    M = im.model
    ops = []
    depth, blocks = 0, 0
    state = {"stop": False}

    def do(o):
        nonlocal depth
        if not precond(im, o, in_block=depth > 0):
            return False
        t = trigger(im, o, depth)
        if t and (avoid or rng.random() < 0.75):
            return False
        if merge_trigger(im, o) and (avoid_merge or rng.random() < 0.7):
            return False            # (findings of merge as found belong to C01 / C02: never in the C03 run)
        res = im.apply(o)
        ops.append(o)
        if o[0] == "Enter":
            depth += 1
        elif o[0] == "Exit":
            depth -= 1
            if res != "Ok":
                state["stop"] = True
        return True

    def model_r():
        return sorted(dec_r(r.id) for r in M.reactions if dec_r(r.id) is not None)

    def vars_now():
        M.solver.update()
        return [dec_var(v.name) for v in M.variables if dec_var(v.name)]

    def ucons_now():
        M.solver.update()
        return [dec_con(c.name)[1] for c in M.constraints if dec_con(c.name) and dec_con(c.name)[0] == "U"]

    def uvars_now():
        return [v[1] for v in vars_now() if v[0] == "U"]

    # a small model first (ordinary, recorded operations)
    for r in rng.sample(range(NR), rng.choice([2, 3, 3, 4])):
        lb, ub = rng.choice(BNDS)
        do(["AddRxn", r, lb, ub, gen_sto(rng, range(5))])
    if rng.random() < 0.8:
        do(["AddUserVar", rng.randrange(NK)] + list(gen_bounds(rng)))
    W = {"AddUserVar": 8, "AddUserCons": 16, "RemoveUserVar": 4, "RemoveUserCons": 5, "RemoveVarByName": 3, "RemoveConsByName": 4,
         "AddRxn": 9, "RemoveRxn": 10, "SetBounds": 7, "SetObj": 6, "SetDir": 3, "SwitchSolver": 12, "Merge": 9}
    W.update(weights or {})
    names = [n for n, w in W.items() for _ in range(w)]
    def gen_step():
        nonlocal blocks
        if ctx:
            x = rng.random()
            if x < 0.16 and depth < 2 and blocks < 3:
                do(["Enter"])
                blocks += 1
                return False
            if x < 0.28 and depth > 0 and ops[-1][0] != "Enter":
                do(["Exit"])
                return False
        n = rng.choice(names)
        odd = rng.random() < odd_p
        o = None
        if n == "AddUserVar":
            free = [k for k in range(NK) if k not in uvars_now()]
            if free:
                o = ["AddUserVar", rng.choice(free)] + list(gen_bounds(rng))
        elif n == "AddUserCons":
            free = [k for k in range(NK) if k not in ucons_now()]
            pool = vars_now()
            if free and pool:
                # prefer a constraint over both variables of a reaction and a user variable
                vs = []
                mr = [r for r in model_r()]
                if mr and rng.random() < 0.8:
                    r = rng.choice(mr)
                    vs += [["F", r]] + ([["R", r]] if rng.random() < 0.7 else [])
                uvs = [v for v in pool if v[0] == "U"]
                if uvs and rng.random() < 0.6:
                    vs.append(rng.choice(uvs))
                if not vs or rng.random() < 0.3:
                    v = rng.choice(pool)
                    if v not in vs:
                        vs.append(v)
                lo, hi = gen_bounds(rng)
                o = ["AddUserCons", rng.choice(free), lo, hi, [[v, rng.choice([-3, -2, -1, 1, 2, 3])] for v in vs],
                     rng.random() < 0.3]
        elif n in ("RemoveUserVar", "RemoveUserCons"):
            have = uvars_now() if n == "RemoveUserVar" else ucons_now()
            if have:
                o = [n, rng.choice(have)]
        elif n in ("RemoveVarByName", "RemoveConsByName"):
            have = uvars_now() if n == "RemoveVarByName" else ucons_now()
            if odd or not have:
                o = [n, rng.randrange(NK + 1)]                # possibly absent, or removed before: LookupError
            else:
                o = [n, rng.choice(have)]
        elif n == "AddRxn":
            back = [r for r, x in im.rx.items() if x._model is None]
            free = [r for r in range(NR) if r not in im.rx and rid(r) not in M.reactions]
            if back and rng.random() < 0.55:
                r = rng.choice(back)
                o = im.filled(["AddRxn", r, 0, 0, []])
            elif odd and model_r():
                r = rng.choice([r for r in model_r() if r < PFX] or [0])       # identifier exists: ignored
                if r not in im.rx:
                    lb, ub = rng.choice(BNDS)
                    o = ["AddRxn", r, lb, ub, gen_sto(rng)]
                else:
                    o = im.filled(["AddRxn", r, 0, 0, []])
            elif free:
                lb, ub = rng.choice(BNDS)
                o = ["AddRxn", rng.choice(free), lb, ub, gen_sto(rng)]
        elif n == "RemoveRxn":
            mr = model_r()
            if mr:
                # prefer a reaction a user constraint mentions
                used = [r for r in mr if im.user_rows_using([rid(r), _reverse_id(rid(r))])]
                pool = used if (used and rng.random() < 0.6) else mr
                o = ["RemoveRxn", rng.choice(pool), rng.choice(["obj", "obj", "id"])]
            if odd and im.rx and depth == 0:
                out = [r for r, x in im.rx.items() if x._model is None]
                if out:
                    o = ["RemoveRxn", rng.choice(out), "obj"]        # not in the model: a warning
        elif n == "SetBounds":
            mr = model_r()
            if mr:
                lb, ub = rng.choice(BNDS)
                if odd:
                    lb, ub = 5, 1                                  # ValueError
                o = ["SetBounds", rng.choice(mr), lb, ub]
        elif n == "SetObj":
            mr = model_r()
            if mr:
                o = ["SetObj", [[r, rng.choice([1, 1, 2, -1, 3])] for r in rng.sample(mr, min(len(mr), rng.choice([1, 1, 2])))]]
        elif n == "SetDir":
            o = ["SetDir", rng.choice(["max", "min"])]
        elif n == "SwitchSolver":
            cur = "glpk_exact" if M.solver.interface.__name__.endswith("glpk_exact_interface") else "glpk"
            other = "glpk" if cur == "glpk_exact" else "glpk_exact"
            o = ["SwitchSolver", cur if odd else other, rng.choice(["str", "str", "module"])]
        elif n == "Merge":
            rm = gen_right(rng, im)
            o = ["Merge", rm, rng.random() < 0.45, rng.choice([0, 0, 1, 2, 2]), rng.random() < 0.75]
        if o is None:
            return False
        do(o)

        return False

    guard = 0
    while len(ops) < length and guard < length * 25 and not state["stop"]:
        guard += 1
        try:
            stop = gen_step()
        except Exception:  # noqa  -- the implementation under test left the solver unreadable: the history ends here
            break
        if stop:
            break
    while depth > 0:
        try:
            im.apply(["Exit"])
        except Exception:  # noqa
            pass
        ops.append(["Exit"])
        depth -= 1
    return {"solver": solver, "ops": ops}


# ------------------------------------------------------------------ evaluation, signatures, shrinking
def evaluate(cases):
    terms_, impl, idx = [], [], []
    for i, c in enumerate(cases):
        try:
            t, ob = case_term(c)
        except InvalidCase:
            impl.append(None)
            continue
        terms_.append(t)
        impl.append(ob)
        idx.append(i)
    res, faults = K.coq_eval_cases(HEADER, terms_, CASE_TYPE, "failing %s" % variant_term(), shard=12, timeout=900)
    out = {idx[i]: [tuple(x) for x in lst] for i, lst in res}
    for i, ob in enumerate(impl):
        if ob is None:
            continue
        extra = [(n + 1, 7) for n, st in enumerate(ob[1]) if st.get("py_fail")]
        if extra:
            out[i] = sorted(set(out.get(i, []) + extra))
    return out, faults, impl


def block_start(ops, step):
    """Index (0-based) of the Enter matching the Exit at position step (1-based)."""
    d = 0
    for j in range(step - 1, -1, -1):
        d += 1 if ops[j][0] == "Exit" else (-1 if ops[j][0] == "Enter" else 0)
        if d == 0:
            return j
    return None


def diff_classes(a, b):
    """In what two observations differ (a: at __enter__, b: after __exit__)."""
    out = set()
    if a["rx"] != b["rx"]:
        out.add("reactions")
    if a["mt"] != b["mt"]:
        out.add("metabolites")
    if a["vars"] != b["vars"]:
        out.add("columns")
    ra, rb = {json.dumps(c["name"]): c for c in a["cons"]}, {json.dumps(c["name"]): c for c in b["cons"]}
    if set(ra) != set(rb):
        out.add("rows")
    for k in set(ra) & set(rb):
        if (ra[k]["lb"], ra[k]["ub"]) != (rb[k]["lb"], rb[k]["ub"]):
            out.add("rows")
        elif ra[k]["coefs"] != rb[k]["coefs"]:
            out.add("user-row-terms" if ra[k]["name"][0] == "U" else "rows")
    if a["dir"] != b["dir"]:
        out.add("direction")
    if a["exact"] != b["exact"]:
        out.add("interface")
    if a["shape"] != b["shape"]:
        out.add("shape")
    return sorted(out)


def classify(case, impl_case, first, codes):
    """The class of a failure at step `first` (1-based; 0 = initial) with these codes."""
    obs0, steps = impl_case
    seq = [obs0] + steps
    o = case["ops"][first - 1] if first >= 1 else ["init"]
    ob = seq[first]
    info = {}
    if o[0] == "Exit" and (4 in codes or 5 in codes):
        st = block_start(case["ops"], first)
        inner = case["ops"][st + 1:first - 1] if st is not None else []
        entry = seq[st] if st is not None else obs0          # the observation before the Enter
        d = diff_classes(entry, ob)
        info["differs_in"] = d
        # a solver switch inside the block (or an enclosing open one) after something was recorded
        sw = False
        rec = 0
        for p in case["ops"][:first - 1]:
            if p[0] == "SwitchSolver" and rec > 0:
                sw = True
            if p[0] not in ("Enter", "Exit"):
                rec += 1
        has_switch = any(p[0] == "SwitchSolver" for p in inner)
        removed_var = any(p[0] in ("RemoveRxn", "RemoveUserVar", "RemoveVarByName", "Merge") for p in inner)
        if has_switch and sw and not VARIANT["switch_ctx"]:
            return "switch-in-context", info
        if d == ["user-row-terms"] and removed_var and ob["res"] == "Ok":
            return "row_terms", info
        return "block:" + ",".join(d or ["exit-raised"]), info
    if o[0] == "Merge":
        tgt = ob.get("aux", ob) if not o[4] else ob
        if 3 in codes and any(m["foreign"] for m in tgt["mt"]):
            return "merge-stale-back-reference", info
        if 2 in codes:
            mets = {m["id"] for m in tgt["mt"]}
            if any(c["name"][0] == "M" and c["name"][1] not in mets for c in tgt["cons"]):
                return "merge-foreign-metabolite-row", info
        if 7 in codes and o[3] == 2 and not ob.get("py_fail"):
            return "merge-sum-direction", info
        if 2 in codes and not o[4] and o[3] == 0 and ob.get("why") == ["objective-not-owned"]:
            return "merge-shares-left-objective", info
    return "other", info


REPAIRED_KEY = {"switch-in-context": "switch_ctx", "row_terms": "row_terms", "merge-stale-back-reference": "merge_back",
                "merge-foreign-metabolite-row": "merge_rows", "merge-sum-direction": "merge_sumdir",
                "merge-shares-left-objective": "merge_objshare"}


def make_sig(case, impl_case, lst, own):
    mine = [(s, c) for s, c in lst if c in own]
    first = min(s for s, _ in mine)
    codes = sorted({c for s, c in mine if s == first})
    cls, info = classify(case, impl_case, first, codes)
    o = case["ops"][first - 1] if first >= 1 else ["init"]
    sig = {"kernel": "extras", "code": codes[0], "codes_at_step": codes, "op": o[0], "class": cls}
    if cls in REPAIRED_KEY:
        # a known finding is only recognised while the probe says that its code path is NOT repaired
        sig["repaired"] = bool(VARIANT[REPAIRED_KEY[cls]])
    sig.update(info)
    return sig


def cut_after(case, step):
    ops = case["ops"][:max(step, 1)]
    d = sum(1 if o[0] == "Enter" else (-1 if o[0] == "Exit" else 0) for o in ops)
    return {"solver": case["solver"], "ops": ops + [["Exit"]] * max(d, 0)}


def simpler(case):
    ops = case["ops"]
    n = len(ops)
    out = []
    for i in range(n - 1):
        if ops[i][0] not in ("Enter", "Exit"):
            out.append(ops[:i] + ops[i + 1:])
    for i, o in enumerate(ops):
        if o[0] == "Enter":
            d = 0
            for j in range(i, n):
                d += 1 if ops[j][0] == "Enter" else (-1 if ops[j][0] == "Exit" else 0)
                if d == 0:
                    out.append([x for t, x in enumerate(ops) if t not in (i, j)])
                    break
        if o[0] == "AddUserCons" and len(o[4]) > 1:
            for j in range(len(o[4])):
                out.append(ops[:i] + [o[:4] + [o[4][:j] + o[4][j + 1:]] + o[5:]] + ops[i + 1:])
        if o[0] == "Merge":
            rm = o[1]
            for key in ("rxns", "mets", "uvars", "ucons", "obj"):
                for j in range(len(rm.get(key, []))):
                    rm2 = dict(rm)
                    rm2[key] = rm[key][:j] + rm[key][j + 1:]
                    if rm2["rxns"]:
                        out.append(ops[:i] + [["Merge", rm2] + o[2:]] + ops[i + 1:])
    res = [{"solver": case["solver"], "ops": x} for x in out if x is not None]
    if case["solver"] != "glpk":
        res.append({"solver": "glpk", "ops": ops})
    return res


def kind_of(sig):
    return (sig["op"], tuple(sig["codes_at_step"]), sig["class"])


def shrink(case, own, kind, rounds=25):
    def fails(c, lst, ob):
        if ob is None or not any(c_ in own for _, c_ in lst):
            return None
        sig = make_sig(c, ob, lst, own)
        if kind_of(sig) != kind:
            return None
        first = min(s for s, c_ in lst if c_ in own)
        return cut_after(c, first)
    cur = case
    r, f, im = evaluate([cur])
    if f or 0 not in r:
        return cur
    got = fails(cur, r[0], im[0])
    if got is None:
        return cur
    cur = got
    for _ in range(rounds):
        cands = simpler(cur)
        if not cands:
            break
        try:
            r, f, im = evaluate(cands)
        except Exception:  # noqa
            break
        if f:
            break
        got = None
        for i in sorted(r):
            got = fails(cands[i], r[i], im[i])
            if got is not None:
                break
        if got is None or got == cur:
            break
        cur = got
    return cur


def python_lines(case):
    out = ["model = cobra.Model('left'); model.solver = %r" % case.get("solver", "glpk")]
    for o in case["ops"]:
        n, a = o[0], o[1:]
        if n == "AddUserVar":
            out.append("x%d = model.problem.Variable('x%d', lb=%r, ub=%r); model.add_cons_vars([x%d])" % (a[0], a[0], a[1], a[2], a[0]))
        elif n == "AddUserCons":
            e = " + ".join("%d*model.variables[%r]" % (c, var_name(v)) for v, c in a[3])
            out.append("uc%d = model.problem.Constraint(%s, lb=%r, ub=%r, name='uc%d'%s); model.add_cons_vars([uc%d]%s)" % (
                a[0], e, a[1], a[2], a[0], ", sloppy=True" if (len(a) > 4 and a[4]) else "", a[0],
                ", sloppy=True" if (len(a) > 4 and a[4]) else ""))
        elif n == "RemoveUserVar":
            out.append("model.remove_cons_vars([model.variables['x%d']])" % a[0])
        elif n == "RemoveUserCons":
            out.append("model.remove_cons_vars([model.constraints['uc%d']])" % a[0])
        elif n == "RemoveVarByName":
            out.append("model.remove_cons_vars(['x%d'])" % a[0])
        elif n == "RemoveConsByName":
            out.append("model.remove_cons_vars(['uc%d'])" % a[0])
        elif n == "AddRxn":
            out.append("model.add_reactions([%s])   # the object kept from before if any, else bounds (%d, %d), %s" % (
                rid(a[0]), a[1], a[2], {("M%d" % m): c for m, c in a[3]}))
        elif n == "RemoveRxn":
            out.append("model.remove_reactions([%s])" % (repr(rid(a[0])) if a[1] == "id" else "model.reactions." + rid(a[0])))
        elif n == "SetBounds":
            out.append("model.reactions.%s.bounds = (%d, %d)" % (rid(a[0]), a[1], a[2]))
        elif n == "SetObj":
            out.append("model.objective = {%s}" % ", ".join("model.reactions.%s: %d" % (rid(r), c) for r, c in a[0]))
        elif n == "SetDir":
            out.append("model.objective_direction = %r" % a[0])
        elif n == "SwitchSolver":
            out.append("model.solver = %s" % (repr(a[0]) if (len(a) < 2 or a[1] == "str") else "optlang.%s_interface" % a[0]))
        elif n == "Merge":
            out.append("model.merge(right, prefix_existing=%r, inplace=%r, objective=%r)   # right: see the case" % (
                "p_" if a[1] else None, bool(a[3]), ("left", "right", "sum")[a[2]]))
        elif n == "Enter":
            out.append("model.__enter__()")
        elif n == "Exit":
            out.append("model.__exit__(None, None, None)")
    return out


HOW_TO_READ = ("reaction r = 'R<r>' (r >= 1000: prefixed 'p_'), metabolite m = 'M<m>', user variable k = 'x<k>', user constraint "
               "k = 'uc<k>'; a solver variable is ['F', r] forward / ['R', r] reverse / ['U', k]; a row ['M', m] / ['U', k]; an "
               "observation lists model.reactions (bounds, stoichiometry), model.metabolites (back = ids of m._reaction, "
               "foreign = those that are not the model's object), the raw GLPK columns (bounds, objective coefficient) and "
               "rows (bounds, coefficients), direction, interface (exact), shape (identity / optlang-view flags), aux = the "
               "model returned by merge(inplace=False); codes: see harness/extras.py CODES and coq/theories/Extras/Check.v")


def load_corpus(d):
    out = []
    if os.path.isdir(d):
        for f in sorted(os.listdir(d)):
            if f.endswith(".json"):
                out.append(json.load(open(os.path.join(d, f)))["case"])
    return out


def fault(rep, faults, what):
    print("HARNESS FAULT (extras kernel%s): model evaluation failed:\n" % what + "\n".join(faults[:3]))
    rep.violation({"broken": True, "kernel": "extras"},
                  {"kernel": "extras", "broken_obligations": ["model evaluation (coqc on generated cases) failed: " +
                                                              faults[0][-800:]],
                   "note": "the correspondence machinery of the extras kernel no longer runs; no failing input found"},
                  no_input=True)


def report(rep, args, cases, res, impl, own, prop):
    seen, reported, n_fail, n_new = set(), [], 0, 0
    for idx in sorted(res):
        mine = [(s, c) for s, c in res[idx] if c in own]
        if not mine or impl[idx] is None:
            continue
        n_fail += 1
        sig0 = make_sig(cases[idx], impl[idx], res[idx], own)
        key = json.dumps(sig0, sort_keys=True)
        if key in seen:
            continue
        seen.add(key)
        if any(K.matches(f["signature"], sig0) for f in getattr(rep, "findings", [])):
            reported.append({"signature": sig0, "status": rep.violation(sig0, {"kernel": "extras", "case": cases[idx]})})
            continue
        n_new += 1
        if n_new > 6:
            continue
        small = cases[idx] if args.replay else shrink(cases[idx], own, kind_of(sig0))
        r2, _, impl2 = evaluate([small])
        lst2 = [(s, c) for s, c in (r2.get(0) or []) if c in own]
        if impl2[0] is None or not lst2:
            small, impl2, lst2 = cases[idx], [impl[idx]], mine
        sig = make_sig(small, impl2[0], lst2, own)
        replay = {"kernel": "extras", "case": small, "failed": CODES.get(sig["code"], str(sig["code"])),
                  "failing_steps": lst2, "variant_under_test": dict(VARIANT),
                  "implementation_observation": {"initial": impl2[0][0], "after_each_op": impl2[0][1]},
                  "python": python_lines(small), "how_to_read": HOW_TO_READ,
                  "theorem": "coq/theories/Properties/%s.v (Module ExtrasKernel)" % prop}
        reported.append({"signature": sig, "status": rep.violation(sig, replay)})
    return n_fail, reported


def _run(rep, args, rng, prop, own, sizes, ctx, avoid, weights=None, avoid_merge=False):
    t0 = time.time()
    probe_variant()
    n_corpus = 0
    if args.replay:
        data = json.load(open(args.replay))
        if data.get("kernel") != "extras":
            return {"skipped": "replay of a case of another kernel"}
        cases = [data["case"]]
    else:
        n, L = sizes[0] if args.tier == "quick" else sizes[1]
        cases = load_corpus(CORPUS[prop])
        n_corpus = len(cases)
        for i in range(n):
            cases.append(gen_history(rng, rng.randrange(5, L + 1), solver=SOLVERS[i % 2], ctx=ctx, avoid=avoid, weights=weights,
                                     avoid_merge=avoid_merge))
    res, faults, impl = evaluate(cases)
    if faults:
        fault(rep, faults, " " + prop)
    op_hist, res_hist, in_block = {}, {}, {}
    feat = {"steps_observed": 0, "blocks_closed": 0, "nested_blocks_entered": 0, "switch_to_other_interface": 0,
            "switch_to_same_interface": 0, "switch_inside_block": 0, "switch_with_user_items": 0,
            "remove_reaction_used_by_user_constraint": 0, "readd_removed_reaction": 0, "remove_by_name_absent": 0,
            "merge_overlapping_id": 0, "merge_prefixed": 0, "merge_same_name_user_item": 0, "merge_not_inplace": 0,
            "merge_mode": {"0": 0, "1": 0, "2": 0}, "merge_right_other_interface": 0, "edit_after_switch": 0,
            "histories_outside_domain": 0, "max_user_items": 0}
    distinct = set()
    for c, ob in zip(cases, impl):
        if ob is None:
            feat["histories_outside_domain"] += 1
            continue
        distinct.add(json.dumps(c, sort_keys=True))
        prev = ob[0]
        d, switched, removed = 0, False, set()
        for o, s in zip(c["ops"], ob[1]):
            feat["steps_observed"] += 1
            op_hist[o[0]] = op_hist.get(o[0], 0) + 1
            res_hist[res_name(s["res"])] = res_hist.get(res_name(s["res"]), 0) + 1
            nuser = sum(1 for v in s["vars"] if v["name"][0] == "U") + sum(1 for x in s["cons"] if x["name"][0] == "U")
            feat["max_user_items"] = max(feat["max_user_items"], nuser)
            if o[0] == "Enter":
                d += 1
                feat["nested_blocks_entered"] += d >= 2
            elif o[0] == "Exit":
                d -= 1
                feat["blocks_closed"] += 1
            else:
                if d > 0:
                    in_block[o[0]] = in_block.get(o[0], 0) + 1
                if switched and o[0] in ("SetBounds", "AddRxn", "RemoveRxn", "AddUserCons", "AddUserVar", "SetObj"):
                    feat["edit_after_switch"] += 1
            if o[0] == "SwitchSolver":
                same = prev["exact"] == (o[1] == "glpk_exact")
                feat["switch_to_same_interface" if same else "switch_to_other_interface"] += 1
                feat["switch_inside_block"] += d > 0 and not same
                feat["switch_with_user_items"] += (not same) and any(x["name"][0] == "U" for x in prev["cons"])
                switched = switched or not same
            elif o[0] == "RemoveRxn":
                used = any(x["name"][0] == "U" and any(w[1] == o[1] and w[0] in "FR" for w, _ in x["coefs"]) for x in prev["cons"])
                feat["remove_reaction_used_by_user_constraint"] += used
                removed.add(o[1])
            elif o[0] == "AddRxn":
                feat["readd_removed_reaction"] += o[1] in removed
            elif o[0] in ("RemoveVarByName", "RemoveConsByName"):
                feat["remove_by_name_absent"] += s["res"] != "Ok"
            elif o[0] == "Merge":
                rm = o[1]
                have = {r["id"] for r in prev["rx"]}
                feat["merge_overlapping_id"] += any(x["id"] in have for x in rm["rxns"])
                feat["merge_prefixed"] += bool(o[2]) and any(x["id"] in have for x in rm["rxns"])
                uk = {v["name"][1] for v in prev["vars"] if v["name"][0] == "U"}
                ck = {x["name"][1] for x in prev["cons"] if x["name"][0] == "U"}
                feat["merge_same_name_user_item"] += any(k in uk for k, _, _ in rm["uvars"]) or any(k in ck for k, _, _, _ in rm["ucons"])
                feat["merge_not_inplace"] += not o[4]
                feat["merge_mode"][str(o[3])] += 1
                feat["merge_right_other_interface"] += (rm.get("solver") == "glpk_exact") != prev["exact"]
            prev = s
    n_fail, reported = report(rep, args, cases, res, impl, own, prop)
    return {"histories": len(cases), "distinct_histories": len(distinct), "corpus_cases": n_corpus,
            "variant_under_test": dict(VARIANT), "codes_reported": sorted(own), "op_distribution": op_hist,
            "ops_inside_blocks": in_block, "result_distribution": res_hist, "features": feat, "histories_failing": n_fail,
            "reported": reported, "samples": [cases[i] for i in sorted({0, len(cases) // 2, len(cases) - 1})] if cases else [],
            "rule": "random histories over the op kernel of coq/theories/Extras/Model.v (user variables and constraints over "
                    "forward / reverse / user variables, removal by object and by name incl. absent names and names removed "
                    "before, reactions removed and added again while user constraints mention them, bounds / objective / "
                    "direction edits, switching the solver interface incl. to the one in use and inside blocks, merge with "
                    "overlapping identifiers, shared and new metabolites, user items of the same name, prefix_existing, each "
                    "objective mode, inplace True / False, right models on either interface), drawn while executing on the "
                    "real Model, both interfaces; after EVERY step the raw GLPK problem, the optlang view (every reaction's "
                    "variables / every metabolite's constraint / the objective belong to model.solver) and the object graph "
                    "are observed", "run_s": round(time.time() - t0, 1)}


def run_c01(rep, args, rng):
    """C01: the solver is the flux-balance problem of the content plus what the user added; codes 1, 2, 8."""
    return _run(rep, args, rng, "C01", {1, 2, 8}, ((200, 13), (4000, 26)), ctx=True, avoid=True,
                weights={"SwitchSolver": 16, "AddUserCons": 18, "Merge": 12})


def run(rep, args, rng):
    """C02: edits do what they document, cross references stay consistent; codes 1, 3, 7."""
    return _run(rep, args, rng, "C02", {1, 3, 7}, ((200, 12), (4000, 24)), ctx=False, avoid=True,
                weights={"Merge": 22, "RemoveRxn": 12, "AddRxn": 12})


def run_ctx(rep, args, rng):
    """C03: leaving a block restores the model; codes 4, 5."""
    return _run(rep, args, rng, "C03", {4, 5}, ((160, 16), (4000, 30)), ctx=True, avoid=False, avoid_merge=True)


if __name__ == "__main__":
    # stand-alone run of the extras kernel only (no proof gate): EXTRAS_PROP=C01|C02|C03 harness/extras.py [--tier ..] [--seed ..]
    import random
    a = K.parse_args()
    ok, out = K.build(EXTRA_TARGETS)
    if not ok:
        print(out[-2000:])
        sys.exit(2)
    prop = os.environ.get("EXTRAS_PROP", "C01")

    class _Rep:
        violations = 0
        known = set()
        findings = K.load_findings(prop)

        def violation(self, sig, replay, no_input=False):
            for f in self.findings:
                if not no_input and K.matches(f["signature"], sig):
                    self.known.add(f["key"])
                    return "known"
            self.violations += 1
            print("VIOLATION(extras, stand-alone)", json.dumps(sig), json.dumps(replay.get("case")), replay.get("failing_steps"))
            print("   ", "\n    ".join(replay.get("python", [])))
            return "new"
    rp = _Rep()
    cov = {"C01": run_c01, "C02": run, "C03": run_ctx}[prop](rp, a, random.Random(a.seed))
    cov.pop("samples", None)
    cov["known_findings_seen"] = sorted(rp.known)
    print(json.dumps(cov, indent=1))
    sys.exit(1 if rp.violations else 0)
