"""C07 -- knock-outs disable exactly the reactions whose rule becomes false.

Real cobra Models (a few metabolites, 3-8 reactions with nested rules sharing genes) are driven with
Gene.knock_out / knock_out_model_genes / Reaction.knock_out / gene.functional=, inside and outside
`with model:`; every observation (all reaction bounds, gene.functional, reaction.functional, solver
variable bounds, returned reactions) is compared with the Gallina model (coq/theories/Knockout) and fed to
the Coq-defined monitor (truth-table evaluator) of coq/theories/Knockout/Check.v."""
import ast
import itertools
import json
import logging
import os
import random
import sys
import warnings
from fractions import Fraction

sys.path.insert(0, os.path.dirname(os.path.abspath(__file__)))
import common as K  # noqa: E402
from common import C, Raw, Some, coq  # noqa: E402
import c08  # noqa: E402  (tree helpers: canon_print, rand_tree, tree_term, zs, dump)

sys.path.insert(0, os.path.join(K.REPO, "src"))

PROP = "C07"

# case: {"rxns": [{"rule": tree|None, "lb": "p/q", "ub": "p/q"}...], "pre": [gene ids set non-functional
#        through the plain setter before anything else], "ctx": bool, "ops": [[name, arg]...]}
# ops: ["ko", gid] ["kom", [gid...], form] ["rko", index] ["setf", gid, bool]

BOUNDS = [("-1000", "1000"), ("0", "1000"), ("-10", "5"), ("0", "0"), ("2", "8"), ("-8", "-2"), ("1/2", "3/2"),
          ("-1000", "0"), ("-3/4", "0"), ("5", "5"), ("-3", "-3"), ("1/2", "1/2")]     # incl. fixed non-zero fluxes



def q(x):
    f = Fraction(x)
    return Raw("(%d # %d)%%Q" % (f.numerator, f.denominator))


def build(case):
    from cobra import Model, Reaction, Metabolite
    m = Model("m")
    mets = [Metabolite("m%d_c" % i, compartment="c") for i in range(3)]
    rxns = []
    for i, r in enumerate(case["rxns"]):
        rx = Reaction("R%d" % i)
        rx.add_metabolites({mets[i % 3]: -1, mets[(i + 1) % 3]: 1})
        rx.bounds = (float(Fraction(r["lb"])), float(Fraction(r["ub"])))
        rxns.append(rx)
    m.add_reactions(rxns)
    for rx, r in zip(rxns, case["rxns"]):
        if r["rule"] is not None:
            if case.get("rule_as") == "gpr":           # the documented alternative: a GPR object assigned to Reaction.gpr
                from cobra.core.gene import GPR
                rx.gpr = GPR.from_string(c08.canon_print(r["rule"]))
            else:
                rx.gene_reaction_rule = c08.canon_print(r["rule"])
    if case.get("prelude") == "rollback" and len(rxns) >= 1:
        # an earlier block that removed reactions (and knocked a gene out) and was rolled back: the model is as before
        order = [r.id for r in m.reactions]
        with m:
            m.remove_reactions(rxns[:2])
            if len(m.genes):
                m.genes[0].knock_out()
        if [r.id for r in m.reactions] != order:
            m.reactions.sort(key=lambda r: order.index(r.id))
    return m


def observe(m, ret=None):
    m.solver.update()
    idx = {r.id: i for i, r in enumerate(m.reactions)}
    return {
        "bounds": [[i, str(Fraction(r.lower_bound)), str(Fraction(r.upper_bound))] for i, r in enumerate(m.reactions)],
        "gfunc": [[g.id, bool(g.functional)] for g in m.genes],
        "rfunc": [[i, bool(r.functional)] for i, r in enumerate(m.reactions)],
        "vars": [[i, [str(Fraction(r.forward_variable.lb)), str(Fraction(r.forward_variable.ub))],
                  [str(Fraction(r.reverse_variable.lb)), str(Fraction(r.reverse_variable.ub))]]
                 for i, r in enumerate(m.reactions)],
        "ret": sorted(idx[r.id] for r in ret) if ret is not None else [],
    }


def init_state(m):
    idx = {r.id: i for i, r in enumerate(m.reactions)}
    return {"rxns": [[i, c08.dump(r.gpr.body), sorted(g.id for g in r.genes), str(Fraction(r.lower_bound)),
                      str(Fraction(r.upper_bound))] for i, r in enumerate(m.reactions)],
            "nonfunc": [g.id for g in m.genes if not g.functional],
            "grx": [[g.id, sorted(idx[r.id] for r in g.reactions)] for g in m.genes]}


def apply(m, o):
    from cobra.manipulation.delete import knock_out_model_genes
    if o[0] == "ko":
        m.genes.get_by_id(o[1]).knock_out()
        return None
    if o[0] == "kom":
        form = o[2]
        if form == "obj":
            arg = [m.genes.get_by_id(g) for g in o[1]]
        elif form == "idx":
            # positions; every second one counted from the end (negative, as for any Python sequence)
            arg = [m.genes.index(g) - (len(m.genes) if k % 2 else 0) for k, g in enumerate(o[1])]
        elif form.startswith("bare"):      # a single gene given without a list (DictList.get_by_any wraps it)
            g = o[1][0]
            arg = {"bare-id": g, "bare-obj": m.genes.get_by_id(g), "bare-idx": m.genes.index(g) - (len(m.genes) if len(g) % 2 else 0)}[form]
        else:
            arg = list(o[1])
        return knock_out_model_genes(m, arg)
    if o[0] == "rko":
        m.reactions[o[1]].knock_out()
        return None
    if o[0] == "setf":
        m.genes.get_by_id(o[1]).functional = bool(o[2])
        return None
    raise ValueError(o)


def run_impl(case):
    m = build(case)
    for g in case.get("pre", []):
        if g in m.genes:
            m.genes.get_by_id(g).functional = False
    init = init_state(m)
    ob0 = observe(m)
    steps = []

    def go():
        for o in case["ops"]:
            try:
                ret = apply(m, o)
                steps.append([o, observe(m, ret)])
            except Exception as e:  # noqa  -- an exception is an observation that never matches
                steps.append([o, {"bounds": [], "gfunc": [], "rfunc": [], "vars": [], "ret": [],
                                  "raised": type(e).__name__}])
    if case.get("ctx"):
        with m:
            go()
        steps.append([["restore"], observe(m)])
    else:
        go()
    return init, ob0, steps


def obs_term(ob):
    return C("mkObs", [(b[0], (q(b[1]), q(b[2]))) for b in ob["bounds"]],
             [(c08.zs(g), bool(f)) for g, f in ob["gfunc"]],
             [(i, bool(f)) for i, f in ob["rfunc"]],
             [(v[0], ((q(v[1][0]), q(v[1][1])), (q(v[2][0]), q(v[2][1])))) for v in ob["vars"]],
             list(ob["ret"]))


def op_term(o):
    if o[0] == "ko":
        return C("OKo", c08.zs(o[1]))
    if o[0] == "kom":
        return C("OKoModel", [c08.zs(g) for g in o[1]])
    if o[0] == "rko":
        return C("ORko", o[1])
    if o[0] == "setf":
        return C("OSetFunc", c08.zs(o[1]), bool(o[2]))
    if o[0] == "restore":
        return C("ORestore")
    raise ValueError(o)


def case_term(init, ob0, steps):
    st = C("mkS", [C("mkR", r[0], c08.rule_term(r[1]), [c08.zs(g) for g in r[2]], q(r[3]), q(r[4]))
                   for r in init["rxns"]],
           [c08.zs(g) for g in init["nonfunc"]],
           [(c08.zs(g), list(rs)) for g, rs in init["grx"]])
    return coq((st, obs_term(ob0), [(op_term(o), obs_term(ob)) for o, ob in steps]))


HEADER = """From Coq Require Import ZArith QArith List Bool.
From Cobra.GPR Require Import Syntax.
From Cobra.Knockout Require Import Model Check.
Import ListNotations.
Open Scope Z_scope."""

# ------------------------------------------------------------------ generators

GENE_POOL = ["g1", "g2", "b0003", "if", "4a.1", "x-y"]


def gen_network(rng):
    ng = rng.randrange(2, 7)
    genes = GENE_POOL[:ng]
    nr = rng.randrange(3, 9)
    rxns = []
    for i in range(nr):
        r = rng.random()
        if r < 0.15:
            rule = None
        elif r < 0.3:
            rule = rng.choice(genes)
        else:
            rule = c08.rand_tree(rng, genes, rng.randrange(3, 10))
        lb, ub = rng.choice(BOUNDS)
        rxns.append({"rule": rule, "lb": lb, "ub": ub})
    used = sorted({g for r in rxns for g in c08.genes_of(r["rule"])})
    if not used:
        rxns[0]["rule"] = ["And", genes[0], ["Or", genes[1], genes[0]]]
        used = sorted({g for r in rxns for g in c08.genes_of(r["rule"])})
    return rxns, used


def cases_for_network(rng, rxns, genes, quick):
    out = []
    subs = [list(c) for n in range(len(genes) + 1) for c in itertools.combinations(genes, n)]
    if quick and len(subs) > 20:
        subs = [[]] + rng.sample(subs[1:], 19)
    for S in subs:
        orders = [list(S)]
        for _ in range(2):
            p = list(S)
            rng.shuffle(p)
            orders.append(p)
        # one at a time, in three orders, outside / inside a context
        for k, order in enumerate(orders if len(S) > 1 else orders[:1]):
            out.append({"rxns": rxns, "pre": [], "ctx": (k % 2 == 1), "ops": [["ko", g] for g in order],
                        "kind": "one-at-a-time"})
        # all at once through knock_out_model_genes (ids / objects / indices)
        forms = ["id", "obj", "idx"] + (["bare-id", "bare-id", "bare-obj", "bare-idx"] if len(S) == 1 else [])
        out.append({"rxns": rxns, "pre": [], "ctx": rng.random() < 0.5,
                    "ops": [["kom", list(orders[-1]), rng.choice(forms)]], "kind": "all-at-once"})
    # mixed histories: pre-set flags, reaction knock-outs, flags switched back, repeated knock-outs
    for _ in range(3 if quick else 8):
        ops = []
        for _ in range(rng.randrange(2, 7)):
            r = rng.random()
            if r < 0.45:
                ops.append(["ko", rng.choice(genes)])
            elif r < 0.65:
                ops.append(["kom", rng.sample(genes, rng.randrange(1, len(genes) + 1)), rng.choice(["id", "obj", "idx"])])
            elif r < 0.85:
                ops.append(["rko", rng.randrange(len(rxns))])
            else:
                ops.append(["setf", rng.choice(genes), rng.random() < 0.5])
        out.append({"rxns": rxns, "pre": [g for g in genes if rng.random() < 0.2], "ctx": rng.random() < 0.5,
                    "ops": ops, "kind": "mixed"})
    for k, c in enumerate(out):
        if k % 3 == 1:
            c["prelude"] = "rollback"
        if k % 4 == 2:
            c["rule_as"] = "gpr"
    return out


CODES = {1: "model and implementation differ",
         2: "knock-out property fails on the observed state (bounds / gene.functional / reaction.functional / "
            "returned reactions against the truth-table evaluator)",
         3: "solver variable bounds do not match the reaction bounds",
         5: "cross references of the freshly built model are not well-formed"}


def evaluate(cases):
    impl = [run_impl(c) for c in cases]
    terms = [case_term(*i) for i in impl]
    res, faults = K.coq_eval_cases(HEADER, terms, "case", "failing", shard=150)
    return res, faults, impl


def shrink(case, want):
    cur = case
    for _ in range(12):
        cands = []
        for i in range(len(cur["ops"])):
            cands.append(dict(cur, ops=cur["ops"][:i] + cur["ops"][i + 1:]))
        for i in range(len(cur["rxns"])):
            if len(cur["rxns"]) > 1:
                ops = []
                for o in cur["ops"]:
                    if o[0] == "rko":
                        if o[1] == i:
                            continue
                        o = ["rko", o[1] - (1 if o[1] > i else 0)]
                    ops.append(o)
                cands.append(dict(cur, rxns=cur["rxns"][:i] + cur["rxns"][i + 1:], ops=ops))
        for i, r in enumerate(cur["rxns"]):
            t = r["rule"]
            if t is not None and not isinstance(t, str):
                for sub in t[1:]:
                    cands.append(dict(cur, rxns=cur["rxns"][:i] + [dict(r, rule=sub)] + cur["rxns"][i + 1:]))
        for i in range(len(cur.get("pre", []))):
            cands.append(dict(cur, pre=cur["pre"][:i] + cur["pre"][i + 1:]))
        # keep only candidates whose ops mention genes that still exist
        ok = []
        for c in cands:
            gs = {g for r in c["rxns"] for g in c08.genes_of(r["rule"])}
            if all((o[0] not in ("ko", "setf") or o[1] in gs) and (o[0] != "kom" or set(o[1]) <= gs) for o in c["ops"]):
                ok.append(c)
        if not ok:
            break
        res, faults, _ = evaluate(ok)
        if faults:
            break
        good = [i for i, lst in res if any(code in want for _, code in lst)]
        if not good:
            break
        cur = ok[min(good)]
    return cur


def main(argv=None):
    args = K.parse_args(argv)
    logging.disable(logging.CRITICAL)
    warnings.simplefilter("ignore")
    rep = K.Reporter(PROP, args.tier, args.seed)
    info, broken = K.standard_prelude(PROP, rep, extra_targets=["theories/Knockout/Check.vo"])
    rng = random.Random(args.seed)
    quick = args.tier == "quick"
    n_net = 0
    if args.replay:
        cases = [json.load(open(args.replay))["case"]]
    else:
        cases = []
        corpus = os.path.join(K.VERIF, "corpus", PROP)
        if os.path.isdir(corpus):
            for f in sorted(os.listdir(corpus)):
                if f.endswith(".json"):
                    cases.append(json.load(open(os.path.join(corpus, f)))["case"])
        n_net = 25 if quick else 100
        for _ in range(n_net):
            rxns, genes = gen_network(rng)
            cases += cases_for_network(rng, rxns, genes, quick)

    res, faults, impl = evaluate(cases)
    if faults:
        print("HARNESS FAULT: model evaluation failed:\n" + "\n".join(faults[:3]))
        if not broken:
            broken.append("model evaluation (coqc on generated cases) failed: " + faults[0][-600:])

    kinds, opk, nsteps, zeroed, ctx = {}, {}, 0, 0, 0
    distinct = set()
    for c, (init, ob0, steps) in zip(cases, impl):
        kinds[c.get("kind", "?")] = kinds.get(c.get("kind", "?"), 0) + 1
        ctx += 1 if c.get("ctx") else 0
        changed = False
        prev = ob0
        for o, ob in steps:
            opk[o[0]] = opk.get(o[0], 0) + 1
            nsteps += 1
            if ob["bounds"] != prev["bounds"]:
                changed = True
                zeroed += 1
            prev = ob
        if changed:
            distinct.add(json.dumps([c["rxns"], c.get("pre"), c["ops"], c.get("ctx")], sort_keys=True))

    seen = set()
    for idx, lst in sorted(res):
        codes = sorted({code for _, code in lst})
        want = [c for c in codes if c >= 2] or [1]
        first = min(s for s, code in lst if code in want)
        opname = "init" if first == 0 else impl[idx][2][first - 1][0][0]
        key = (tuple(want), opname)
        if key in seen or len(seen) >= 8:
            continue
        seen.add(key)
        small = cases[idx] if args.replay else shrink(cases[idx], set(want))
        r2, _, impl2 = evaluate([small])
        lst2 = r2[0][1] if r2 else lst
        codes2 = sorted({code for _, code in lst2}) or codes
        code = next((c for c in codes2 if c >= 2), codes2[0])
        init, ob0, steps = impl2[0]
        replay = {"case": small, "failed": CODES.get(code, str(code)), "codes": codes2,
                  "failing_steps": sorted({s for s, cd in lst2 if cd == code}),
                  "implementation_observation": {"initial_state": init, "initial": ob0, "after_each_op": steps},
                  "how_to_read": "rxns[i] is reaction R<i> (rule tree, bounds); ops are applied in order (inside "
                                 "`with model:` when ctx); observations list bounds, gene.functional, "
                                 "reaction.functional, forward/reverse variable bounds, returned reaction indices",
                  "theorem": "C07_knock_out_spec (coq/theories/Properties/C07.v)"}
        rep.violation({"code": code, "op": opname}, replay)

    if broken and rep.violations == 0:      # known findings never hide a broken obligation
        rep.violation({"broken": True}, {"broken_obligations": broken,
                      "note": "proof obligation or correspondence machinery no longer checks; no failing input found"},
                      no_input=True)

    samples = [cases[i] for i in ([0, len(cases) // 2, len(cases) - 1] if cases else [])]
    evidence = {
        "level": "proof",
        "coverage": {
            "obligations": info["obligations"], "discharged": info["discharged"],
            "checker_cmd": info["checker_cmd"],
            "trusted_base": K.TRUSTED_COMMON + [
                "optlang/GLPK variable containers (bounds read back after solver.update()); the undo stack of "
                "`with model:` is observed (restore step), not modelled beyond 'state returns to the initial one'"],
            "axioms_reported_by_Print_Assumptions": info["axioms"],
            "evaluations": len(cases), "steps_compared": nsteps, "networks": n_net,
            "distinct_nontrivial": len(distinct),
            "rule": "case = one freshly built model + an operation list; every step's full observation is compared "
                    "with the model and checked by the monitor; non-trivial = distinct cases in which some step "
                    "changes a bound",
            "samples": samples,
            "traces_validated_against_impl": len(cases) - len(res),
            "disagreements_checked": len(res),
            "exhaustive": False,
            "exhaustive_space": "per network: every subset of its genes when <= 20 subsets (quick) / always (thorough), "
                                "each one-at-a-time in up to 3 orders and all-at-once",
            "case_kinds": kinds, "op_distribution": opk, "steps_changing_bounds": zeroed, "cases_in_context": ctx,
            "broken_obligations": broken,
        },
        "assumptions": ["finite dyadic bounds only (infinite bounds are C01's concern)",
                        "rules are set through gene_reaction_rule (their parsing is C08)"],
    }
    return rep.finish(evidence)


if __name__ == "__main__":
    sys.exit(main())
