"""Tables for C12 (coq/theories/Gen/CopyTables.v), read with `ast` from the cobrapy sources:

* per class (Model, Reaction, Metabolite, Gene, Group): the attributes its `__init__` chain assigns and
  what each is initialised with (atom / dict / set / list / GPR / DictList / opaque solver / link);
* from `Model.copy`: the `do_not_copy_by_ref` set literal of every block, and HOW every other attribute is
  copied there (`value` = by reference, `copy(value)` = shallow, `deepcopy(value)` = deep, with
  `... if attr == "x" else ...` special cases), plus the explicit `new.<attr> = deepcopy(self.<attr>)` lines;
* from `Model.__setstate__`: which object lists get their `_model` re-pointed;
* from `Reaction.__add__/__sub__`: whether the second operand is copied before it is combined.

Everything else in those functions (the re-linking code of Model.copy, the `__getstate__`/`__setstate__`
/`__reduce__`/`copy` hooks the Gallina model mirrors by hand) is compared, after normalisation, with the
reference text below; any difference aborts the section (fail closed: Gen/CopyTables.v disappears and
every proof that depends on it stops compiling)."""
import ast
import copy as _copy

from tables_lib import Abort, coq_ascii_string, find_def, parse, section

CLASSES = [  # name, file, base
    ("Object", "core/object.py", None), ("Species", "core/species.py", "Object"),
    ("Metabolite", "core/metabolite.py", "Species"), ("Gene", "core/gene.py", "Species"),
    ("Reaction", "core/reaction.py", "Object"), ("Group", "core/group.py", "Object"),
    ("Model", "core/model.py", "Object")]
LINKS = {"_model"}                       # initialised with None, later holds a reference to the model
CONTAINER_CALLS = {"set": "ASet", "dict": "ADict", "list": "AList", "DictList": "ADictList", "GPR": "AGpr"}
PROPERTY_ALIAS = {"annotation": "_annotation", "notes": "notes", "_compartments": "_compartments",
                  "compartments": "_compartments"}
ORDER = ["AAtom", "ALink", "ADict", "ASet", "AList", "AGpr", "ADictList", "AOpaque"]


def _classify(node, params):
    if isinstance(node, ast.Constant):
        return "AAtom"
    if isinstance(node, ast.Name):
        if node.id in params:
            return "AAtom"
        raise Abort("initialiser refers to unknown name %s" % node.id)
    if isinstance(node, ast.Dict) and not node.keys:
        return "ADict"
    if isinstance(node, ast.List) and not node.elts:
        return "AList"
    if isinstance(node, ast.Call):
        f = node.func
        if isinstance(f, ast.Name) and f.id in CONTAINER_CALLS:
            return CONTAINER_CALLS[f.id]
        if isinstance(f, ast.Attribute) and f.attr == "Model" and isinstance(f.value, ast.Name) \
                and f.value.id == "interface":
            return "AOpaque"
        raise Abort("unrecognised call in initialiser: %s" % ast.dump(node))
    if isinstance(node, ast.IfExp):
        a, b = _classify(node.body, params), _classify(node.orelse, params)
        return max(a, b, key=ORDER.index)
    if isinstance(node, ast.Attribute):
        # config.lower_bound, configuration.tolerance, id_or_model.solver
        if node.attr == "solver":
            return "AOpaque"
        if isinstance(node.value, ast.Name) and node.value.id in ("config", "configuration"):
            return "AAtom"
        raise Abort("unrecognised attribute initialiser: %s" % ast.dump(node))
    raise Abort("unrecognised initialiser: %s" % ast.dump(node))


def _init_attrs(repo, cls, rel):
    tree, _ = parse(repo, rel)
    init = find_def(tree, "__init__", cls)
    params = {a.arg for a in init.args.args + init.args.kwonlyargs}
    if init.args.kwarg:
        params.add(init.args.kwarg.arg)
    out = {}
    for node in ast.walk(init):
        tgt = val = None
        if isinstance(node, ast.Assign) and len(node.targets) == 1:
            tgt, val = node.targets[0], node.value
        elif isinstance(node, ast.AnnAssign) and node.value is not None:
            tgt, val = node.target, node.value
        if isinstance(tgt, ast.Attribute) and isinstance(tgt.value, ast.Name) and tgt.value.id == "self":
            k = "ALink" if tgt.attr in LINKS else _classify(val, params)
            old = out.get(tgt.attr)
            out[tgt.attr] = k if old is None else max(k, old, key=ORDER.index)
    for node in tree.body:
        if isinstance(node, ast.ClassDef) and node.name == cls:
            bases = [b.id for b in node.bases if isinstance(b, ast.Name)]
            return out, bases
    raise Abort("class %s not found" % cls)


def _all_attrs(repo):
    own, res = {}, {}
    for cls, rel, base in CLASSES:
        a, bases = _init_attrs(repo, cls, rel)
        if base is not None and bases != [base]:
            raise Abort("class %s no longer derives from %s only: %s" % (cls, base, bases))
        if base is None and bases:
            raise Abort("class %s has bases %s" % (cls, bases))
        own[cls] = a
        merged = dict(res[base]) if base else {}
        merged.update(a)
        res[cls] = merged
    return res


# ---------------------------------------------------------------------------------- Model.copy
MODES = {"value": "ByRef", "copy": "Shallow", "deepcopy": "Deep"}


def _mode(node):
    """EXPR of `new_x.__dict__[attr] = EXPR`  ->  (special cases [(attr, mode)], default mode)."""
    if isinstance(node, ast.Name) and node.id == "value":
        return [], "ByRef"
    if isinstance(node, ast.Call) and isinstance(node.func, ast.Name) and node.func.id in ("copy", "deepcopy") \
            and len(node.args) == 1 and not node.keywords and isinstance(node.args[0], ast.Name) \
            and node.args[0].id == "value":
        return [], MODES[node.func.id]
    if isinstance(node, ast.IfExp):
        t = node.test
        if not (isinstance(t, ast.Compare) and len(t.ops) == 1 and isinstance(t.left, ast.Name) and t.left.id == "attr"):
            raise Abort("unrecognised condition in Model.copy: %s" % ast.dump(t))
        c = t.comparators[0]
        if isinstance(t.ops[0], ast.Eq) and isinstance(c, ast.Constant) and isinstance(c.value, str):
            names = [c.value]
        elif isinstance(t.ops[0], ast.In) and isinstance(c, (ast.Tuple, ast.List, ast.Set)) and \
                all(isinstance(e, ast.Constant) and isinstance(e.value, str) for e in c.elts):
            names = [e.value for e in c.elts]
        else:
            raise Abort("unrecognised condition in Model.copy: %s" % ast.dump(t))
        sa, da = _mode(node.body)
        sb, db = _mode(node.orelse)
        if sa:
            raise Abort("nested special case inside the true branch of a conditional copy expression")
        return [(n, da) for n in names] + sb, db
    raise Abort("unrecognised copy expression in Model.copy: %s" % ast.dump(node))


def _strset(node):
    if isinstance(node, ast.Set) and all(isinstance(e, ast.Constant) and isinstance(e.value, str) for e in node.elts):
        return [e.value for e in node.elts]
    raise Abort("do_not_copy_by_ref is not a set literal of strings")


def _strip_doc(fn):
    fn = _copy.deepcopy(fn)
    if fn.body and isinstance(fn.body[0], ast.Expr) and isinstance(fn.body[0].value, ast.Constant) \
            and isinstance(fn.body[0].value.value, str):
        fn.body = fn.body[1:]
    fn.returns = None
    fn.decorator_list = []
    for a in fn.args.args + fn.args.kwonlyargs:
        a.annotation = None
    for node in ast.walk(fn):
        if isinstance(node, ast.AnnAssign):      # `new_group: Group = ...`
            node.annotation = ast.Name("T", ast.Load())
    return fn


class _Norm(ast.NodeTransformer):
    """Replace the parts of Model.copy that go into the table by placeholders and collect them."""
    def __init__(self):
        self.sets, self.modes, self.explicit = [], [], []

    def visit_Assign(self, node):
        if len(node.targets) == 1:
            t = node.targets[0]
            if isinstance(t, ast.Name) and t.id == "do_not_copy_by_ref":
                self.sets.append(_strset(node.value))
                node.value = ast.Name("SET", ast.Load())
                return node
            # new_x.__dict__[attr] = EXPR     (object loops; the model-level loop copies self.__dict__[attr])
            if isinstance(t, ast.Subscript) and isinstance(t.value, ast.Attribute) and t.value.attr == "__dict__" \
                    and isinstance(t.value.value, ast.Name) and t.value.value.id != "new":
                self.modes.append((t.value.value.id, _mode(node.value)))
                node.value = ast.Name("MODE", ast.Load())
                return node
            # new.<attr> = deepcopy(self.<attr>) / copy(self.<attr>)
            if isinstance(t, ast.Attribute) and isinstance(t.value, ast.Name) and t.value.id == "new" \
                    and isinstance(node.value, ast.Call) and isinstance(node.value.func, ast.Name) \
                    and node.value.func.id in ("copy", "deepcopy") and len(node.value.args) == 1 \
                    and isinstance(node.value.args[0], ast.Attribute) \
                    and isinstance(node.value.args[0].value, ast.Name) and node.value.args[0].value.id == "self" \
                    and node.value.args[0].attr == t.attr and t.attr in PROPERTY_ALIAS:
                self.explicit.append((PROPERTY_ALIAS[t.attr], MODES[node.value.func.id]))
                return None
        return self.generic_visit(node)


REF_MODEL_COPY = '''
def copy(self):
    new = self.__class__()
    do_not_copy_by_ref = SET
    for attr in self.__dict__:
        if attr not in do_not_copy_by_ref:
            new.__dict__[attr] = self.__dict__[attr]

    new.metabolites = DictList()
    do_not_copy_by_ref = SET
    for metabolite in self.metabolites:
        new_met = metabolite.__class__()
        for attr, value in metabolite.__dict__.items():
            if attr not in do_not_copy_by_ref:
                new_met.__dict__[attr] = MODE
        new_met._model = new
        new.metabolites.append(new_met)

    new.genes = DictList()
    for gene in self.genes:
        new_gene = gene.__class__(None)
        for attr, value in gene.__dict__.items():
            if attr not in do_not_copy_by_ref:
                new_gene.__dict__[attr] = MODE
        new_gene._model = new
        new.genes.append(new_gene)

    new.reactions = DictList()
    do_not_copy_by_ref = SET
    for reaction in self.reactions:
        new_reaction = reaction.__class__()
        for attr, value in reaction.__dict__.items():
            if attr not in do_not_copy_by_ref:
                new_reaction.__dict__[attr] = MODE
        new_reaction._model = new
        new.reactions.append(new_reaction)
        for metabolite, stoic in reaction._metabolites.items():
            new_met = new.metabolites.get_by_id(metabolite.id)
            new_reaction._metabolites[new_met] = stoic
            new_met._reaction.add(new_reaction)
        new_reaction.update_genes_from_gpr()

    new.groups = DictList()
    do_not_copy_by_ref = SET
    for group in self.groups:
        new_group: T = group.__class__(group.id)
        for attr, value in group.__dict__.items():
            if attr not in do_not_copy_by_ref:
                new_group.__dict__[attr] = MODE
        new_group._model = new
        new.groups.append(new_group)
    for group in self.groups:
        new_group = new.groups.get_by_id(group.id)
        new_objects = []
        for member in group.members:
            if isinstance(member, Metabolite):
                new_object = new.metabolites.get_by_id(member.id)
            elif isinstance(member, Reaction):
                new_object = new.reactions.get_by_id(member.id)
            elif isinstance(member, Gene):
                new_object = new.genes.get_by_id(member.id)
            elif isinstance(member, Group):
                new_object = new.groups.get_by_id(member.id)
            else:
                raise TypeError(
                    f"The group member {member!r} is unexpectedly not a "
                    f"metabolite, reaction, gene, nor another group."
                )
            new_objects.append(new_object)
        new_group.add_members(new_objects)

    try:
        new._solver = deepcopy(self.solver)
    except Exception:
        new._solver = copy(self.solver)

    new._contexts = []

    return new
'''

REF_HOOKS = {
    ("core/object.py", "Object", "__getstate__"): '''
def __getstate__(self):
    state = self.__dict__.copy()
    if "_model" in state:
        state["_model"] = None
    return state
''',
    ("core/species.py", "Species", "__getstate__"): '''
def __getstate__(self):
    state = Object.__getstate__(self)
    state["_reaction"] = set()
    return state
''',
    ("core/species.py", "Species", "copy"): '''
def copy(self):
    return deepcopy(self)
''',
    ("core/reaction.py", "Reaction", "__getstate__"): '''
def __getstate__(self):
    state = self.__dict__.copy()
    state["_gpr"] = str(self._gpr)
    return state
''',
    ("core/reaction.py", "Reaction", "__setstate__"): '''
def __setstate__(self, state):
    if "reaction" in state:
        state.pop("reaction")
    if "gene_reaction_rule" in state:
        state["_gene_reaction_rule"] = state.pop("gene_reaction_rule")
    if "lower_bound" in state:
        state["_lower_bound"] = state.pop("lower_bound")
    if "upper_bound" in state:
        state["_upper_bound"] = state.pop("upper_bound")
    if "_gpr" not in state:
        state["_gpr"] = state["_gene_reaction_rule"]
    if type(state["_gpr"]) is str:
        state["_gpr"] = GPR.from_string(state["_gpr"])

    self.__dict__.update(state)
    for x in state["_metabolites"]:
        x._model = self._model
        x._reaction.add(self)
    for x in state["_genes"]:
        x._model = self._model
        x._reaction.add(self)
''',
    ("core/reaction.py", "Reaction", "__copy__"): '''
def __copy__(self):
    cop = copy(super(Reaction, self))
    return cop
''',
    ("core/reaction.py", "Reaction", "__deepcopy__"): '''
def __deepcopy__(self, memo):
    cop = deepcopy(super(Reaction, self), memo)
    return cop
''',
    ("core/reaction.py", "Reaction", "copy"): '''
def copy(self):
    model = self._model
    owners = [(i, i._model) for i in self._metabolites]
    owners += [(i, i._model) for i in self._genes]
    self._model = None
    for i, _ in owners:
        i._model = None
    new_reaction = deepcopy(self)
    self._model = model
    for i, owner in owners:
        i._model = owner
    return new_reaction
''',
    ("core/reaction.py", "Reaction", "__mul__"): '''
def __mul__(self, coefficient):
    new = self.copy()
    new *= coefficient
    return new
''',
    ("core/gene.py", "GPR", "copy"): '''
def copy(self):
    return deepcopy(self)
''',
    ("core/gene.py", "GPR", "__copy__"): '''
def __copy__(self):
    return self.copy()
''',
    ("core/model.py", "Model", "__getstate__"): '''
def __getstate__(self):
    odict = self.__dict__.copy()
    odict["_contexts"] = []
    return odict
''',
    ("core/dictlist.py", "DictList", "__reduce__"): '''
def __reduce__(self):
    return self.__class__, (), self.__getstate__(), self.__iter__()
''',
    ("core/dictlist.py", "DictList", "__setstate__"): '''
def __setstate__(self, state):
    self._generate_index()
''',
    ("core/dictlist.py", "DictList", "__copy__"): '''
def __copy__(self):
    the_copy = DictList()
    list.extend(the_copy, self)
    the_copy._dict = self._dict.copy()
    return the_copy
''',
}

REF_SETSTATE = '''
def __setstate__(self, state):
    self.__dict__.update(state)
    if not hasattr(self, "name"):
        self.name = None
'''

REF_ADD = '''
def __add__(self, other):
    new_reaction = self.copy()
    if other == 0:
        return new_reaction
    else:
        new_reaction += OTHER
    return new_reaction
'''
REF_SUB = '''
def __sub__(self, other):
    new = self.copy()
    new -= OTHER
    return new
'''


def _dump(fn):
    return ast.dump(_strip_doc(fn), annotate_fields=True, include_attributes=False)


def _ref(text):
    return ast.parse(text).body[0]


def _same(actual, reference, what):
    a, b = _dump(actual), _dump(_ref(reference))
    if a != b:
        # locate the first difference for the message
        i = next((k for k in range(min(len(a), len(b))) if a[k] != b[k]), min(len(a), len(b)))
        raise Abort("%s no longer has the shape the Gallina model mirrors (near: ...%s...)" % (what, a[max(0, i - 60):i + 60]))


def _strlist(xs):
    return "[" + "; ".join(coq_ascii_string(x) for x in xs) + "]"


def _ktable(name, excluded, mode):
    special, default = mode
    return "Definition %s : ktable := mkKT %s [%s] %s." % (
        name, _strlist(sorted(excluded)), "; ".join("(%s, %s)" % (coq_ascii_string(a), m) for a, m in special), default)


def _other_operand(fn, ref, what):
    """`new += other` -> false, `new += other.copy()` -> true; the rest of the function must match."""
    fn = _strip_doc(fn)
    found = []

    class T(ast.NodeTransformer):
        def visit_AugAssign(self, node):
            v = node.value
            if isinstance(v, ast.Name) and v.id == "other":
                found.append(False)
            elif isinstance(v, ast.Call) and isinstance(v.func, ast.Attribute) and v.func.attr == "copy" \
                    and isinstance(v.func.value, ast.Name) and v.func.value.id == "other" and not v.args and not v.keywords:
                found.append(True)
            else:
                return node
            node.value = ast.Name("OTHER", ast.Load())
            return node
    fn = T().visit(fn)
    if len(found) != 1:
        raise Abort("%s: expected exactly one in-place combination with the other operand" % what)
    _same(fn, ref, what)
    return found[0]


@section("CopyTables")
def copy_tables(repo):
    out = ["From Cobra.Copy Require Import Heap.", "Open Scope string_scope.", ""]
    # ---- attribute kinds
    attrs = _all_attrs(repo)
    for cls in ("Model", "Reaction", "Metabolite", "Gene", "Group"):
        items = "; ".join("(%s, %s)" % (coq_ascii_string(a), k) for a, k in sorted(attrs[cls].items()))
        out.append("Definition attrs_%s : list (string * akind) := [%s]." % (cls.lower(), items))
    # ---- Model.copy
    tree, _ = parse(repo, "core/model.py")
    fn = _strip_doc(find_def(tree, "copy", "Model"))
    norm = _Norm()
    fn = norm.visit(fn)
    ast.fix_missing_locations(fn)
    _same(fn, REF_MODEL_COPY, "Model.copy")
    if len(norm.sets) != 4 or [m[0] for m in norm.modes] != ["new_met", "new_gene", "new_reaction", "new_group"]:
        raise Abort("Model.copy: unexpected number of do_not_copy_by_ref sets / copy loops")
    modes = dict(norm.modes)
    out.append("Definition model_excluded : list string := %s." % _strlist(sorted(norm.sets[0])))
    out.append("Definition model_explicit : list (string * mode) := [%s]." % "; ".join(
        "(%s, %s)" % (coq_ascii_string(a), m) for a, m in norm.explicit))
    out.append(_ktable("met_table", norm.sets[1], modes["new_met"]))
    out.append(_ktable("gene_table", norm.sets[1], modes["new_gene"]))      # the gene loop reuses the metabolite set
    out.append(_ktable("rxn_table", norm.sets[2], modes["new_reaction"]))
    out.append(_ktable("group_table", norm.sets[3], modes["new_group"]))
    # ---- Model.__setstate__
    st = _strip_doc(find_def(tree, "__setstate__", "Model"))
    repoint, rest = [], []
    for node in st.body:
        if isinstance(node, ast.For):
            inner = node.body
            ok = False
            if isinstance(node.iter, ast.List) and all(isinstance(e, ast.Constant) for e in node.iter.elts) \
                    and len(inner) == 1 and isinstance(inner[0], ast.For) \
                    and ast.dump(inner[0].iter) == ast.dump(ast.parse("getattr(self, %s)" % node.target.id).body[0].value) \
                    and len(inner[0].body) == 1 \
                    and ast.dump(inner[0].body[0]) == ast.dump(ast.parse("%s._model = self" % inner[0].target.id).body[0]):
                repoint += [e.value for e in node.iter.elts]
                ok = True
            elif isinstance(node.iter, ast.Call) and isinstance(node.iter.func, ast.Name) and node.iter.func.id == "getattr" \
                    and len(node.iter.args) in (2, 3) and isinstance(node.iter.args[0], ast.Name) \
                    and node.iter.args[0].id == "self" and isinstance(node.iter.args[1], ast.Constant) \
                    and len(inner) == 1 \
                    and ast.dump(inner[0]) == ast.dump(ast.parse("%s._model = self" % node.target.id).body[0]):
                repoint.append(node.iter.args[1].value)
                ok = True
            if not ok:
                raise Abort("Model.__setstate__: unrecognised loop")
        else:
            rest.append(node)
    st.body = rest
    _same(st, REF_SETSTATE, "Model.__setstate__")
    out.append("Definition setstate_repoint : list string := %s." % _strlist(repoint))
    # ---- hooks mirrored by hand
    cache = {}
    for (rel, cls, name), ref in sorted(REF_HOOKS.items()):
        if rel not in cache:
            cache[rel] = parse(repo, rel)[0]
        _same(find_def(cache[rel], name, cls), ref, "%s.%s" % (cls, name))
    rt = cache["core/reaction.py"]
    add_c = _other_operand(find_def(rt, "__add__", "Reaction"), REF_ADD, "Reaction.__add__")
    sub_c = _other_operand(find_def(rt, "__sub__", "Reaction"), REF_SUB, "Reaction.__sub__")
    out.append("Definition add_copies_other : bool := %s." % ("true" if add_c else "false"))
    out.append("Definition sub_copies_other : bool := %s." % ("true" if sub_c else "false"))
    out.append("Definition current_table : copytable := mkCT attrs_model attrs_reaction attrs_metabolite attrs_gene "
               "attrs_group model_excluded model_explicit met_table gene_table rxn_table group_table setstate_repoint "
               "add_copies_other sub_copies_other.")
    return "\n".join(out) + "\n"
