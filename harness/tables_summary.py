"""C20 tie: the boolean / arithmetic skeleton of ModelSummary._generate and
MetaboliteSummary._generate, read from the source with `ast` (fail-closed) and written as Coq
definitions in Gen/SummaryGen.v.  coq/theories/Summary/Tie.v proves that they coincide with the
hand-written model, so an edit of a comparison operator, of the sign test or of the scaling breaks
a proof obligation of C20 on the next run."""
import ast
from tables_lib import section, parse, find_def, Abort


def _is_col(node, frame, col):
    return (isinstance(node, ast.Subscript) and isinstance(node.value, ast.Name) and node.value.id == frame
            and isinstance(node.slice, ast.Constant) and node.slice.value == col)


def _zero(node):
    return isinstance(node, ast.Constant) and node.value == 0 and not isinstance(node.value, bool)


def _cmp(node):
    """flux["flux"|"factor"] (>|<|==) 0  ->  Coq boolean over variables flux / factor."""
    if not (isinstance(node, ast.Compare) and len(node.ops) == 1 and len(node.comparators) == 1
            and _zero(node.comparators[0])):
        raise Abort("comparison with 0 expected: %s" % ast.dump(node))
    for col in ("flux", "factor"):
        if _is_col(node.left, "flux", col):
            op = node.ops[0]
            if isinstance(op, ast.Gt):
                return "(Qltb 0 %s)" % col
            if isinstance(op, ast.Lt):
                return "(Qltb %s 0)" % col
            if isinstance(op, ast.Eq):
                return "(Qeq_bool %s 0)" % col
            if isinstance(op, ast.GtE):
                return "(Qle_bool 0 %s)" % col
            if isinstance(op, ast.LtE):
                return "(Qle_bool %s 0)" % col
            raise Abort("unsupported comparison operator %s" % type(op).__name__)
    raise Abort("comparison is not on flux[\"flux\"] / flux[\"factor\"]: %s" % ast.dump(node))


def _bool(node):
    if isinstance(node, ast.BinOp) and isinstance(node.op, ast.BitOr):
        return "(orb %s %s)" % (_bool(node.left), _bool(node.right))
    if isinstance(node, ast.BinOp) and isinstance(node.op, ast.BitAnd):
        return "(andb %s %s)" % (_bool(node.left), _bool(node.right))
    return _cmp(node)


def _assign_to(fn, name):
    found = [n for n in ast.walk(fn) if isinstance(n, ast.Assign) and len(n.targets) == 1
             and isinstance(n.targets[0], ast.Name) and n.targets[0].id == name]
    if len(found) != 1:
        raise Abort("expected exactly one assignment to %s, found %d" % (name, len(found)))
    return found[0].value


def _is_tolerance(node):
    return (isinstance(node, ast.Attribute) and node.attr == "tolerance" and isinstance(node.value, ast.Name)
            and node.value.id == "model")


def _abs_cmp_tol(node, what):
    """<what>.abs() (>=|<|...) model.tolerance -> Coq boolean over tol / x."""
    if not (isinstance(node, ast.Compare) and len(node.ops) == 1 and _is_tolerance(node.comparators[0])):
        raise Abort("comparison with model.tolerance expected: %s" % ast.dump(node))
    l = node.left
    if not (isinstance(l, ast.Call) and isinstance(l.func, ast.Attribute) and l.func.attr == "abs" and not l.args
            and what(l.func.value)):
        raise Abort("<frame>.abs() expected on the left: %s" % ast.dump(node))
    op = node.ops[0]
    return {ast.GtE: "(Qle_bool tol (Qabs x))", ast.Gt: "(Qltb tol (Qabs x))",
            ast.Lt: "(Qltb (Qabs x) tol)", ast.LtE: "(Qle_bool (Qabs x) tol)"}.get(type(op)) or \
        _raise("unsupported operator %s" % type(op).__name__)


def _raise(msg):
    raise Abort(msg)


def _one(prefix, rel, cls):
    tree, _ = parse(rel[0], rel[1])
    fn = find_def(tree, "_generate", cls)
    out = []
    out.append("Definition %s_is_produced (flux factor : Q) : bool := %s." % (prefix, _bool(_assign_to(fn, "is_produced"))))
    out.append("Definition %s_is_consumed (flux factor : Q) : bool := %s." % (prefix, _bool(_assign_to(fn, "is_consumed"))))
    out.append("Definition %s_negative (flux factor : Q) : bool := %s." % (prefix, _bool(_assign_to(fn, "negative"))))
    # flux["flux"] *= flux["factor"]
    aug = [n for n in ast.walk(fn) if isinstance(n, ast.AugAssign) and _is_col(n.target, "flux", "flux")]
    if not (len(aug) >= 1 and isinstance(aug[0].op, ast.Mult) and _is_col(aug[0].value, "flux", "factor")):
        raise Abort('flux["flux"] *= flux["factor"] not found')
    if aug[0].lineno != min(a.lineno for a in aug):
        raise Abort("scaling is not the first update of the flux column")
    out.append("Definition %s_scale (v factor : Q) : Q := v * factor." % prefix)
    # the `if fva is not None:` statement of _generate that holds the zeroing
    zero_if = None
    for n in ast.walk(fn):
        if isinstance(n, ast.If) and isinstance(n.test, ast.Compare) and isinstance(n.test.left, ast.Name) \
                and n.test.left.id == "fva" and isinstance(n.test.ops[0], ast.IsNot) and n.orelse:
            if any(isinstance(c, ast.Call) and isinstance(c.func, ast.Attribute) and c.func.attr == "where"
                   for s in n.body for c in ast.walk(s)):
                zero_if = n
    if zero_if is None:
        raise Abort("the fva / no-fva tolerance branch was not found")
    where = [c for s in zero_if.body for c in ast.walk(s)
             if isinstance(c, ast.Call) and isinstance(c.func, ast.Attribute) and c.func.attr == "where"]
    if len(where) != 1 or len(where[0].args) != 2 or not _zero(where[0].args[1]):
        raise Abort("view.where(cond, 0) expected")
    view = where[0].func.value
    if not (isinstance(view, ast.Name) and view.id == "view"):
        raise Abort("where() is not applied to `view`")
    v = _assign_to(fn, "view")
    cols = [e.value for e in v.slice.elts] if isinstance(v, ast.Subscript) and isinstance(v.slice, ast.List) else None
    if cols != ["flux", "minimum", "maximum"]:
        raise Abort("view is not flux[[flux, minimum, maximum]]: %r" % (cols,))
    out.append("Definition %s_keep_fva (tol x : Q) : bool := %s." % (
        prefix, _abs_cmp_tol(where[0].args[0], lambda n: isinstance(n, ast.Name) and n.id == "view")))
    # else branch: flux.loc[flux["flux"].abs() < model.tolerance, "flux"] = 0
    z = [s for s in zero_if.orelse if isinstance(s, ast.Assign) and _zero(s.value)]
    if len(z) != 1:
        raise Abort("no-fva zeroing assignment not found")
    t = z[0].targets[0]
    if not (isinstance(t, ast.Subscript) and isinstance(t.value, ast.Attribute) and t.value.attr == "loc"
            and isinstance(t.slice, ast.Tuple) and len(t.slice.elts) == 2
            and isinstance(t.slice.elts[1], ast.Constant) and t.slice.elts[1].value == "flux"):
        raise Abort("flux.loc[cond, \"flux\"] = 0 expected")
    out.append("Definition %s_zero_nofva (tol x : Q) : bool := %s." % (
        prefix, _abs_cmp_tol(t.slice.elts[0], lambda n: _is_col(n, "flux", "flux"))))
    # scaling of the range: flux[["minimum","maximum"]].mul(flux["factor"], axis=0)
    mul = [c for s in zero_if.body for c in ast.walk(s)
           if isinstance(c, ast.Call) and isinstance(c.func, ast.Attribute) and c.func.attr == "mul"]
    if not (len(mul) == 1 and len(mul[0].args) == 1 and _is_col(mul[0].args[0], "flux", "factor")):
        raise Abort("range scaling .mul(flux[\"factor\"], axis=0) not found")
    # swap: tmp = max[neg]; max[neg] = min[neg]; min[neg] = tmp
    def loc_col(n):
        if isinstance(n, ast.Subscript) and isinstance(n.value, ast.Attribute) and n.value.attr == "loc" \
                and isinstance(n.slice, ast.Tuple) and isinstance(n.slice.elts[0], ast.Name) \
                and n.slice.elts[0].id == "negative" and isinstance(n.slice.elts[1], ast.Constant):
            return n.slice.elts[1].value
        return None
    swaps = []
    for s in zero_if.body:
        if isinstance(s, ast.Assign) and len(s.targets) == 1:
            tgt = s.targets[0]
            tn = tgt.id if isinstance(tgt, ast.Name) else loc_col(tgt)
            vn = s.value.id if isinstance(s.value, ast.Name) else loc_col(s.value)
            if tn in ("tmp", "minimum", "maximum") and vn in ("tmp", "minimum", "maximum"):
                swaps.append((tn, vn))
    if swaps != [("tmp", "maximum"), ("maximum", "minimum"), ("minimum", "tmp")]:
        raise Abort("min/max swap for negative factors not recognised: %r" % (swaps,))
    order = [s.lineno for s in (where[0], mul[0])]
    if not order[0] < order[1]:
        raise Abort("zeroing no longer precedes the range scaling")
    return "\n".join(out)


@section("SummaryGen")
def summary_gen(repo):
    head = "From Coq Require Import Qabs.\nFrom Cobra.Summary Require Import Model.\nOpen Scope Q_scope."
    a = _one("msum", (repo, "summary/model_summary.py"), "ModelSummary")
    b = _one("metsum", (repo, "summary/metabolite_summary.py"), "MetaboliteSummary")
    return head + "\n" + a + "\n" + b
