"""C14 — results do not depend on process count, scheduling or item order.

Correspondence of cobrapy's parallel analyses with the pool model (coq/theories/Sched/Model.v) and
the Coq-defined monitors (coq/theories/Sched/Check.v) on the real code:

  * FVA (two passes), find_blocked_reactions, find_essential_genes/reactions, single and double
    reaction/gene deletions on small random networks (thorough: also the textbook model);
  * processes in {1,2,3,5,8}, several permutations of the requested items, seeded per-task delays
    injected by wrapping the worker functions BEFORE the pool forks (start method fork), different
    PYTHONHASHSEEDs (set iteration order of the deletion `args`);
  * the ACTUAL schedule of every pool run is observed (which pid ran which chunk, completion order;
    the chunks as multiprocessing cut them) and handed to the model;
  * every run is compared with the others, with single-item calls, with the model's prediction on
    cobrapy's dispatch + round-robin, and with the model run on the observed schedule;
  * parallel OptGP sampling: same seed + same process count -> bit-identical frames; samples valid.

Layout: the main process generates the cases, runs shards of them in fresh subprocesses
(`--worker`), collects the observations, evaluates Check.failing in coqc, decides."""
import functools
import hashlib
import itertools
import json
import math
import os
import random
import shutil
import subprocess
import sys
import tempfile
import time
from fractions import Fraction

sys.path.insert(0, os.path.dirname(os.path.abspath(__file__)))
import common as K  # noqa: E402
from common import C, Raw, Some, coq  # noqa: E402

sys.path.insert(0, os.path.join(K.REPO, "src"))

PROP = "C14"
PROCS = [1, 2, 3, 5, 8]
ANALYSES = ["fva", "fva_frac", "blocked", "srd", "sgd", "drd", "dgd", "ess_genes", "ess_reactions"]
EXC_CODE = {"OptimizationError": 100, "Infeasible": 100, "Unbounded": 100}
STATUS_CODE = {"optimal": 0, "infeasible": 1, "unbounded": 2, "undefined": 3, "feasible": 4}


# ------------------------------------------------------------------------------ networks

def gen_network(rng, idx):
    """A small random network (JSON-able spec): a chain m0 -> ... -> mk with uptake and secretion,
    alternative routes, branches and a few random reactions, so that most networks carry flux and
    knock-outs are neither all lethal nor all neutral.  Bounds are dyadic and contain 0: the zero
    flux is feasible, and (finite bounds) nothing is unbounded unless requested."""
    n_met = rng.randint(3, 6)
    mets = ["m%d" % i for i in range(n_met)]
    genes = ["g%d" % i for i in range(rng.randint(2, 5))]
    rxns = []

    def gpr():
        r = rng.random()
        if r < 0.2:
            return ""
        if r < 0.5:
            return rng.choice(genes)
        if r < 0.75:
            return " or ".join(rng.sample(genes, 2))
        a = rng.sample(genes, min(3, len(genes)))
        return " and ".join(a[:2]) if len(a) < 3 else "(%s and %s) or %s" % tuple(a)

    rxns.append({"id": "EX_m0", "lb": -rng.choice([1, 2, 4, 8, 10]), "ub": rng.choice([0, 1, 4]), "st": {"m0": -1}, "gpr": ""})
    last = mets[-1]
    rxns.append({"id": "EX_%s" % last, "lb": -rng.choice([0, 0, 1]), "ub": rng.choice([4, 8, 10, 16]), "st": {last: -1}, "gpr": ""})
    for m in rng.sample(mets[1:-1], rng.randint(0, max(0, n_met - 3))) if n_met > 2 else []:
        rxns.append({"id": "EX_%s" % m, "lb": -rng.choice([0, 1, 2]), "ub": rng.choice([0, 1, 4, 8]), "st": {m: -1}, "gpr": ""})
    k = 0
    for i in range(n_met - 1):                    # the chain, some steps doubled (isoenzymes / bypass)
        for _ in range(1 if rng.random() < 0.6 else 2):
            c = rng.choice([1, 1, 1, 2, 0.5])
            rev = rng.random() < 0.3
            rxns.append({"id": "R%d" % k, "lb": -rng.choice([1, 2, 5, 8]) if rev else 0, "ub": rng.choice([2, 5, 8, 16]),
                         "st": {mets[i]: -1, mets[i + 1]: c}, "gpr": gpr()})
            k += 1
    for _ in range(rng.randint(0, 3)):            # shortcuts / random reactions
        a, b = rng.sample(mets, 2)
        st = {a: -1, b: rng.choice([1, 1, 2, 0.5])}
        if n_met > 3 and rng.random() < 0.3:
            c = rng.choice([m for m in mets if m not in st])
            st[c] = rng.choice([-1, 1])
        rev = rng.random() < 0.4
        rxns.append({"id": "R%d" % k, "lb": -rng.choice([1, 2, 5]) if rev else 0, "ub": rng.choice([1, 2, 5, 8]),
                     "st": st, "gpr": gpr()})
        k += 1
    rng.shuffle(rxns)
    obj = rng.choice([r["id"] for r in rxns]) if rng.random() < 0.15 else "auto"
    return {"name": "net%d" % idx, "mets": mets, "rxns": rxns, "objective": obj,
            "direction": rng.choice(["max"] * 5 + ["min"]), "solver": rng.choice(["glpk", "glpk", "glpk_exact"])}


def build(spec):
    import cobra
    if spec.get("textbook"):
        import cobra.io
        m = cobra.io.load_model("textbook")
        return m
    m = cobra.Model(spec["name"])
    mets = {k: cobra.Metabolite(k, compartment="c") for k in spec["mets"]}
    m.add_metabolites(list(mets.values()))
    rl = []
    for r in spec["rxns"]:
        rx = cobra.Reaction(r["id"], lower_bound=r["lb"], upper_bound=r["ub"])
        rx.add_metabolites({mets[k]: v for k, v in r["st"].items()})
        rl.append(rx)
    m.add_reactions(rl)
    for r in spec["rxns"]:
        if r["gpr"]:
            m.reactions.get_by_id(r["id"]).gene_reaction_rule = r["gpr"]
    m.solver = spec.get("solver", "glpk")
    obj = spec["objective"]
    if obj == "auto":
        # first reaction (spec order) that can carry flux in the requested direction; deterministic
        obj = spec["rxns"][0]["id"]
        for r in spec["rxns"]:
            m.objective = r["id"]
            m.objective_direction = spec["direction"]
            v = m.slim_optimize()
            if v == v and abs(v) > 1e-3:
                obj = r["id"]
                break
    m.objective = obj
    m.objective_direction = spec["direction"]
    return m


# ------------------------------------------------------------------------------ instrumentation
# (everything below this line that touches cobra runs in `--worker` subprocesses)

CFG = {"log": None, "seed": 0, "max_ms": 0, "chunks": None}


def _delay(item):
    h = hashlib.sha1(("%s|%r" % (CFG["seed"], item)).encode()).digest()
    return (h[0] * 256 + h[1]) / 65535.0 * CFG["max_ms"] / 1000.0


def _item_key(arg):
    return arg if isinstance(arg, str) else sorted(arg)


def _wrap(orig):
    @functools.wraps(orig)
    def wrapper(arg):
        res = orig(arg)
        if CFG["log"] is not None:
            d = _delay(_item_key(arg))
            if d > 0:
                time.sleep(d)
            line = json.dumps([os.getpid(), time.monotonic_ns(), _item_key(arg)]) + "\n"
            fd = os.open(CFG["log"], os.O_WRONLY | os.O_APPEND | os.O_CREAT)
            try:
                os.write(fd, line.encode())
            finally:
                os.close(fd)
        return res
    wrapper._c14_wrapped = True
    return wrapper


def install():
    """Wrap the worker step functions (module attributes, so that pickling by reference resolves to
    the wrapper in the forked children) and Pool._get_tasks (to see the chunks as they are cut)."""
    import multiprocessing.pool as mpp
    import cobra.flux_analysis.variability as V
    import cobra.flux_analysis.deletion as D
    for mod, name in ((V, "_fva_step"), (D, "_reaction_deletion_worker"), (D, "_gene_deletion_worker")):
        f = getattr(mod, name)
        if not getattr(f, "_c14_wrapped", False):
            setattr(mod, name, _wrap(f))
    if not getattr(mpp.Pool._get_tasks, "_c14_wrapped", False):
        orig = mpp.Pool._get_tasks

        def get_tasks(func, it, size):
            for f, chunk in orig(func, it, size):
                if CFG["chunks"] is not None:
                    CFG["chunks"][-1].append([_item_key(x) for x in chunk])
                yield f, chunk
        get_tasks._c14_wrapped = True
        mpp.Pool._get_tasks = staticmethod(get_tasks)
    # one more record per pool: ProcessPool construction starts a new chunk list
    import cobra.util.process_pool as PP
    if not getattr(PP.ProcessPool.__init__, "_c14_wrapped", False):
        oinit = PP.ProcessPool.__init__

        def init(self, *a, **k):
            if CFG["chunks"] is not None:
                CFG["chunks"].append([])
            return oinit(self, *a, **k)
        init._c14_wrapped = True
        PP.ProcessPool.__init__ = init


def observed_call(fn, seed, max_ms):
    """Run fn() with delays + logging; returns (result | exception, log entries, chunks per pool)."""
    fd, path = tempfile.mkstemp(prefix="c14log_", dir=CFG["tmp"])
    os.close(fd)
    CFG.update(log=path, seed=seed, max_ms=max_ms, chunks=[])
    try:
        try:
            out = ("ok", fn())
        except Exception as e:  # noqa
            out = ("exc", e)
    finally:
        log = [json.loads(l) for l in open(path)]
        chunks = CFG["chunks"]
        CFG.update(log=None, chunks=None)
        os.remove(path)
    return out, log, chunks


def events_from(log, chunks, order):
    """(worker index, chunk) in completion order for ONE pool / one serial pass.
    log: [pid, t, item] entries of this pass; chunks: as cut by Pool (None = serial)."""
    if chunks is None:
        return [[0, [x[2] for x in sorted(log, key=lambda x: x[1])]]]
    per_pid = {}
    for pid, t, item in sorted(log, key=lambda x: x[1]):
        per_pid.setdefault(pid, []).append((t, item))
    unused = [list(c) for c in chunks]
    evs = []
    widx = {}
    for pid, seq in per_pid.items():
        pos = 0
        while pos < len(seq):
            for c in unused:
                if [x[1] for x in seq[pos:pos + len(c)]] == c:
                    unused.remove(c)
                    widx.setdefault(pid, len(widx))
                    evs.append((seq[pos + len(c) - 1][0], widx[pid], c))
                    pos += len(c)
                    break
            else:
                return None     # log does not decompose into the chunks: reported by the caller
    if unused:
        return None
    evs.sort(key=lambda e: e[0])
    return [[w, c] for _, w, c in evs]


# ------------------------------------------------------------------------------ one case in a worker

def fr(x):
    """float -> exact "p/q" | None (nan)"""
    x = float(x)
    if math.isnan(x):
        return None
    if math.isinf(x):
        return "inf" if x > 0 else "-inf"
    f = Fraction(x)
    return "%d/%d" % (f.numerator, f.denominator)


def exc_code(e):
    return EXC_CODE.get(type(e).__name__, 101)


def run_case(case):
    """case: {spec, analysis, runs:[{procs, perm_seed, delay_seed, max_ms}], ...} ->
    observation dict with single-item results and the runs."""
    import warnings
    import logging
    warnings.simplefilter("ignore")
    logging.disable(logging.CRITICAL)
    import cobra  # noqa
    from cobra.flux_analysis import (flux_variability_analysis, find_blocked_reactions, find_essential_genes,
                                     find_essential_reactions, single_reaction_deletion, single_gene_deletion,
                                     double_reaction_deletion, double_gene_deletion)
    install()
    model = build(case["spec"])
    an = case["analysis"]
    rids = [r.id for r in model.reactions]
    gids = [g.id for g in model.genes]
    sub = case.get("subset")
    obs = {"analysis": an, "tables": {}, "runs": [], "notes": []}

    def del_table(df):
        return {json.dumps(sorted(ids)): [STATUS_CODE.get(st, 9), fr(gr)] for ids, gr, st in
                zip(df["ids"], df["growth"], df["status"])}

    # ---------------------------------------------------------------- requested items + single calls
    if an in ("fva", "fva_frac", "blocked"):
        base = [rids[i % len(rids)] for i in sub] if sub is not None else list(rids)
        frac = 1.0 if an == "fva" else (0.5 if an == "fva_frac" else None)
        single = {}
        for r in sorted(set(base)):
            try:
                if an == "blocked":
                    got = list(find_blocked_reactions(model, [model.reactions.get_by_id(r)], processes=1))
                    # 7: the call for this item alone reported reactions that were not asked for
                    single[r] = [7] if any(x != r for x in got) else [1 if r in got else 0]
                else:
                    d = flux_variability_analysis(model, [r], fraction_of_optimum=frac, processes=1)
                    single[r] = [0, fr(d.at[r, "minimum"]), fr(d.at[r, "maximum"])]
            except Exception as e:  # noqa
                single[r] = [exc_code(e)]
        obs["tables"]["single"] = single
    elif an in ("srd", "sgd", "ess_genes", "ess_reactions"):
        ent = rids if an in ("srd", "ess_reactions") else gids
        f1 = single_reaction_deletion if an in ("srd", "ess_reactions") else single_gene_deletion
        base = [ent[i % len(ent)] for i in sub] if (sub is not None and an in ("srd", "sgd") and ent) else list(ent)
        single = {}
        for x in sorted(set(base)):
            single.update(del_table(f1(model, [x], processes=1)))
        obs["tables"]["single"] = single
        if an.startswith("ess"):
            thr = model.slim_optimize(error_value=None) * 1e-2
            obs["threshold"] = fr(thr)
    elif an in ("drd", "dgd"):
        ent = rids if an == "drd" else gids
        f2 = double_reaction_deletion if an == "drd" else double_gene_deletion
        n = len(ent)
        l1 = [ent[i % n] for i in case["lists"][0]] if n else []
        l2 = [ent[i % n] for i in case["lists"][1]] if n else []
        base = [l1, l2]
        single = {}
        for a in sorted(set(l1)):
            for b in sorted(set(l2)):
                single.update(del_table(f2(model, [a], [b], processes=1)))
        obs["tables"]["single"] = single
    obs["base"] = base

    # ---------------------------------------------------------------- the runs
    for run in case["runs"]:
        prng = random.Random(run["perm_seed"])
        if an in ("drd", "dgd"):
            items = [list(base[0]), list(base[1])]
            prng.shuffle(items[0])
            prng.shuffle(items[1])
            if run["perm_seed"] % 2:
                items = [items[1], items[0]]      # the pair lists swapped: same set of pairs
        else:
            items = list(base)
            if run["perm_seed"]:
                prng.shuffle(items)
        p = run["procs"]

        def call():
            if an in ("fva", "fva_frac"):
                return flux_variability_analysis(model, items, fraction_of_optimum=frac, processes=p)
            if an == "blocked":
                return find_blocked_reactions(model, [model.reactions.get_by_id(i) for i in items], processes=p)
            if an == "srd":
                return single_reaction_deletion(model, items, processes=p)
            if an == "sgd":
                return single_gene_deletion(model, items, processes=p)
            if an == "drd":
                return double_reaction_deletion(model, items[0], items[1], processes=p)
            if an == "dgd":
                return double_gene_deletion(model, items[0], items[1], processes=p)
            if an == "ess_genes":
                return sorted(g.id for g in find_essential_genes(model, processes=p))
            if an == "ess_reactions":
                return sorted(r.id for r in find_essential_reactions(model, processes=p))
            raise ValueError(an)

        (kind, out), log, chunks = observed_call(call, run["delay_seed"], run["max_ms"])
        ro = {"procs": p, "items": items, "delay_seed": run["delay_seed"], "raised": None, "passes": []}
        if kind == "exc":
            ro["raised"] = exc_code(out)
            ro["exc"] = "%s: %s" % (type(out).__name__, str(out)[:200])
        elif an in ("fva", "fva_frac"):
            ro["rows"] = [[i, fr(a), fr(b)] for i, a, b in zip(out.index, out["minimum"], out["maximum"])]
        elif an == "blocked":
            ro["rows"] = list(out)
        elif an in ("srd", "sgd", "drd", "dgd"):
            ro["rows"] = [[sorted(ids), STATUS_CODE.get(st, 9), fr(gr)]
                          for ids, gr, st in zip(out["ids"], out["growth"], out["status"])]
        else:
            ro["rows"] = out
        # the observed schedule(s)
        if kind == "ok" and an in ("fva", "fva_frac", "srd", "sgd", "drd", "dgd"):
            npass = 2 if an.startswith("fva") else 1
            if an.startswith("fva"):
                nitems = len(items)
                logs = [log[:0], log[:0]]
                if chunks:       # pools: pass k = k-th pool; split the log by membership in time order
                    # all entries of the first pool precede (in time) the creation of the second
                    srt = sorted(log, key=lambda x: x[1])
                    logs = [srt[:nitems], srt[nitems:]]
                else:
                    srt = sorted(log, key=lambda x: x[1])
                    logs = [srt[:nitems], srt[nitems:]]
            else:
                logs = [log]
            for k in range(npass):
                ch = chunks[k] if chunks and k < len(chunks) else None
                if ch is not None and not ch:
                    # chunksize == 1: Pool does not cut chunks, every item is its own task
                    ch = [[x[2]] for x in logs[k]]
                ev = events_from(logs[k], ch, None) if (ch is not None or logs[k]) else None
                ro["passes"].append({"events": ev, "pool": ch is not None,
                                     "chunks": ch, "n_log": len(logs[k])})
        obs["runs"].append(ro)
    return obs


def run_sampling(case):
    import warnings
    import logging
    warnings.simplefilter("ignore")
    logging.disable(logging.CRITICAL)
    import numpy as np
    from cobra.sampling import OptGPSampler
    model = build(case["spec"])
    out = {"analysis": "optgp", "runs": []}
    if case.get("pin"):
        # make the problem inhomogeneous: an equality user constraint with a non-zero right-hand side
        # (half of the largest |flux| some reaction can carry); then a centre that is wrong by a scale
        # factor is off the equality, which the next batch of the same sampler cannot hide
        best = None
        with model:
            for r in model.reactions:
                for d in ("max", "min"):
                    model.objective = r
                    model.objective_direction = d
                    v = model.slim_optimize()
                    if v == v and abs(v) > 1e-3 and abs(v) < 1e5 and (best is None or abs(v) > abs(best[1])):
                        best = (r.id, v)
        if best is None:
            out["runs"] = [{"procs": run["procs"], "seed": run["seed"], "n": run["n"], "error": "nothing to pin",
                            "valid_codes": None} for run in case["runs"]]
            return out
        r = model.reactions.get_by_id(best[0])
        half = round(best[1] / 2, 3)
        model.add_cons_vars([model.problem.Constraint(r.flux_expression, lb=half, ub=half, name="c14_pin")])
    for run in case["runs"]:
        frames = []
        err = None
        valid = None
        for rep in range(2):
            try:
                s = OptGPSampler(model, processes=run["procs"], thinning=run["thinning"], seed=run["seed"])
                df = s.sample(run["n"])
                frames.append(df)
                if rep == 0:
                    v = s.validate(df)
                    valid = sorted(set(v.tolist()))
                    # further batches on the SAME sampler object: the centre and the sample counter kept by the
                    # parent process after a parallel batch must leave the sampler in a state from which the
                    # next batch is valid again (an exception here is reported, not skipped)
                    try:
                        for _ in range(2):
                            more = s.sample(run["n"])
                            valid = sorted(set(valid) | set(s.validate(more).tolist()))
                            if more.shape[0] != df.shape[0]:
                                valid = sorted(set(valid) | {"rows:%d" % more.shape[0]})
                    except Exception as e:  # noqa
                        valid = sorted(set(valid) | {"later-batch %s: %s" % (type(e).__name__, str(e)[:80])})
            except Exception as e:  # noqa
                err = "%s: %s" % (type(e).__name__, str(e)[:160])
                break
        ro = {"procs": run["procs"], "seed": run["seed"], "n": run["n"], "error": err, "valid_codes": valid}
        if not err:
            a, b = frames
            ro["shape"] = list(a.shape)
            ro["expected_rows"] = int(math.ceil(run["n"] / run["procs"]) * run["procs"]) if run["procs"] > 1 else run["n"]
            ro["identical"] = bool(a.shape == b.shape and list(a.columns) == list(b.columns)
                                   and a.to_numpy().tobytes() == b.to_numpy().tobytes())
            ro["maxdiff"] = float(np.max(np.abs(a.to_numpy() - b.to_numpy()))) if a.shape == b.shape and a.size else 0.0
            ro["finite"] = bool(np.isfinite(a.to_numpy()).all())
        out["runs"].append(ro)
    return out


def worker_main(path_in, path_out):
    cases = json.load(open(path_in))
    CFG["tmp"] = os.path.dirname(path_in)
    res = []
    for c in cases:
        t0 = time.time()
        try:
            o = run_sampling(c) if c["analysis"] == "optgp" else run_case(c)
        except Exception as e:  # noqa: harness-level failure, reported as a fault (never a VIOLATION)
            import traceback
            o = {"analysis": c["analysis"], "fault": traceback.format_exc()[-1500:]}
        o["id"] = c["id"]
        o["wall"] = round(time.time() - t0, 2)
        res.append(o)
    json.dump(res, open(path_out, "w"))


# ------------------------------------------------------------------------------ case generation (main)

def gen_cases(rng, tier):
    n_nets = 14 if tier == "quick" else 60
    specs = [gen_network(rng, i) for i in range(n_nets)]
    cases = []
    cid = 0

    def runs_for(an, n_perm):
        rs = [{"procs": 1, "perm_seed": 0, "delay_seed": 0, "max_ms": 0}]
        procs = [2, 3, 5, 8, rng.choice([2, 3, 4])] if tier == "quick" else [2, 3, 5, 8, 2, 3, 5, 8, 4, 6]
        for k, p in enumerate(procs):
            rs.append({"procs": p, "perm_seed": rng.randint(1, 10 ** 6) if k % n_perm else 2 * rng.randint(1, 10 ** 5),
                       "delay_seed": rng.randint(0, 10 ** 6), "max_ms": rng.choice([4, 10, 20])})
        if tier != "quick":
            rs.append({"procs": 1, "perm_seed": rng.randint(1, 10 ** 6), "delay_seed": 1, "max_ms": 0})
        return rs

    for si, spec in enumerate(specs):
        ans = list(ANALYSES)
        for an in ans:
            c = {"id": cid, "spec": spec, "analysis": an, "runs": runs_for(an, 2)}
            if an in ("fva", "fva_frac", "blocked", "srd", "sgd") and rng.random() < 0.4:
                # a subset, sometimes with a duplicate id in the request
                k = rng.randint(2, 6)
                c["subset"] = [rng.randint(0, 30) for _ in range(k)]
                if rng.random() < 0.5 and an in ("fva", "fva_frac"):
                    c["subset"].append(c["subset"][0])
            if an in ("drd", "dgd"):
                c["lists"] = [[rng.randint(0, 30) for _ in range(rng.randint(2, 4))],
                              [rng.randint(0, 30) for _ in range(rng.randint(2, 4))]]
            cases.append(c)
            cid += 1
    # a request that raises: one reaction unbounded (not the objective)
    for k in range(2 if tier == "quick" else 5):
        spec = json.loads(json.dumps(rng.choice(specs)))
        spec["name"] += "_unb"
        if True:
            m = rng.choice(spec["mets"])
            spec["rxns"].append({"id": "FREE_in", "lb": 0, "ub": float("inf"), "st": {m: 1}, "gpr": ""})
            spec["rxns"].append({"id": "FREE_out", "lb": 0, "ub": float("inf"), "st": {m: -1}, "gpr": ""})
            cases.append({"id": cid, "spec": spec, "analysis": "fva", "runs": runs_for("fva", 2)[:4]})
            cid += 1
    if tier != "quick":
        tb = {"textbook": True, "name": "textbook"}
        for an in ("fva", "blocked", "sgd", "srd", "ess_genes", "ess_reactions"):
            cases.append({"id": cid, "spec": tb, "analysis": an,
                          "runs": [{"procs": 1, "perm_seed": 0, "delay_seed": 0, "max_ms": 0}] +
                                  [{"procs": p, "perm_seed": rng.randint(1, 10 ** 6), "delay_seed": rng.randint(0, 999),
                                    "max_ms": 3} for p in (2, 3, 5, 8)]})
            cid += 1
        cases.append({"id": cid, "spec": tb, "analysis": "dgd",
                      "lists": [[rng.randint(0, 136) for _ in range(6)], [rng.randint(0, 136) for _ in range(6)]],
                      "runs": [{"procs": 1, "perm_seed": 0, "delay_seed": 0, "max_ms": 0}] +
                              [{"procs": p, "perm_seed": rng.randint(1, 10 ** 6), "delay_seed": rng.randint(0, 999),
                                "max_ms": 3} for p in (2, 3, 5, 8)]})
        cid += 1
    # sampling
    samp_specs = specs[:3] if tier == "quick" else specs[:5] + [{"textbook": True, "name": "textbook"}]
    for spec in samp_specs:
        runs = [{"procs": p, "seed": rng.randint(1, 10 ** 6), "n": rng.choice([6, 9, 10]),
                 "thinning": rng.choice([3, 5])} for p in ([1, 2, 3] if tier == "quick" else [1, 2, 3, 5, 8])]
        cases.append({"id": cid, "spec": spec, "analysis": "optgp", "runs": runs})
        cid += 1
        # the same network made inhomogeneous, with n not a multiple of the process count
        runs2 = [{"procs": p, "seed": rng.randint(1, 10 ** 6), "n": rng.choice([5, 7, 11]),
                  "thinning": rng.choice([3, 5])} for p in ([2, 3] if tier == "quick" else [2, 3, 5, 8])]
        cases.append({"id": cid, "spec": spec, "analysis": "optgp", "runs": runs2, "pin": True})
        cid += 1
    return cases


# ------------------------------------------------------------------------------ Coq terms

def q(s):
    """"p/q" | None -> option Q term"""
    if s is None:
        return None
    if s in ("inf", "-inf"):
        return Some(Fraction(10 ** 30 if s == "inf" else -10 ** 30))
    return Some(Fraction(s))


def res_term(status, vals):
    return (status, [q(v) for v in vals])


def run_term(procs, items, events, raised, rows):
    return C("mkRun", procs, items, [(w, c) for w, c in (events or [])],
             None if raised is None else Some(raised), rows)


def coq_cases(o):
    """One observation -> list of (label, Coq term of Check.case, json-able summary)."""
    an = o["analysis"]
    out = []
    single = o["tables"]["single"]
    if an in ("fva", "fva_frac"):
        keys = sorted(single)
        code = {k: i for i, k in enumerate(keys)}
        any_exc = any(len(v) == 1 for v in single.values())
        for pas, col in ((0, 1), (1, 2)):
            tbl = [(code[k], res_term(v[0], [v[col]]) if len(v) > 1 else (v[0], [])) for k, v in sorted(single.items())]
            runs = []
            for r in o["runs"]:
                items = [code[i] for i in r["items"]]
                ev = None
                if r["passes"] and r["passes"][pas]["events"] is not None:
                    ev = [[w, [code[x] for x in c]] for w, c in r["passes"][pas]["events"]]
                rows = [] if r["raised"] is not None else [(code[x[0]], res_term(0, [x[col]])) for x in r["rows"]]
                runs.append(run_term(r["procs"], items, ev, r["raised"], rows))
            out.append(("%s-pass%d" % (an, pas), C("mkCase", 0, tbl, runs)))
            if any_exc:
                break
    elif an == "blocked":
        keys = sorted(single)
        code = {k: i for i, k in enumerate(keys)}
        tbl = [(code[k], (v[0], [])) for k, v in sorted(single.items())]
        # kind 1 over the requested ids: the result lists exactly the members, so encode per requested id
        runs = []
        for r in o["runs"]:
            items = [code[i] for i in r["items"]]
            if r["raised"] is not None:
                rows = []
            else:
                # result order = request order filtered; duplicates cannot occur (ids are unique in a request here)
                rows = [(code[i], (1 if i in r["rows"] else 0, [])) for i in r["items"]]
                # the returned list itself must be the request filtered, in order
                if [i for i in r["items"] if i in set(r["rows"])] != list(r["rows"]):
                    rows = rows[::-1] if len(rows) > 1 else [(999, (7, []))]
            runs.append(run_term(r["procs"], items, None, r["raised"], rows))
        out.append((an, C("mkCase", 0, tbl, runs)))
    elif an in ("srd", "sgd", "drd", "dgd"):
        keys = sorted(single)
        code = {k: i for i, k in enumerate(keys)}
        tbl = [(code[k], res_term(v[0], [v[1]])) for k, v in sorted(single.items())]
        ent_code = {}
        runs = []
        for r in o["runs"]:
            items = sorted(code.values())    # the request as a set of knock-out sets
            ev = None
            if r["passes"] and r["passes"][0]["events"] is not None:
                try:
                    ev = [[w, [code[json.dumps(x)] for x in c]] for w, c in r["passes"][0]["events"]]
                    # model items for this run: in the order the pool iterated them (chunks) when known
                    if r["passes"][0]["chunks"] is not None:
                        items = [code[json.dumps(x)] for c in r["passes"][0]["chunks"] for x in c]
                    else:
                        items = [x for _, c in ev for x in c]
                except KeyError:
                    ev = [[0, [998]]]
            rows = [] if r["raised"] is not None else \
                [(code.get(json.dumps(x[0]), 997), res_term(x[1], [x[2]])) for x in r["rows"]]
            runs.append(run_term(r["procs"], items, ev, r["raised"], rows))
        out.append((an, C("mkCase", 1, tbl, runs)))
    else:  # essential sets: membership decided from the single deletions with the threshold envelope
        thr = Fraction(o["threshold"]) if o["threshold"] not in (None, "inf", "-inf") else None
        keys = sorted(single)
        code = {k: i for i, k in enumerate(keys)}
        tbl, skip = [], set()
        for k, v in sorted(single.items()):
            g = v[1]
            if g is None:
                mem = 1
            elif thr is None:
                mem = 0
            else:
                gv = Fraction(g) if g not in ("inf", "-inf") else Fraction(10 ** 30 if g == "inf" else -10 ** 30)
                if abs(gv - thr) <= Fraction(1, 10 ** 6) * max(1, abs(thr)):
                    skip.add(k)      # ill-conditioned at the threshold: envelope rule, not compared
                mem = 1 if gv < thr else 0
            tbl.append((code[k], (mem, [])))
        tbl = [t for t, k in zip(tbl, sorted(single)) if k not in skip]
        runs = []
        for r in o["runs"]:
            items = [code[k] for k in keys if k not in skip]
            rows = [] if r["raised"] is not None else \
                [(code[k], (1 if json.loads(k)[0] in r["rows"] else 0, [])) for k in keys if k not in skip]
            runs.append(run_term(r["procs"], items, None, r["raised"], rows))
        o["ill_conditioned"] = len(skip)
        out.append((an, C("mkCase", 1, tbl, runs)))
    return out


HEADER = ("From Coq Require Import ZArith List String QArith.\nFrom Cobra.Sched Require Import Model Check.\n"
          "Import ListNotations.\nOpen Scope Z_scope.\n")
CASE_TYPE = "case"


# ------------------------------------------------------------------------------ running shards

def run_shards(cases, tmp, hashseeds):
    jobs = max(1, min(int(os.environ.get("VERIF_JOBS", "6")), 6))
    shards = [[] for _ in range(min(jobs, len(cases)) or 1)]
    # longest first, round robin
    for i, c in enumerate(sorted(cases, key=lambda c: -len(c["runs"]))):
        shards[i % len(shards)].append(c)
    procs = []
    for k, sh in enumerate(shards):
        pin, pout = os.path.join(tmp, "in%d.json" % k), os.path.join(tmp, "out%d.json" % k)
        for c in sh:
            c["hashseed"] = hashseeds[k % len(hashseeds)]
        json.dump(sh, open(pin, "w"))
        env = dict(os.environ)
        env.update(PYTHONPATH=os.path.join(K.REPO, "src"), PYTHONHASHSEED=str(hashseeds[k % len(hashseeds)]),
                   PYTHONDONTWRITEBYTECODE="1", OMP_NUM_THREADS="1")
        procs.append((subprocess.Popen([K.PY, os.path.abspath(__file__), "--worker", pin, pout], env=env,
                                       stdout=subprocess.PIPE, stderr=subprocess.STDOUT, text=True), pout, k))
    obs, faults = [], []
    for p, pout, k in procs:
        try:
            out, _ = p.communicate(timeout=3000)
        except subprocess.TimeoutExpired:
            p.kill()
            out = "TIMEOUT"
        if p.returncode != 0 or not os.path.exists(pout):
            faults.append("worker shard %d rc=%s: %s" % (k, p.returncode, (out or "")[-800:]))
            continue
        obs.extend(json.load(open(pout)))
    return sorted(obs, key=lambda o: o["id"]), faults


def evaluate(observations, rep, cases_by_id, counters, samples):
    """Coq evaluation of all non-sampling observations; sampling decided here (no model state)."""
    terms, meta = [], []
    for o in observations:
        if "fault" in o:
            continue
        if o["analysis"] == "optgp":
            continue
        for label, term in coq_cases(o):
            terms.append(coq(term))
            meta.append((o["id"], label))
    results, faults = K.coq_eval_cases(HEADER, terms, CASE_TYPE, "report", shard=60)
    failing, info = {}, {}
    for idx, codes in results:
        if idx >= 1000000:
            info[idx - 1000000] = codes
        else:
            failing[idx] = codes
    counters["chunking_differs_from_model"] = sum(len(v) for v in info.values())
    return terms, meta, failing, faults


CODE_TEXT = {1: "model prediction (cobrapy dispatch + Pool chunking, round-robin) differs from the returned rows",
             2: "two runs of the same request (other process count / item order / delays) returned different values",
             3: "a returned row differs from the single-item call (or rows are not exactly the requested items)",
             4: "the observed schedule does not run every requested item exactly as often as requested",
             5: "the model run on the OBSERVED schedule differs from the returned rows"}


def skeleton_facts():
    import re
    p = os.path.join(K.THEORIES, "Gen", "SchedSkeleton.v")
    if not os.path.exists(p):
        return {"missing": True}
    t = open(p).read()
    d = {m.group(1): m.group(2) == "true" for m in re.finditer(r"Definition (\w+) : bool := (true|false)\.", t)}
    d["digest"] = hashlib.sha1(t.encode()).hexdigest()[:12]
    return d


LOOP_MEMBERS = ("SUCDi", "FRD7")      # the one thermodynamic loop of the shipped textbook model


def _loopless_order_job(job):
    """One request of loopless FVA on the shipped textbook model: single-item calls, then the list in the given order."""
    import warnings
    import logging
    warnings.simplefilter("ignore")
    logging.disable(logging.CRITICAL)
    from cobra.io import load_model
    from cobra.flux_analysis import flux_variability_analysis as fva
    m = load_model("textbook")
    frac, items, runs = job["fraction"], job["items"], job["runs"]
    single = {}
    for i in items:
        d = fva(m, [i], loopless=True, fraction_of_optimum=frac, processes=1)
        single[i] = [float(d.at[i, "minimum"]), float(d.at[i, "maximum"])]
    diffs = []
    for procs, order in runs:
        d = fva(m, order, loopless=True, fraction_of_optimum=frac, processes=procs)
        for i in order:
            got = [float(d.at[i, "minimum"]), float(d.at[i, "maximum"])]
            if max(abs(a - b) for a, b in zip(got, single[i])) > 1e-6 * max(1.0, max(abs(x) for x in single[i])):
                diffs.append({"item": i, "in_the_list": got, "alone": single[i], "processes": procs, "order": order})
    return {"job": job, "diffs": diffs, "n_runs": len(runs), "n_single": len(items)}


def loopless_order_monitor(rep, args):
    """Loopless FVA (not part of the Gallina schedule model: loopless_fva_iter is abstract there) on the shipped textbook
    model with fraction_of_optimum < 1: every item's row must equal the row of asking for that item alone, for every
    order and process count.  Rows of the two reactions that form the model's loop are a known finding (the value
    loopless_fva_iter returns for them depends on the vertex the solver happens to stop at); every other reaction never
    loses its optimum in the cycle-free projection, so its row is the plain FVA row whatever ran before."""
    from cobra.io import load_model
    import logging
    logging.disable(logging.CRITICAL)
    ids = [r.id for r in load_model("textbook").reactions]
    rng = random.Random(args.seed + 14)
    jobs = []
    for k in range(6 if args.tier == "quick" else 40):
        items = rng.sample([i for i in ids if i not in LOOP_MEMBERS], 5)
        items += [LOOP_MEMBERS[k % 2]] if k % 3 else list(LOOP_MEMBERS)
        runs = []
        for procs in (1, 2, 3):
            order = list(items)
            rng.shuffle(order)
            if procs == 1:
                order.sort(key=lambda i: i not in LOOP_MEMBERS)       # the loop members first: they run before the others
            runs.append([procs, order])
        jobs.append({"fraction": rng.choice([0.9, 0.5, 0.75]), "items": items, "runs": runs})
    out = {"requests": len(jobs), "runs": 0, "single_item_calls": 0, "rows_differing_on_loop_members": 0, "aborted": 0}
    for job, (st, res) in zip(jobs, K.map_isolated(_loopless_order_job, jobs, chunk=2, timeout=900)):
        if st != "ok":
            out["aborted"] += 1
            continue
        out["runs"] += res["n_runs"]
        out["single_item_calls"] += res["n_single"]
        for d in res["diffs"]:
            on_loop = d["item"] in LOOP_MEMBERS
            out["rows_differing_on_loop_members"] += on_loop
            rep.violation({"monitor": "loopless-fva-order", "model": "textbook", "item_on_the_loop": on_loop},
                          {"failed": "loopless FVA row of an item differs from asking for that item alone",
                           "model": "textbook", "fraction_of_optimum": job["fraction"], "difference": d,
                           "how_to_read": "flux_variability_analysis(load_model('textbook'), order, loopless=True, "
                                          "fraction_of_optimum=f, processes=p) against the same call with [item]"})
    return out


def main():
    args = K.parse_args([a for a in sys.argv[1:] if a != "--worker"])
    rep = K.Reporter(PROP, args.tier, args.seed)
    info, broken = K.standard_prelude(PROP, rep, extra_targets=["theories/Sched/Check.vo"])
    tmp = tempfile.mkdtemp(prefix="verif_c14_")
    counters = {"analyses": {}, "procs": {}, "pool_runs": 0, "serial_runs": 0, "schedules_observed": 0,
                "schedules_unobserved": 0, "raised_runs": 0, "single_item_calls": 0, "ill_conditioned": 0,
                "distinct_worker_assignments": 0, "sampling_runs": 0, "sampling_skipped": 0}
    samples = []
    try:
        if args.replay:
            rp = json.load(open(args.replay))
            cases = [rp["case"]] if "case" in rp else []
            hashseeds = [rp.get("hashseed", 0)]
        else:
            rng = random.Random(args.seed)
            cases = gen_cases(rng, args.tier)
            hashseeds = [0, 1, 7, 23, 101, 4242]
        by_id = {c["id"]: c for c in cases}
        t0 = time.time()
        observations, wfaults = run_shards(cases, tmp, hashseeds) if cases else ([], [])
        t_impl = time.time() - t0
        for o in observations:
            if "fault" in o:
                wfaults.append("case %s (%s): %s" % (o["id"], o["analysis"], o["fault"][-600:]))
        terms, meta, failing, cfaults = evaluate(observations, rep, by_id, counters, samples)
        # ---------------------------------------------------------------- counters
        assignments = set()
        for o in observations:
            if "fault" in o:
                continue
            an = o["analysis"]
            counters["analyses"][an] = counters["analyses"].get(an, 0) + 1
            if an == "optgp":
                continue
            counters["single_item_calls"] += len(o["tables"]["single"])
            counters["ill_conditioned"] += o.get("ill_conditioned", 0)
            for r in o["runs"]:
                counters["procs"][str(r["procs"])] = counters["procs"].get(str(r["procs"]), 0) + 1
                counters["raised_runs"] += r["raised"] is not None
                if any(p["pool"] for p in r["passes"]):
                    counters["pool_runs"] += 1
                else:
                    counters["serial_runs"] += 1
                for p in r["passes"]:
                    if p["events"] is None:
                        counters["schedules_unobserved"] += 1
                    else:
                        counters["schedules_observed"] += 1
                        assignments.add(json.dumps([o["id"], p["events"]]))
        counters["distinct_worker_assignments"] = len(assignments)
        # ---------------------------------------------------------------- violations from Coq
        n_dis = 0
        seen_sigs = set()
        for idx, codes in sorted(failing.items()):
            oid, label = meta[idx]
            case = by_id[oid]
            o = [x for x in observations if x["id"] == oid][0]
            bad_runs = sorted({r for r, _ in codes})
            first = codes[0]
            shr = dict(case)
            shr["runs"] = [case["runs"][i] for i in sorted(set([0] + bad_runs[:1]))]
            sig = {"analysis": case["analysis"], "code": first[1]}
            n_dis += 1
            if json.dumps(sig, sort_keys=True) in seen_sigs:
                continue        # one replay per (analysis, failure kind); all are counted
            seen_sigs.add(json.dumps(sig, sort_keys=True))
            rep.violation(sig, {"case": shr, "label": label, "codes": [[r, c, CODE_TEXT.get(c, "?")] for r, c in codes[:12]],
                                "failed": "correspondence/monitor Check.failing (code %d: %s)" % (first[1], CODE_TEXT.get(first[1])),
                                "implementation_observation": {"single": o["tables"]["single"],
                                                               "runs": [o["runs"][i] for i in bad_runs[:2]],
                                                               "first_run": o["runs"][0]},
                                "hashseed": case.get("hashseed", 0)})
        # ---------------------------------------------------------------- sampling
        for o in observations:
            if "fault" in o or o["analysis"] != "optgp":
                continue
            case = by_id[o["id"]]
            for k, r in enumerate(o["runs"]):
                if r["error"]:
                    counters["sampling_skipped"] += 1
                    continue
                counters["sampling_runs"] += 1
                why = None
                if not r["identical"]:
                    why = "two OptGP samplers with the same seed and process count returned different frames (max diff %g)" % r["maxdiff"]
                elif r["valid_codes"] != ["v"]:
                    why = "sampler.validate reports invalid samples (first or a later batch of the same sampler): %s" % r["valid_codes"]
                elif r["shape"][0] != r["expected_rows"]:
                    why = "unexpected number of samples %s (expected %d)" % (r["shape"], r["expected_rows"])
                if why:
                    shr = dict(case)
                    shr["runs"] = [case["runs"][k]]
                    rep.violation({"analysis": "optgp", "procs": r["procs"]},
                                  {"case": shr, "failed": why, "implementation_observation": r})
        # ---------------------------------------------------------------- broken obligations / faults
        if broken and rep.violations == 0:
            # decision rule: an obligation no longer checks and no concrete failing input was found
            for b in broken:
                rep.violation({"broken": True}, {"failed": b, "obligation": "proofs / generated skeleton obligations "
                                                 "(Sched/Current.v: worker_ok current_fva_skeleton = true, del_ok ..., "
                                                 "current_driver_facts)"}, no_input=True)
        elif broken:
            print("also: proof obligations no longer check: " + broken[0][:300].replace("\n", " "), flush=True)
        harness_faults = wfaults + cfaults
        if harness_faults:
            print("HARNESS FAULT (not a violation):\n" + "\n".join(harness_faults[:5]), flush=True)
        # ---------------------------------------------------------------- evidence
        n_eval = sum(len(o.get("runs", [])) for o in observations if "fault" not in o)
        for o in observations:
            if "fault" not in o and o["analysis"] != "optgp" and len(samples) < 3:
                samples.append({"analysis": o["analysis"], "network": by_id[o["id"]]["spec"].get("name"),
                                "request": o["base"], "run": {k: o["runs"][-1].get(k) for k in ("procs", "items", "rows", "raised")},
                                "schedule": o["runs"][-1]["passes"][0]["events"] if o["runs"][-1]["passes"] else None})
        cov = {
            "obligations": info["obligations"], "discharged": info["discharged"],
            "checker_cmd": info["checker_cmd"],
            "axioms_reported_by_Print_Assumptions": info["axioms"],
            "trusted_base": K.TRUSTED_COMMON + [
                "multiprocessing (fork, Pool, imap_unordered, pickling), the OS scheduler, GLPK/optlang and pandas are "
                "exercised, not verified; the model's abstract `solve`/`growth_of` stand for slim_optimize as a "
                "function of the LP (warm start assumed not to change optimal values)",
                "harness/tables_sched.py statement recogniser (fail-closed); the schedule observer "
                "(wrappers around _fva_step, the deletion workers, Pool._get_tasks, ProcessPool.__init__)"],
            "evaluations": n_eval,
            "coq_cases": len(terms),
            "distinct_nontrivial": counters["distinct_worker_assignments"],
            "rule": "evaluations = runs of a real analysis (one process count, one item order, one delay seed); "
                    "distinct_nontrivial = distinct observed (case, worker->chunk assignment, completion order) triples "
                    "of pool or serial passes that were fed to the model",
            "samples": samples,
            "traces_validated_against_impl": counters["schedules_observed"],
            "disagreements_checked": n_dis,
            "exhaustive": False,
            "input_distribution": counters,
            "impl_wall_s": round(t_impl, 1),
            "generated_skeleton_facts": skeleton_facts(),
            "harness_faults": harness_faults[:5],
            "loopless_order_monitor": loopless_order_monitor(rep, args) if not args.replay else {},
        }
        ev = {"coverage": cov,
              "assumptions": ["Real process scheduling, pickling of the model into the workers and multiprocessing itself "
                              "are explored (process counts, permutations, injected delays, hash seeds), not proved.",
                              "Solver warm start is assumed not to change optimal values.",
                              "loopless_fva_iter is abstract in the model (assumed to restore, C13); loopless FVA is covered by a monitor on "
                              "the shipped textbook model only (order / process count against single-item calls).",
                              "Sampling: reproducibility and validity are tested, not modelled."]}
        rc = rep.finish(ev)
        if harness_faults and rc == 0:
            rc = 2
        return rc
    finally:
        shutil.rmtree(tmp, ignore_errors=True)


if __name__ == "__main__":
    if len(sys.argv) > 1 and sys.argv[1] == "--worker":
        worker_main(sys.argv[2], sys.argv[3])
        sys.exit(0)
    sys.exit(main())
