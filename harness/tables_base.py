"""Base table: configuration defaults (bounds, tolerance) read from configuration.py."""
import ast
from tables_lib import section, parse, find_def, Abort


def _num(node):
    if isinstance(node, ast.UnaryOp) and isinstance(node.op, ast.USub):
        return -_num(node.operand)
    if isinstance(node, ast.Constant) and isinstance(node.value, (int, float)) and not isinstance(node.value, bool):
        return node.value
    raise Abort("numeric literal expected, got %s" % ast.dump(node))


def _q(x):
    from fractions import Fraction
    f = Fraction(repr(x)) if isinstance(x, float) else Fraction(x)
    s = "(%d # %d)%%Q" % (f.numerator, f.denominator)
    return s


@section("Config")
def config(repo):
    tree, _ = parse(repo, "core/configuration.py")
    init = find_def(tree, "__init__", "Configuration")
    vals = {}
    for node in ast.walk(init):
        if isinstance(node, ast.Assign) and len(node.targets) == 1:
            t = node.targets[0]
            if isinstance(t, ast.Attribute) and isinstance(t.value, ast.Name) and t.value.id == "self":
                vals[t.attr] = node.value
    out = []
    tol = _num(vals["tolerance"])
    out.append("Definition cfg_tolerance : Q := %s." % _q(tol))
    b = vals["bounds"]
    if not (isinstance(b, ast.Tuple) and len(b.elts) == 2):
        raise Abort("Configuration.bounds is not a 2-tuple literal")
    out.append("Definition cfg_lower_bound : Q := %s." % _q(_num(b.elts[0])))
    out.append("Definition cfg_upper_bound : Q := %s." % _q(_num(b.elts[1])))
    return "\n".join(out)
