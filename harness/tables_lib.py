"""Helpers for the fail-closed table translator."""
import ast
import os


class Abort(Exception):
    pass


def parse(repo, rel):
    p = os.path.join(repo, "src", "cobra", rel)
    return ast.parse(open(p).read(), p), p


def module_assign(tree, name):
    for node in tree.body:
        if isinstance(node, ast.Assign) and len(node.targets) == 1 and isinstance(node.targets[0], ast.Name) \
                and node.targets[0].id == name:
            return node.value
        if isinstance(node, ast.AnnAssign) and isinstance(node.target, ast.Name) and node.target.id == name:
            return node.value
    raise Abort("module-level assignment to %s not found" % name)


def coq_string(s):
    # list of code points
    return "[" + "; ".join("%d" % ord(c) for c in s) + "]%Z"


SECTIONS = []


def section(fn):
    SECTIONS.append(fn)
    return fn


