"""Helpers for the fail-closed table translator.

A *table module* is any file harness/tables_<name>.py.  It registers one or more sections
with `@section("FileStem")`; each section function receives the repository path and returns
Coq text; all sections registered for the same FileStem are concatenated into
coq/theories/Gen/<FileStem>.v.  A section that cannot recognise the shape of the source
raises Abort (or any exception): the file is then *removed*, so every proof that depends on
it stops compiling -- a broken tie, never a guess."""
import ast
import os


class Abort(Exception):
    pass


def parse(repo, rel):
    p = os.path.join(repo, "src", "cobra", rel)
    return ast.parse(open(p).read(), p), p


def module_assign(tree, name):
    for node in tree.body:
        if isinstance(node, ast.Assign) and len(node.targets) == 1 and isinstance(node.targets[0], ast.Name) \
                and node.targets[0].id == name:
            return node.value
        if isinstance(node, ast.AnnAssign) and isinstance(node.target, ast.Name) and node.target.id == name:
            return node.value
    raise Abort("module-level assignment to %s not found" % name)


def find_def(tree, name, cls=None):
    """FunctionDef `name` at module level, or inside class `cls`."""
    body = tree.body
    if cls is not None:
        for node in tree.body:
            if isinstance(node, ast.ClassDef) and node.name == cls:
                body = node.body
                break
        else:
            raise Abort("class %s not found" % cls)
    for node in body:
        if isinstance(node, (ast.FunctionDef, ast.AsyncFunctionDef)) and node.name == name:
            return node
    raise Abort("def %s not found" % name)


def coq_string(s):
    """Python str -> Coq list of code points (list Z)."""
    return "[" + "; ".join("%d" % ord(c) for c in s) + "]%Z"


def coq_ascii_string(s):
    """Python str (printable ASCII) -> Coq string literal."""
    if any(ord(c) < 32 or ord(c) > 126 for c in s):
        raise Abort("non printable-ASCII character in %r" % s)
    return '"' + s.replace('"', '""') + '"%string'


SECTIONS = []   # (file stem, function)


def section(stem):
    def deco(fn):
        SECTIONS.append((stem, fn))
        return fn
    return deco
