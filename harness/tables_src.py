"""Table sections for translate_tables.py (one function per source area)."""
from tables_lib import section, parse, module_assign, Abort, coq_string  # noqa: F401
import ast


@section
def placeholder(repo):
    return "Definition tables_version : Z := 1."
