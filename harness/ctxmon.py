"""C03 — specification-level monitor over operations that are OUTSIDE the three Gallina kernels.

`with model:` promises that every change documented as reversible is undone on exit.  The kernels (Core, Genes,
Groups) model their operations; this module exercises the remaining public, context-aware entry points on real
models and decides only ONE thing, the property itself: the complete observation (harness/obsmodel.py: objects,
cross references, objective, raw GLPK problem) after `__exit__` equals the one at the matching `__enter__`, and
`__exit__` does not raise.  No model of the operations is involved (a block is specified by its effect), so this is
a monitor on explored inputs, not a theorem.

Operations (each documented as reversible in a context): objective coefficient assignment on top of objectives of
several shapes (dict, a single forward variable, the pFBA objective installed before the block), objective
assignment by reaction / dict / expression, direction; the `Reaction.reaction` equation setter and
build_reaction_from_string on reactions with non-default bounds; add_boundary (demand / sink / exchange); the medium
setter; gene knock-outs (Gene.knock_out, knock_out_model_genes); add_cons_vars / remove_cons_vars; in-place reaction
arithmetic (+=, -=, *=); gene_reaction_rule; add_pfba / fix_objective_as_constraint / add_loopless-free helpers;
whole analyses called inside the user's block (pfba, FVA, single deletions).
"""
import os
import random
import sys
import warnings

sys.path.insert(0, os.path.dirname(os.path.abspath(__file__)))
import common as K  # noqa: E402
import gennet  # noqa: E402

sys.path.insert(0, os.path.join(K.REPO, "src"))


def _ops(rng, m, cobra):
    """One random reversible operation as (label, callable)."""
    from cobra.flux_analysis import pfba, flux_variability_analysis, single_reaction_deletion
    from cobra.flux_analysis.parsimonious import add_pfba
    from cobra.manipulation.delete import knock_out_model_genes
    from cobra.util.solver import fix_objective_as_constraint
    rx = list(m.reactions)
    if not rx or not len(m.metabolites):
        return ("slim_optimize", lambda: m.slim_optimize())
    r = rng.choice(rx)
    r2 = rng.choice(rx)
    mets = list(m.metabolites)
    x = rng.choice(mets)
    c = rng.choice([1.0, -1.0, 2.0, 0.5, 0.0])
    P = m.problem
    choices = [
        ("objective_coefficient", lambda: setattr(r, "objective_coefficient", c)),
        ("objective=reaction", lambda: setattr(m, "objective", r)),
        ("objective=dict", lambda: setattr(m, "objective", {r: c, r2: 1.0})),
        ("objective=forward_variable", lambda: setattr(m, "objective", P.Objective(r.forward_variable, direction="max"))),
        ("objective=expression", lambda: setattr(m, "objective", P.Objective(
            2 * r.flux_expression - r2.forward_variable, direction=rng.choice(["max", "min"])))),
        ("direction", lambda: setattr(m, "objective_direction", rng.choice(["max", "min"]))),
        ("reaction=equation", lambda: setattr(r, "reaction", "%s + %s --> %s" % (
            x.id, rng.choice(mets).id, rng.choice(mets).id))),
        ("reaction=equation_rev", lambda: setattr(r, "reaction", "2 %s <=> %s" % (x.id, rng.choice(mets).id))),
        ("build_reaction_from_string", lambda: r.build_reaction_from_string("%s <-- %s" % (x.id, rng.choice(mets).id))),
        ("bounds", lambda: setattr(r, "bounds", rng.choice([(0, 5), (-3, 3), (2, 2), (-10, 0)]))),
        ("knock_out", lambda: r.knock_out()),
        ("add_boundary_demand", lambda: m.add_boundary(x, type="demand")),
        ("add_boundary_sink", lambda: m.add_boundary(x, type="sink")),
        ("add_boundary_custom", lambda: m.add_boundary(x, type="my", reaction_id="BND_%s" % x.id, lb=-2, ub=3)),
        ("medium", lambda: setattr(m, "medium", {k: v / 2 for k, v in list(m.medium.items())[:2]})),
        ("add_cons_vars", lambda: m.add_cons_vars([P.Constraint(r.flux_expression + r2.forward_variable, lb=-1, ub=7,
                                                                  name="user_c_%d" % rng.randrange(10 ** 6))])),
        ("add_var", lambda: m.add_cons_vars([P.Variable("user_v_%d" % rng.randrange(10 ** 6), lb=0, ub=4)])),
        # calls the solver interface rejects (wrong kind of object, misspelt keyword): nothing is added, nothing may stay behind
        ("add_cons_vars_rejected", lambda: m.add_cons_vars([r])),
        ("add_cons_vars_bad_keyword", lambda: m.add_cons_vars([P.Variable("user_w_%d" % rng.randrange(10 ** 6))], slopy=True)),
        ("iadd", lambda: r.__iadd__(r2) if r is not r2 else None),
        ("isub", lambda: r.__isub__(r2) if r is not r2 else None),
        ("imul", lambda: r.__imul__(rng.choice([2, -1, 0.5]))),
        ("add_metabolites", lambda: r.add_metabolites({x: rng.choice([1.0, -2.0])})),
        ("add_metabolites_replace", lambda: r.add_metabolites({x: 3.0}, combine=False)),
        ("subtract_metabolites", lambda: r.subtract_metabolites({x: 1.0})),
        ("gene_reaction_rule", lambda: setattr(r, "gene_reaction_rule", rng.choice(["", "g0", "g0 and g9", "g1 or g2"]))),
        ("remove_reactions", lambda: m.remove_reactions([r], remove_orphans=rng.random() < 0.5)),
        ("remove_metabolites", lambda: m.remove_metabolites([x], destructive=rng.random() < 0.3)),
        ("add_reaction_new", lambda: m.add_reactions([_new_reaction(cobra, rng, mets)])),
        ("add_pfba", lambda: add_pfba(m)),
        ("fix_objective_as_constraint", lambda: fix_objective_as_constraint(m)),
        ("analysis:pfba", lambda: pfba(m)),
        ("analysis:fva", lambda: flux_variability_analysis(m, rx[:2], processes=1)),
        ("analysis:single_reaction_deletion", lambda: single_reaction_deletion(m, rx[:2], processes=1)),
        ("slim_optimize", lambda: m.slim_optimize()),
    ]
    if len(m.genes):
        g = rng.choice(list(m.genes))
        choices += [("gene.knock_out", lambda: g.knock_out()),
                    ("knock_out_model_genes", lambda: knock_out_model_genes(m, [g.id]))]
    return rng.choice(choices)


def _new_reaction(cobra, rng, mets):
    r = cobra.Reaction("ZN_%d" % rng.randrange(10 ** 6))
    r.bounds = rng.choice([(0, 10), (-5, 5), (1, 4)])
    r.add_metabolites({rng.choice(mets): -1.0, rng.choice(mets): 1.0})
    return r


PRE = ["none", "none", "pfba_objective", "forward_variable_objective", "two_term_objective", "optimized"]


def run_case(seed):
    """Returns (labels, failure | None)."""
    import logging
    import cobra
    import obsmodel
    from cobra.flux_analysis.parsimonious import add_pfba
    logging.disable(logging.CRITICAL)
    warnings.simplefilter("ignore")
    rng = random.Random(seed)
    net = gennet.gen_network(rng, finite_only=rng.random() < 0.7, genes=True, max_rxns=7)
    m = gennet.to_cobra(net, "glpk" if seed % 4 else "glpk_exact")
    pre = rng.choice(PRE)
    try:
        if pre == "pfba_objective":
            add_pfba(m)                              # outside any block: this IS the model's objective now
        elif pre == "forward_variable_objective":
            m.objective = m.problem.Objective(m.reactions[0].forward_variable, direction="max")
        elif pre == "two_term_objective":
            m.objective = {m.reactions[0]: 1.0, m.reactions[-1]: -2.0}
        elif pre == "optimized":
            m.slim_optimize()
    except Exception:  # noqa  (e.g. infeasible model for add_pfba)
        pre = "none"
    labels = ["pre:" + pre]
    stack = []
    fail = None
    n_ops = rng.randrange(2, 7)
    depth_plan = rng.choice([1, 1, 2])
    try:
        for d in range(depth_plan):
            stack.append(obsmodel.observe(m))
            m.__enter__()
            labels.append("enter")
            for _ in range(max(1, n_ops // depth_plan)):
                label, fn = _ops(rng, m, cobra)
                labels.append(label)
                try:
                    fn()
                except Exception as e:  # noqa  an operation may raise (its partial effects must be undone as well)
                    labels[-1] = label + "!" + type(e).__name__
        while stack:
            before = stack.pop()
            try:
                m.__exit__(None, None, None)
            except Exception as e:  # noqa
                fail = {"what": "__exit__ raised", "exception": "%s: %s" % (type(e).__name__, str(e)[:200])}
                break
            labels.append("exit")
            d = obsmodel.diff(before, obsmodel.observe(m))
            if d:
                fail = {"what": "model not restored after leaving the context", "differences": d[:10]}
                break
    except Exception as e:  # noqa  harness trouble (observation failed, ...)
        msg = "%s: %s" % (type(e).__name__, str(e)[:200])
        if "Constraint fixed_objective_" in msg:     # optlang cannot flush its pending removals any more
            fail = {"what": "__exit__ raised", "exception": msg, "note": "raised while the solver was read back"}
        else:
            fail = {"what": "harness", "exception": msg}
    return labels, fail


def _job(seed):
    try:
        return seed, run_case(seed)
    except BaseException as e:  # noqa
        return seed, (["<crash>"], {"what": "harness", "exception": "%s: %s" % (type(e).__name__, e)})


def classify(fail):
    """'row_terms': only coefficients of the removed reaction's variables in constraints that are not metabolite rows
    differ (user constraints, the fixed_objective_* row); 'fixed_objective_lost': a fixed_objective_* constraint is
    missing after the exit / its recorded removal fails; anything else is 'other'."""
    import re
    if fail["what"] == "__exit__ raised":
        return "fixed_objective_lost" if "Constraint fixed_objective_" in fail.get("exception", "") else "other"
    d = fail.get("differences") or []
    if d and all(re.match(r"raw\['rows'\]\['(user_c_\d+|fixed_objective_[^']*)'\]\['coefficients'\]", x) for x in d):
        return "row_terms"
    if d and all(re.match(r"raw\['rows'\]\['fixed_objective_[^']*'\]: only in", x) or
                 re.match(r"raw\['rows'\]\['(user_c_\d+|fixed_objective_[^']*)'\]\['coefficients'\]", x) for x in d):
        return "fixed_objective_lost"
    return "other"


def signature(labels, fail):
    ops = [x.split("!")[0] for x in labels if x not in ("enter", "exit") and not x.startswith("pre:")]
    return {"kernel": "ctxmon", "what": fail["what"], "class": classify(fail), "pre": labels[0][4:], "ops": sorted(set(ops))}


def shrink(seed, labels, fail):
    """the seed determines the case; nothing to shrink structurally — report which operations were in the block"""
    return {"case": {"ctxmon_seed": seed}, "operations_in_order": labels, "failed": fail["what"], "detail": fail,
            "how_to_read": "python3 -c \"import sys; sys.path.insert(0,'harness'); import ctxmon; "
                           "print(ctxmon.run_case(%d))\"" % seed}


def run(rep, args, rng):
    """extra of the C03 check (harness/core.py main)."""
    n = 220 if args.tier == "quick" else 6000
    if getattr(args, "replay", None):
        return {}
    seeds = []
    cdir = os.path.join(K.VERIF, "corpus", "C03", "ctxmon")        # pinned cases run first
    if os.path.isdir(cdir):
        import json
        for f in sorted(os.listdir(cdir)):
            if f.endswith(".json"):
                seeds.append(json.load(open(os.path.join(cdir, f)))["case"]["ctxmon_seed"])
    seeds += [rng.randrange(1 << 30) for _ in range(n)]
    # every block runs in its own forked child (GLPK now and then aborts the whole process on an internal assertion,
    # e.g. bflib/sgf.c: a pool would hang on the dead worker); a few threads keep the children in flight
    from concurrent.futures import ThreadPoolExecutor

    def isolated(seed):
        kind, val = K.run_isolated(_job, seed, timeout=180)
        if kind == "ok":
            return val
        return seed, (["<aborted>"], {"what": "aborted", "exception": str(val)[:200]})
    with ThreadPoolExecutor(max_workers=min(K.JOBS, 8)) as ex:
        res = list(ex.map(isolated, seeds))
    dist, n_fail, seen = {}, 0, set()
    harness_faults = 0
    aborted = sum(1 for _, (_, f) in res if f is not None and f["what"] == "aborted")
    res = [(sd, (lab, None if (f is not None and f["what"] == "aborted") else f)) for sd, (lab, f) in res]
    for seed, (labels, fail) in res:
        for x in labels:
            k = x.split("!")[0]
            dist[k] = dist.get(k, 0) + 1
        if fail is None:
            continue
        if fail["what"] == "harness":
            harness_faults += 1
            continue
        n_fail += 1
        sig = signature(labels, fail)
        key = (sig["what"], sig["class"], tuple(sig["ops"]) if sig["class"] == "other" else ())
        if key in seen or len(seen) >= 6:
            continue
        seen.add(key)
        rep.violation(sig, shrink(seed, labels, fail))
    return {"blocks_checked": n, "failures": n_fail, "harness_faults": harness_faults,
            "aborted_by_solver_library_or_timeout": aborted, "operation_distribution": dist,
            "decides": "observation at __enter__ == observation after __exit__ (obsmodel.diff), __exit__ does not raise"}


if __name__ == "__main__":
    import json
    s = int(sys.argv[1]) if len(sys.argv) > 1 else 1
    print(json.dumps(run_case(s), indent=1, default=str))
