"""Writes MANIFEST.json from the table below (kept in one place so it stays valid)."""
import json, os
VERIF = os.path.dirname(os.path.dirname(os.path.abspath(__file__)))

CHECKS = {
 "C15": dict(
   text="Coq proof over an executable Gallina model of DictList (list + incremental id->position dictionary): "
        "every operation preserves index coherence, refines a plain unique-id list specification, and leaves "
        "the list unchanged when it raises; lifted to all histories by induction. Tied to the code on every run "
        "by a correspondence check (all single steps over a bounded space + random histories, model evaluated by "
        "vm_compute in coqc on the implementation's observations) and the Coq-defined coherence monitor on the "
        "real list and _dict.",
   note="Trusted: Coq kernel + vm_compute, the Python harness and Coq term printer, CPython list semantics as "
        "modelled (slice index adjustment, list.insert clamping). Not modelled: regex queries, renaming elements "
        "while they are in a list.",
   technique="Coq proof (invariant + refinement by induction over operation lists) + model/implementation correspondence",
   design="4 C15"),
}

NOT_YET = {}

def main():
    props = [json.loads(l) for l in open(os.path.join(VERIF, "properties.jsonl"))]
    checks = []
    na = []
    for p in props:
        pid = p["id"]
        if pid in CHECKS:
            c = CHECKS[pid]
            checks.append({
                "property_id": pid,
                "quick_cmd": "bin/check %s --tier quick" % pid,
                "thorough_cmd": "bin/check %s --tier thorough" % pid,
                "evidence_file": "/verif/evidence/%s.json" % pid,
                "replay_cmd_template": "bin/check %s --replay {path}" % pid,
                "engine": "coq-proof+correspondence",
                "level_claimed": {"category": "proof", "text": c["text"], "design_ref": "DESIGN.md section " + c["design"]},
                "level_note": c["note"],
                "technique": c["technique"],
            })
        else:
            na.append({"property_id": pid, "reason": NOT_YET.get(pid, "check not built yet in this round (Coq model planned in DESIGN.md section 4); not claimed")})
    m = {
        "version": 1,
        "setup_cmd": "bin/setup",
        "hooks": {"guard": "COBRAPY_VERIF", "enable": "no hooks are installed in /repo; fault injection and observation are done from the harness by wrapping functions at run time",
                  "baseline_off_cmd": "cd /repo && /venv/bin/python -m pytest -ra -q -p no:cacheprovider --timeout=900 --continue-on-collection-errors",
                  "source_commits": [], "add_only": True},
        "engines": [{"name": "coq-proof+correspondence", "path": "coq/ harness/ bin/check",
                     "serves_properties": sorted(CHECKS),
                     "kind_free_text": "Gallina models + Coq 8.16.1 proofs (coq/theories), regenerated tables (harness/translate_tables.py), "
                                       "correspondence check running model (vm_compute in coqc) and implementation on the same cases"}],
        "checks": checks,
        "not_applicable": na,
        "notes": "All checks: bin/check <id> [--tier quick|thorough] [--seed N] [--replay file]; VERIF_SEED / VERIF_TIER are honoured.",
    }
    json.dump(m, open(os.path.join(VERIF, "MANIFEST.json"), "w"), indent=1)

if __name__ == "__main__":
    main()
