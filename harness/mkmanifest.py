"""Writes MANIFEST.json from harness/manifest.d/<id>.json (one fragment per claimed property:
{"text", "note", "technique", "design", optional "category", optional "na_reason"}).
A property without a fragment (or whose fragment has "na_reason") goes to not_applicable."""
import glob
import json
import os
VERIF = os.path.dirname(os.path.dirname(os.path.abspath(__file__)))


def main():
    props = [json.loads(l) for l in open(os.path.join(VERIF, "properties.jsonl"))]
    frags = {}
    for p in glob.glob(os.path.join(VERIF, "harness", "manifest.d", "*.json")):
        frags[os.path.basename(p)[:-5]] = json.load(open(p))
    checks, na = [], []
    for p in props:
        pid = p["id"]
        c = frags.get(pid)
        if c and not c.get("na_reason") and os.path.exists(os.path.join(VERIF, "harness", pid.lower() + ".py")):
            checks.append({
                "property_id": pid,
                "quick_cmd": "bin/check %s --tier quick" % pid,
                "thorough_cmd": "bin/check %s --tier thorough" % pid,
                "evidence_file": "/verif/evidence/%s.json" % pid,
                "replay_cmd_template": "bin/check %s --replay {path}" % pid,
                "engine": "coq-proof+correspondence",
                "level_claimed": {"category": c.get("category", "proof"), "text": c["text"],
                                  "design_ref": "DESIGN.md section " + c["design"]},
                "level_note": c["note"],
                "technique": c["technique"],
            })
        else:
            na.append({"property_id": pid, "reason": (c or {}).get(
                "na_reason", "no check built yet (Coq model planned in DESIGN.md section 4); not claimed")})
    m = {
        "version": 1,
        "setup_cmd": "bin/setup",
        "hooks": {"guard": "COBRAPY_VERIF",
                  "enable": "no hooks are installed in /repo; fault injection and observation are done from the "
                            "harness by wrapping functions at run time",
                  "baseline_off_cmd": "cd /repo && /venv/bin/python -m pytest -ra -q -p no:cacheprovider "
                                      "--timeout=900 --continue-on-collection-errors",
                  "source_commits": [], "add_only": True},
        "engines": [{"name": "coq-proof+correspondence", "path": "coq/ harness/ bin/check",
                     "serves_properties": sorted(c["property_id"] for c in checks),
                     "kind_free_text": "Gallina models + Coq 8.16.1 proofs (coq/theories), tables regenerated from the "
                                       "source (harness/translate_tables.py), correspondence check running model "
                                       "(vm_compute in coqc) and implementation on the same cases"}],
        "checks": checks,
        "not_applicable": na,
        "notes": "All checks: bin/check <id> [--tier quick|thorough] [--seed N] [--replay file]; VERIF_SEED / "
                 "VERIF_TIER are honoured.",
    }
    json.dump(m, open(os.path.join(VERIF, "MANIFEST.json"), "w"), indent=1)


if __name__ == "__main__":
    main()
