"""Exact rational LP solving with certificates (UNTRUSTED search procedure).

The certificates are checked by the proved Coq checkers of coq/theories/LP/Cert.v
(`check_opt`, `check_infeasible`, `check_unbounded`); this module only has to *find* them.
It also contains a Python replica of those checkers, used to self-test the certificates
before they are shipped to coqc (a replica failure is a harness fault, never a verdict).

Problem format (all numbers fractions.Fraction, None = infinite on that side):
    lp = {"vb": [(lo, hi), ...], "rows": [(coefs, lo, hi), ...], "obj": [c_j ...]}   -- MAXIMISE
solve(lp) -> ("optimal", x, y) | ("infeasible", y) | ("unbounded", x, r)
"""
from fractions import Fraction as F

ZERO = F(0)


# ------------------------------------------------------------------ replica of the Coq checkers
def dot(a, x):
    return sum((ai * xi for ai, xi in zip(a, x)), ZERO)


def _ub_term(k, lo, hi):
    if k > 0:
        return None if hi is None else k * hi
    if k < 0:
        return None if lo is None else k * lo
    return ZERO


def dual_bound(lp, c, ys):
    n = len(lp["vb"])
    if len(ys) > len(lp["rows"]):
        return None
    d = list(c) + [ZERO] * max(0, n - len(c))
    for y, (coefs, _, _) in zip(ys, lp["rows"]):
        for j, a in enumerate(coefs):
            if j >= len(d):
                d.append(ZERO)
            d[j] -= y * a
    if len(d) > n and any(v != 0 for v in d[n:]):
        return None
    total = ZERO
    for k, (lo, hi) in zip(d, lp["vb"]):
        t = _ub_term(k, lo, hi)
        if t is None:
            return None
        total += t
    for y, (_, lo, hi) in zip(ys, lp["rows"]):
        t = _ub_term(y, lo, hi)
        if t is None:
            return None
        total += t
    return total


def inb(lo, hi, v):
    return (lo is None or lo <= v) and (hi is None or v <= hi)


def feasible(lp, x):
    if len(x) != len(lp["vb"]):
        return False
    return all(inb(lo, hi, v) for (lo, hi), v in zip(lp["vb"], x)) and \
        all(inb(lo, hi, dot(c, x)) for c, lo, hi in lp["rows"])


def check_opt(lp, x, ys):
    if not feasible(lp, x):
        return False
    b = dual_bound(lp, lp["obj"], ys)
    return b is not None and b <= dot(lp["obj"], x)


def check_infeasible(lp, ys):
    b = dual_bound(lp, [], ys)
    return b is not None and b < 0


def check_unbounded(lp, x, r):
    if not feasible(lp, x) or len(r) != len(lp["vb"]):
        return False

    def dir_ok(lo, hi, v):
        return (lo is None or v >= 0) and (hi is None or v <= 0)
    return all(dir_ok(lo, hi, v) for (lo, hi), v in zip(lp["vb"], r)) and \
        all(dir_ok(lo, hi, dot(c, r)) for c, lo, hi in lp["rows"]) and dot(lp["obj"], r) > 0


# ------------------------------------------------------------------ standard form + simplex
class _Std:
    """max c.z  s.t.  A z = b (b >= 0), z >= 0, built from a bounded-variable ranged-row LP."""

    def __init__(self, lp):
        n = len(lp["vb"])
        self.n = n
        self.zmap = []      # per x_j: list of (z index, sign) and shift
        self.shift = []
        nz = 0
        extra_rows = []     # upper-bound rows for doubly bounded variables: (zidx, rhs)
        for j, (lo, hi) in enumerate(lp["vb"]):
            if lo is not None:
                self.zmap.append([(nz, 1)]); self.shift.append(lo)
                if hi is not None:
                    extra_rows.append((nz, hi - lo))
                nz += 1
            elif hi is not None:
                self.zmap.append([(nz, -1)]); self.shift.append(hi); nz += 1
            else:
                self.zmap.append([(nz, 1), (nz + 1, -1)]); self.shift.append(ZERO); nz += 2
        self.nstruct = nz
        rows = []           # (coef dict over z, kind in {"eq","le","ge"}, rhs, origin)
        for i, (coefs, lo, hi) in enumerate(lp["rows"]):
            cz, const = {}, ZERO
            for j, a in enumerate(coefs):
                if a == 0:
                    continue
                const += a * self.shift[j]
                for zi, s in self.zmap[j]:
                    cz[zi] = cz.get(zi, ZERO) + a * s
            if lo is not None and hi is not None and lo == hi:
                rows.append((cz, "eq", lo - const, i))
            else:
                if lo is not None:
                    rows.append((dict(cz), "ge", lo - const, i))
                if hi is not None:
                    rows.append((dict(cz), "le", hi - const, i))
        for zi, rhs in extra_rows:
            rows.append(({zi: F(1)}, "le", rhs, None))
        # slacks
        ncol = nz
        A, b, self.origin, self.sigma = [], [], [], []
        for cz, kind, rhs, origin in rows:
            row = dict(cz)
            if kind == "le":
                row[ncol] = F(1); ncol += 1
            elif kind == "ge":
                row[ncol] = F(-1); ncol += 1
            sg = 1
            if rhs < 0:
                sg = -1
                row = {k: -v for k, v in row.items()}
                rhs = -rhs
            A.append(row); b.append(rhs); self.origin.append(origin); self.sigma.append(sg)
        self.ncol = ncol
        self.A = [[r.get(k, ZERO) for k in range(ncol)] for r in A]
        self.b = b
        c = [ZERO] * ncol
        for j, cj in enumerate(lp["obj"]):
            if j < n:
                for zi, s in self.zmap[j]:
                    c[zi] += cj * s
        self.c = c

    def x_of_z(self, z):
        return [self.shift[j] + sum(s * z[zi] for zi, s in self.zmap[j]) for j in range(self.n)]

    def ray_x(self, rz):
        return [sum(s * rz[zi] for zi, s in self.zmap[j]) for j in range(self.n)]

    def y_rows(self, ystd, nrows):
        y = [ZERO] * nrows
        for k, o in enumerate(self.origin):
            if o is not None:
                y[o] += self.sigma[k] * ystd[k]
        return y


def _solve_lin(M, rhs):
    """Solve M u = rhs exactly (M square, invertible)."""
    n = len(M)
    a = [list(M[i]) + [rhs[i]] for i in range(n)]
    for col in range(n):
        piv = next(r for r in range(col, n) if a[r][col] != 0)
        a[col], a[piv] = a[piv], a[col]
        pv = a[col][col]
        a[col] = [v / pv for v in a[col]]
        for r in range(n):
            if r != col and a[r][col] != 0:
                f = a[r][col]
                a[r] = [v - f * w for v, w in zip(a[r], a[col])]
    return [a[i][n] for i in range(n)]


def _simplex(T, basis, cost, allowed, max_iter=20000):
    """Tableau simplex (maximise), Bland's rule.  T: m rows of [coefs..., rhs], kept in canonical
    form w.r.t. `basis`.  Returns ("optimal", None) or ("unbounded", entering column)."""
    m = len(T)
    ncol = len(T[0]) - 1
    for _ in range(max_iter):
        # reduced costs r_j = c_j - c_B . column_j
        enter = None
        for j in range(ncol):
            if not allowed[j] or j in basis:
                continue
            rj = cost[j] - sum((cost[basis[i]] * T[i][j] for i in range(m) if T[i][j] != 0), ZERO)
            if rj > 0:
                enter = j
                break
        if enter is None:
            return "optimal", None
        best, leave = None, None
        for i in range(m):
            if T[i][enter] > 0:
                ratio = T[i][ncol] / T[i][enter]
                if best is None or ratio < best or (ratio == best and basis[i] < basis[leave]):
                    best, leave = ratio, i
        if leave is None:
            return "unbounded", enter
        pv = T[leave][enter]
        T[leave] = [v / pv for v in T[leave]]
        for i in range(m):
            if i != leave and T[i][enter] != 0:
                f = T[i][enter]
                T[i] = [v - f * w for v, w in zip(T[i], T[leave])]
        basis[leave] = enter
    raise RuntimeError("simplex iteration limit")


def solve(lp):
    S = _Std(lp)
    m, ncol = len(S.A), S.ncol
    nrows = len(lp["rows"])
    if m == 0:
        # only bounds: optimise each variable separately
        z = [ZERO] * ncol
        for j in range(ncol):
            if S.c[j] > 0:
                rz = [ZERO] * ncol; rz[j] = F(1)
                return "unbounded", S.x_of_z(z), S.ray_x(rz)
        return "optimal", S.x_of_z(z), [ZERO] * nrows
    # phase 1
    tot = ncol + m
    T = [S.A[i] + [F(1) if k == i else ZERO for k in range(m)] + [S.b[i]] for i in range(m)]
    basis = [ncol + i for i in range(m)]
    cost1 = [ZERO] * ncol + [F(-1)] * m
    allowed = [True] * tot
    st, _ = _simplex(T, basis, cost1, allowed)
    assert st == "optimal"
    Acols = lambda j: [S.A[i][j] if j < ncol else (F(1) if j - ncol == i else ZERO) for i in range(m)]  # noqa

    def duals(cost):
        Bt = [[Acols(basis[k])[i] for i in range(m)] for k in range(m)]   # row k = column basis[k]
        return _solve_lin(Bt, [cost[basis[k]] for k in range(m)])
    w = sum((cost1[basis[i]] * T[i][tot] for i in range(m)), ZERO)
    if w < 0:
        y1 = duals(cost1)
        # Farkas: y1.A_j >= 0 for structural j, y1.b = w < 0.  As multipliers of an upper bound of 0.x:
        ys = S.y_rows(y1, nrows)
        return "infeasible", ys
    # drive artificials out of the basis where possible, forbid them from entering
    for i in range(m):
        if basis[i] >= ncol:
            j = next((j for j in range(ncol) if T[i][j] != 0 and j not in basis), None)
            if j is not None:
                pv = T[i][j]
                T[i] = [v / pv for v in T[i]]
                for r in range(m):
                    if r != i and T[r][j] != 0:
                        f = T[r][j]
                        T[r] = [v - f * w_ for v, w_ in zip(T[r], T[i])]
                basis[i] = j
    allowed = [True] * ncol + [False] * m
    cost2 = S.c + [ZERO] * m
    st, enter = _simplex(T, basis, cost2, allowed)
    z = [ZERO] * tot
    for i in range(m):
        z[basis[i]] = T[i][tot]
    x = S.x_of_z(z[:ncol])
    if st == "unbounded":
        rz = [ZERO] * tot
        rz[enter] = F(1)
        for i in range(m):
            rz[basis[i]] = -T[i][enter]
        return "unbounded", x, S.ray_x(rz[:ncol])
    y = duals(cost2)
    return "optimal", x, S.y_rows(y, nrows)


def certified(lp):
    """solve + self-check with the replica; returns the verdict tuple or ("unknown", reason)."""
    try:
        r = solve(lp)
    except Exception as e:  # noqa
        return ("unknown", "solver exception %s: %s" % (type(e).__name__, e))
    if r[0] == "optimal":
        if check_opt(lp, r[1], r[2]):
            return r
        if check_opt(lp, r[1], [-v for v in r[2]]):
            return ("optimal", r[1], [-v for v in r[2]])
    elif r[0] == "infeasible":
        if check_infeasible(lp, r[1]):
            return r
        if check_infeasible(lp, [-v for v in r[1]]):
            return ("infeasible", [-v for v in r[1]])
    elif r[0] == "unbounded":
        if check_unbounded(lp, r[1], r[2]):
            return r
    return ("unknown", "certificate rejected by the replica checker: %s" % (r[0],))


def maximize(lp, obj):
    q = dict(lp); q["obj"] = list(obj)
    return certified(q)


def minimize(lp, obj):
    q = dict(lp); q["obj"] = [-c for c in obj]
    return certified(q)
