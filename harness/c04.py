"""C04 — FBA returns a true optimum or a true verdict.

Implementation side: Model.optimize(), slim_optimize() (three error_value modes), the raw optlang values
(primal values, reduced costs, shadow prices, status, objective value) and the per-object accessors.
Model side (coq/theories/Optimize): get_solution / slim_optimize applied to the raw values, the exact
oracle's certificate checked by the proved checkers of LP/Cert.v, and the property monitor."""
import math
import os
import sys
import warnings
from fractions import Fraction as F

sys.path.insert(0, os.path.dirname(os.path.abspath(__file__)))
import common as K  # noqa: E402
import gennet  # noqa: E402
import lpexact  # noqa: E402
import lpcheck  # noqa: E402

sys.path.insert(0, os.path.join(K.REPO, "src"))

PROP = "C04"
EXTRA_TARGETS = ["theories/Optimize/Check.vo"]
HEADER = """From Coq Require Import QArith List Bool ZArith.
From Cobra.LP Require Import Defs Fba.
From Cobra.Optimize Require Import Model Check.
Import ListNotations.
Open Scope Q_scope."""
CASE_TYPE = "c04case"
CODES = {1: "model of get_solution/slim_optimize and implementation differ on the raw solver values",
         2: "solver status contradicts the exact verdict (optimal / infeasible / unbounded)",
         3: "reported objective value is not the true optimum",
         4: "returned fluxes violate steady state or a flux bound beyond tolerance",
         5: "objective value differs from the objective evaluated at the returned fluxes",
         6: "shadow prices do not certify the optimum (complementary slackness fails)",
         7: "reduced costs differ from objective coefficient minus stoichiometry-weighted shadow prices",
         8: "slim_optimize value / error value / exception does not match the true verdict",
         9: "exact oracle certificate rejected (harness fault)",
         10: "reaction.flux / reduced_cost / metabolite.shadow_price differ from the Solution",
         11: "a returned Solution changed after later edits / optimisations",
         12: "the objective coefficients the model reports (Reaction.objective_coefficient) are not the objective that was "
             "set and that the solver optimises: objective value and reduced costs are then statements about another "
             "objective"}
THEOREMS = ("C04_optimize_sound, C04_reduced_costs, C04_slim_error_value, C04_certificates, "
            "C04_shadow_prices_certify (coq/theories/Properties/C04.v)")
RULE = ("random stoichiometric networks (harness/gennet.py: 2-6 metabolites, 3-9 reactions from motifs, bounds incl. "
        "fixed/forced/one-sided/infinite, 1-2 objective coefficients, max/min) x solver interface; non-trivial = the "
        "network has at least one reaction with a non-zero objective coefficient and the case was executed on both sides; "
        "distinct = distinct (network, interface)")
TRUSTED = ["GLPK / optlang are validated per instance against the certificate-checked exact optimum, not proved",
           "harness/lpexact.py only searches for certificates; coq/theories/LP/Cert.v decides them",
           "floating point: values compared within 1e-6*max(1,|x|) (DESIGN 2.3)"]
ASSUMPTIONS = ["GLPK's simplex is not verified: its answer is validated on every explored instance",
               "IEEE rounding inside GLPK is bounded by the stated tolerance, not modelled"]
SHARD = 40

STATUS = {"optimal": "Optimal", "infeasible": "Infeasible", "unbounded": "Unbounded", "undefined": "Undefined",
          "feasible": "FeasibleSt"}
EXN = {"Infeasible": "ExInfeasible", "Unbounded": "ExUnbounded", "FeasibleButNotOptimal": "ExFeasibleButNotOptimal",
       "UndefinedSolution": "ExUndefinedSolution", "OptimizationError": "ExOptimizationError"}


def qf(x):
    if x is None or (isinstance(x, float) and (math.isnan(x) or math.isinf(x))):
        return None
    return F(float(x))


def vec(xs):
    return "[" + "; ".join(gennet.q(x) for x in xs) + "]"


EVS = [-7.0, 0.0, 0, False, -7.0]      # caller-supplied error values, incl. falsy ones (case["ev"] selects)


def slimobs(m, **kw):
    try:
        with warnings.catch_warnings():
            warnings.simplefilter("ignore")
            v = m.slim_optimize(**kw)
    except Exception as e:  # noqa
        n = type(e).__name__
        return "(SExc %s)" % EXN[n] if n in EXN else "SOther", n
    if isinstance(v, float) and math.isnan(v):
        return "SNan", "nan"
    q = qf(v)
    if q is None:
        return "SOther", repr(v)
    return "(SVal %s)" % gennet.q(q), float(v)


def gen_cases(rng, tier):
    n = 400 if tier == "quick" else 6000
    cases = []
    for k in range(n):
        # every fourth network: many infinite bounds (unbounded problems), every fifth: many forced fluxes
        net = gennet.gen_network(rng, inf_p=0.6 if k % 4 == 0 else 0.15, forced_p=0.3 if k % 5 == 0 else 0.08)
        for solver in ("glpk", "glpk_exact"):
            cases.append({"net": net, "solver": solver, "ev": k})
    return cases


def case_term(case):
    import numpy as np
    net, solver = case["net"], case["solver"]
    lp = gennet.net_lp(net)
    o = lpexact.certified(lp)
    if o[0] == "optimal":
        oracle = "(OOpt %s %s)" % (vec(o[1]), vec(o[2]))
    elif o[0] == "infeasible":
        oracle = "(OInf %s)" % vec(o[1])
    elif o[0] == "unbounded":
        oracle = "(OUnb %s %s)" % (vec(o[1]), vec(o[2]))
    else:
        oracle = "(OInf [])"          # will be rejected by the Coq checker -> code 9
    m = gennet.to_cobra(net, solver)
    obs = {}
    with warnings.catch_warnings():
        warnings.simplefilter("ignore")
        try:
            sol = m.optimize()
            exc = None
        except Exception as e:  # noqa
            sol, exc = None, type(e).__name__
    st = m.solver.status
    obs["status"], obs["optimize_exception"] = st, exc
    optimal = st == "optimal"
    rxns = [m.reactions.get_by_id(r["id"]) for r in net["rxns"]]
    mets = [m.metabolites.get_by_id(i) for i in net["mets"]]
    if optimal:
        pv, rc, sp = m.solver.primal_values, m.solver.reduced_costs, m.solver.shadow_prices
        raw = "(mkSR %s %s [%s] [%s] %s)" % (
            STATUS.get(st, "OtherSt"), gennet.q(qf(m.solver.objective.value)),
            "; ".join("(%s, %s)" % (gennet.q(qf(pv[r.id])), gennet.q(qf(pv[r.reverse_id]))) for r in rxns),
            "; ".join("(%s, %s)" % (gennet.q(qf(rc[r.id])), gennet.q(qf(rc[r.reverse_id]))) for r in rxns),
            vec([qf(sp[x.id]) for x in mets]))
    else:
        raw = "(mkSR %s 0 [] [] [])" % STATUS.get(st, "OtherSt")
    acc_ok, snap_ok = True, True
    if sol is None:
        solt = "None"
    elif sol.status == "optimal":
        solt = "(Some (mkSol %s %s %s %s %s))" % (
            STATUS.get(sol.status, "OtherSt"), gennet.q(qf(sol.objective_value)),
            vec([qf(sol.fluxes[r.id]) for r in rxns]), vec([qf(sol.reduced_costs[r.id]) for r in rxns]),
            vec([qf(sol.shadow_prices[x.id]) for x in mets]))
        obs["objective_value"] = sol.objective_value
        obs["fluxes"] = {r.id: sol.fluxes[r.id] for r in rxns}
        obs["reduced_costs"] = {r.id: sol.reduced_costs[r.id] for r in rxns}
        obs["shadow_prices"] = {x.id: sol.shadow_prices[x.id] for x in mets}
        # accessors read the same solver state
        for r in rxns:
            if r.flux != sol.fluxes[r.id] or r.reduced_cost != sol.reduced_costs[r.id]:
                acc_ok = False
        for x in mets:
            if x.shadow_price != sol.shadow_prices[x.id]:
                acc_ok = False
        if list(sol.fluxes.index) != [r.id for r in m.reactions] or \
                list(sol.shadow_prices.index) != [x.id for x in m.metabolites]:
            acc_ok = False
    else:
        solt = "(Some (mkSol %s 0 [] [] []))" % STATUS.get(sol.status, "OtherSt")
    s_def, o1 = slimobs(m)
    ev = EVS[case.get("ev", 0) % len(EVS)]
    s_ev, o2 = slimobs(m, error_value=ev)
    s_none, o3 = slimobs(m, error_value=None)
    obs["slim_optimize"] = {"default": o1, "error_value=%r" % (ev,): o2, "error_value=None": o3}
    if sol is not None and sol.status == "optimal":
        # snapshot: later edits and optimisations must not alter the Solution already returned
        before = (sol.objective_value, sol.status, sol.fluxes.copy(), sol.reduced_costs.copy(), sol.shadow_prices.copy())
        with warnings.catch_warnings():
            warnings.simplefilter("ignore")
            for r in rxns:
                if r.upper_bound > 0 and r.upper_bound > r.lower_bound:
                    new = r.upper_bound / 2 if not math.isinf(r.upper_bound) else 3.0
                    r.upper_bound = max(new, r.lower_bound)
                    break
            m.objective_direction = "min" if m.objective_direction == "max" else "max"
            try:
                m.optimize()
            except Exception:
                pass
            m.slim_optimize()
        same = (before[0] == sol.objective_value and before[1] == sol.status and
                np.array_equal(before[2].values, sol.fluxes.values) and
                np.array_equal(before[3].values, sol.reduced_costs.values) and
                np.array_equal(before[4].values, sol.shadow_prices.values))
        snap_ok = bool(same)
    term = "(mkCase %s %s %s %s %s %s %s %s %s %s)" % (
        gennet.coq_net(net), oracle, raw, solt, s_def, gennet.q(F(float(ev))), s_ev, s_none,
        "true" if acc_ok else "false", "true" if snap_ok else "false")
    has_obj = any(F(r["obj"]) != 0 for r in net["rxns"])
    reported = {r["id"]: float(m.reactions.get_by_id(r["id"]).objective_coefficient) for r in net["rxns"]}
    wanted = {r["id"]: float(F(r["obj"])) for r in net["rxns"]}
    py = []
    if reported != wanted:
        py = [12]
        obs["objective_reported"], obs["objective_set"] = reported, wanted
    return term, {"obs": obs, "nontrivial": has_obj, "py_codes": py,
                  "stats": {"verdict": o[0], "solver": solver, "n_rxns": len(net["rxns"]), "dir": net["dir"],
                            "status": st}}


def signature(case, codes):
    return {"codes": [c for c in codes if c != 9]}


if __name__ == "__main__":
    sys.exit(lpcheck.main(sys.modules[__name__]))
