"""Tables for C06: the default-threshold factor of find_essential_genes / find_essential_reactions (variability.py)."""
import ast
from fractions import Fraction
from tables_lib import section, parse, Abort


def _factor(tree, fname):
    for node in ast.walk(tree):
        if isinstance(node, ast.FunctionDef) and node.name == fname:
            # if threshold is None: threshold = model.slim_optimize(error_value=None) * <const>
            for st in node.body:
                if isinstance(st, ast.If) and isinstance(st.test, ast.Compare) and isinstance(st.test.left, ast.Name) \
                        and st.test.left.id == "threshold" and len(st.body) == 1 and isinstance(st.body[0], ast.Assign):
                    v = st.body[0].value
                    if isinstance(v, ast.BinOp) and isinstance(v.op, ast.Mult) and isinstance(v.right, ast.Constant) \
                            and isinstance(v.left, ast.Call) and isinstance(v.left.func, ast.Attribute) \
                            and v.left.func.attr == "slim_optimize" \
                            and [k.arg for k in v.left.keywords] == ["error_value"] \
                            and isinstance(v.left.keywords[0].value, ast.Constant) \
                            and v.left.keywords[0].value.value is None:
                        return Fraction(str(v.right.value))
            raise Abort("%s: default threshold statement not recognised" % fname)
    raise Abort("%s not found" % fname)


@section("DelTables")
def del_tables(repo):
    tree, _ = parse(repo, "flux_analysis/variability.py")
    fg = _factor(tree, "find_essential_genes")
    fr = _factor(tree, "find_essential_reactions")
    if fg != fr:
        raise Abort("find_essential_genes and find_essential_reactions use different default factors")
    return ("From Coq Require Import QArith.\n"
            "Definition essential_factor : Q := (%d # %d)%%Q.\n" % (fg.numerator, fg.denominator))
