"""C19 — blocked-reaction and consistency analyses agree with the true flux ranges.

Implementation side: cobra.flux_analysis.find_blocked_reactions (reaction_list, open_exchanges) and fastcc on
generated networks whose bounds include zero (dead ends, isolated cycles, blocked branches, reversible objective
reactions).  Model side (coq/theories/Blocked): exact minimum / maximum flux of every reaction over the whole polytope,
certified through the proved FVA formulation of the zero-objective model at fraction 0; a reaction is blocked iff both
are 0.  With dyadic data an extreme is either 0 or far from the cut-off (envelope rule: a case with an extreme in
(0, 1e-5) is skipped and counted)."""
import os
import sys
import warnings
from fractions import Fraction as F

sys.path.insert(0, os.path.dirname(os.path.abspath(__file__)))
import common as K  # noqa: E402
import gennet  # noqa: E402
import lpexact  # noqa: E402
import lpcheck_fva  # noqa: E402
import c05  # noqa: E402  (the problems of coq/theories/FVA/Model.v, in Python, for the certificate search)

sys.path.insert(0, os.path.join(K.REPO, "src"))

PROP = "C19"
EXTRA_TARGETS = ["theories/Blocked/Check.vo"]
HEADER = """From Coq Require Import QArith List Bool ZArith.
From Cobra.LP Require Import Defs Fba.
From Cobra.FVA Require Import Model Check.
From Cobra.Blocked Require Import Model Check.
Import ListNotations.
Open Scope Q_scope."""
CASE_TYPE = "c19case"
CODES = {1: "find_blocked_reactions returns the right set but not in request order / with ids outside reaction_list",
         2: "find_blocked_reactions reports a reaction as blocked that carries non-zero flux in some steady-state "
            "distribution within the bounds",
         3: "find_blocked_reactions misses a requested reaction that carries zero flux in every distribution",
         4: "fastcc keeps a reaction that is blocked (no feasible distribution with non-zero flux through it)",
         5: "fastcc drops a reaction that is not blocked",
         15: "fastcc drops a reaction that is not blocked, in a model without any reversible reaction (where the loop "
             "over the remaining reactions provably finds every unblocked reaction)",
         6: "fastcc's result is not the input minus the dropped reactions with kept reactions unchanged "
            "(ids / stoichiometry / bounds / gene rule), or the input model was modified",
         7: "the model returned by fastcc contains a blocked reaction",
         8: "find_blocked_reactions raised",
         9: "exact oracle certificate rejected / ill-conditioned range (harness fault)"}
THEOREMS = ("C19_blocked_spec, C19_blocked_cutoff_spec, C19_zero_objective_scope, C19_fastcc_sound, C19_fastcc_keeps, "
            "C19_witness_sound (coq/theories/Properties/C19.v)")
RULE = ("random networks (harness/gennet.py, finite bounds, every bound interval forced to contain 0; dead ends, isolated "
        "cycles, blocked branches from closed bounds, reversible objective reactions, negative objective coefficients, "
        "max and min) x reaction_list (None / subset in shuffled order, ids or objects) x open_exchanges x processes x "
        "solver; fastcc on the cases with open_exchanges off; non-trivial = the network has at least one blocked and one "
        "unblocked reaction; distinct = distinct case dictionaries")
TRUSTED = ["GLPK / optlang are validated per instance against the certificate-checked exact ranges, not proved",
           "harness/lpexact.py only searches for certificates; coq/theories/LP/Cert.v decides them",
           "model.exchanges (heuristic over ids / compartments / SBO terms) is taken from the implementation as data",
           "the exact blocked set of the model returned by fastcc is computed in Python with exact rationals"]
ASSUMPTIONS = ["GLPK's simplex is not verified: its answers are validated on every explored instance",
               "zero_cutoff: exact extremes are 0 or >= 1e-5 in magnitude on the generated (dyadic) data; other cases are "
               "skipped and counted",
               "fastcc completeness is validated against the exact ranges only (no theorem)"]
SHARD = 25
ZERO = F(0)


def zero_obj_in_source():
    """does find_blocked_reactions zero the objective before the FVA? (same reading as harness/tables_blocked.py)"""
    import ast
    src = open(os.path.join(K.REPO, "src", "cobra", "flux_analysis", "variability.py")).read()
    for fn in ast.parse(src).body:
        if isinstance(fn, ast.FunctionDef) and fn.name == "find_blocked_reactions":
            for n in ast.walk(fn):
                if isinstance(n, ast.Assign) and isinstance(n.targets[0], ast.Attribute) \
                        and n.targets[0].attr == "objective":
                    return True
    return False


def include_zero(net):
    for r in net["rxns"]:
        lb, ub = gennet.num(r["lb"]), gennet.num(r["ub"])
        if lb is not None and lb > 0:
            r["lb"] = "0"
        if ub is not None and ub < 0:
            r["ub"] = "0"
    return net


def gen_cases(rng, tier):
    n = 200 if tier == "quick" else 4000
    cases = []
    for k in range(n):
        net = include_zero(gennet.gen_network(rng, finite_only=True, forced_p=0.0))
        # closed bounds make blocked branches; reversible / negative objective reactions give the objective a sign
        for r in net["rxns"]:
            if rng.random() < 0.12:
                r["lb"], r["ub"] = "0", "0"
            elif rng.random() < 0.1:
                r["ub"] = "0"
        if k % 3 == 0:
            cand = [r for r in net["rxns"] if gennet.num(r["lb"]) < 0]
            if cand:
                for r in net["rxns"]:
                    r["obj"] = "0"
                rng.choice(cand)["obj"] = rng.choice(["1", "-1", "2"])
        if k % 4 == 1:
            # no reversible reaction, mostly small capacities (comparable to fastcc's flux_threshold = 1): branches compete
            # for the flux of a tight source, so the first LP cannot activate every unblocked reaction at once
            for r in net["rxns"]:
                lb, ub = gennet.num(r["lb"]), gennet.num(r["ub"])
                cap = rng.choice(["1", "1", "2", "5", "1000"])
                if lb < 0 < ub:
                    if rng.random() < 0.75:
                        r["lb"], r["ub"] = "0", cap
                    else:
                        r["lb"], r["ub"] = "-" + cap, "0"
                elif rng.random() < 0.6:
                    if ub > 0:
                        r["ub"] = cap
                    elif lb < 0:
                        r["lb"] = "-" + cap
        if k % 3 == 1:
            # exchange identifiers that contain an exclusion fragment of the boundary-type heuristic in ANOTHER letter case
            # ("asn_" ~ "SN_", "cdm_" ~ "DM_"): they are exchanges, open_exchanges must open them
            for r in net["rxns"]:
                if r["id"].startswith("EX_") and rng.random() < 0.6:
                    r["id"] = r["id"].replace("EX_", rng.choice(["EX_asn_", "EX_cdm_"]), 1)
                    if rng.random() < 0.5:
                        r["lb"], r["ub"] = "0", "0"          # closed: only open_exchanges lets it carry flux
        for r in net["rxns"]:
            if r["ub"] == "0" and gennet.num(r["lb"]) < 0 and rng.random() < 0.3:
                r["lb"] = "-inf"           # backwards only, without a limit (cases with an unbounded range are skipped)
        ids = [r["id"] for r in net["rxns"]]
        if rng.random() < 0.5:
            sub = None
        else:
            sub = rng.sample(ids, rng.randrange(1, len(ids) + 1))
        if k % 12 == 3:
            sub = []                   # an empty request: nothing is asked for, nothing is reported
        open_ex = rng.random() < 0.3 and k % 4 != 1
        cases.append({"net": net, "solver": "glpk_exact" if k % 6 == 5 else "glpk", "rxn_list": sub,
                      "objects": rng.random() < 0.5, "open": open_ex, "processes": 2 if k % 10 == 7 else 1,
                      "fastcc": not open_ex})
    return cases


def opened_net(net, exch_ids):
    import copy
    n2 = copy.deepcopy(net)
    for r in n2["rxns"]:
        if r["id"] in exch_ids:
            lb, ub = gennet.num(r["lb"]), gennet.num(r["ub"])
            r["lb"] = gennet.show(None if lb is None else min(lb, F(-1000)), neg=True)
            r["ub"] = gennet.show(None if ub is None else max(ub, F(1000)))
    return n2


def zero_obj_net(net):
    import copy
    n2 = copy.deepcopy(net)
    for r in n2["rxns"]:
        r["obj"] = "0"
    n2["dir"] = "max"
    return n2


def exact_ranges(net):
    """certificates + exact (min, max) of every reaction over the polytope of `net` (zero objective, fraction 0)"""
    n0 = zero_obj_net(net)
    certs, vals, wit = [], [], []
    for j in range(len(net["rxns"])):
        pair, v, w = [], [], []
        for want_max in (False, True):
            r = lpexact.certified(c05.fva_lp(n0, ZERO, None, j, want_max))
            if r[0] != "optimal":
                return None
            pair.append("ROpt %s %s" % (c05.vec(r[1]), c05.vec(r[2])))
            nets = [r[1][2 * i] - r[1][2 * i + 1] for i in range(len(net["rxns"]))]
            v.append(nets[j])
            w.append(nets)
        certs.append("(%s, %s)" % tuple(pair))
        vals.append(tuple(v))
        wit.append(w)
    return certs, vals, wit


def same_reaction(a, b):
    return (a.id == b.id and {m.id: c for m, c in a.metabolites.items()} == {m.id: c for m, c in b.metabolites.items()}
            and a.bounds == b.bounds and a.gene_reaction_rule == b.gene_reaction_rule)


def case_term(case):
    from cobra.flux_analysis import find_blocked_reactions, fastcc
    net = case["net"]
    pos = {r["id"]: i for i, r in enumerate(net["rxns"])}
    m = gennet.to_cobra(net, case["solver"])
    with warnings.catch_warnings():
        warnings.simplefilter("ignore")
        impl_exch = {r.id for r in m.exchanges}
    # the exchanges as documented, decided without the implementation's classifier: one metabolite, in the external
    # compartment (the generated networks name it "e"), identifier without an exclusion fragment (case-sensitive)
    from cobra.medium.annotations import excludes
    exch = {r["id"] for r in net["rxns"]
            if len(r["st"]) == 1 and list(r["st"])[0].endswith("_e") and not any(f in r["id"] for f in excludes["exchange"])}
    net2 = opened_net(net, exch) if case["open"] else net
    er = exact_ranges(net2)
    if er is None:
        return None, {"skipped": True, "stats": {"verdict": "unbounded range"}}
    certs, vals, wit = er
    if any(0 < abs(x) < F(1, 100000) for v in vals for x in v):
        return None, {"skipped": True, "stats": {"verdict": "ill-conditioned"}}
    ids_all = [r["id"] for r in net["rxns"]]
    sub = case["rxn_list"]
    L = ids_all if sub is None else sub
    rl = None if sub is None else ([m.reactions.get_by_id(i) for i in sub] if case["objects"] else list(sub))
    before = {r.id: (dict((x.id, c) for x, c in r.metabolites.items()), r.bounds, r.gene_reaction_rule)
              for r in m.reactions}
    try:
        with warnings.catch_warnings():
            warnings.simplefilter("ignore")
            res = find_blocked_reactions(m, reaction_list=rl, open_exchanges=case["open"], processes=case["processes"])
        res_ids = [r if isinstance(r, str) else r.id for r in res]
        impl = "(Some [%s])" % "; ".join("%d%%nat" % pos[i] for i in res_ids)
        obs = {"blocked": res_ids}
    except Exception as e:  # noqa
        impl = "None"
        obs = {"raised": "%s: %s" % (type(e).__name__, e)}
    fast = "None"
    if case.get("fastcc") and not case["open"]:
        m2 = gennet.to_cobra(net, case["solver"])
        try:
            with warnings.catch_warnings():
                warnings.simplefilter("ignore")
                cm = fastcc(m2)
            kept_ids = [r.id for r in cm.reactions]
            keep = [i in set(kept_ids) for i in ids_all]
            same = kept_ids == [i for i in ids_all if i in set(kept_ids)] and cm is not m2
            for r in cm.reactions:
                same = same and same_reaction(r, m2.reactions.get_by_id(r.id)) and r.model is cm
            after = {r.id: (dict((x.id, c) for x, c in r.metabolites.items()), r.bounds, r.gene_reaction_rule)
                     for r in m2.reactions}
            same = same and after == before and [r.id for r in m2.reactions] == ids_all
            witnesses = []
            for i, k in zip(ids_all, keep):
                j = pos[i]
                if k:
                    lo, hi = vals[j]
                    if hi != 0:
                        witnesses.append("(%d%%nat, %s)" % (j, c05.vec(wit[j][1])))
                    elif lo != 0:
                        witnesses.append("(%d%%nat, %s)" % (j, c05.vec(wit[j][0])))
            # exact analysis of the returned network
            sub_net = {"mets": net["mets"], "rxns": [r for r in net["rxns"] if r["id"] in set(kept_ids)],
                       "dir": net["dir"], "genes": net.get("genes", [])}
            clean = True
            if sub_net["rxns"]:
                er2 = exact_ranges(sub_net)
                clean = er2 is not None and all(v[0] != 0 or v[1] != 0 for v in er2[1])
            fast = "(Some (mkFast [%s] %s [%s] %s))" % (
                "; ".join("true" if k else "false" for k in keep), "true" if same else "false",
                "; ".join(witnesses), "true" if clean else "false")
            obs["fastcc_kept"] = kept_ids
        except Exception as e:  # noqa
            fast = "(Some (mkFast [] false [] false))"
            obs["fastcc_raised"] = "%s: %s" % (type(e).__name__, e)
    term = "(mkC19 %s [%s] %s [%s] [%s] %s %s)" % (
        gennet.coq_net(net), "; ".join("true" if i in exch else "false" for i in ids_all),
        "true" if case["open"] else "false", "; ".join("%d%%nat" % pos[i] for i in L), "; ".join(certs), impl, fast)
    nb = sum(1 for v in vals if v[0] == 0 and v[1] == 0)
    obs["exact_blocked"] = [i for i, v in zip(ids_all, vals) if v[0] == 0 and v[1] == 0]
    obs["exchanges_documented"], obs["exchanges_implementation"] = sorted(exch), sorted(impl_exch)
    return term, {"obs": obs, "nontrivial": 0 < nb < len(vals),
                  "stats": {"solver": case["solver"], "open_exchanges": case["open"], "reaction_list": "all" if sub is None
                            else ("objects" if case["objects"] else "ids"), "processes": case["processes"],
                            "n_blocked": nb, "n_rxns": len(vals), "dir": net["dir"],
                            "objective_zeroed_in_source": zero_obj_in_source(), "fastcc": fast != "None",
                            "no_reversible_reaction": all(not ((r["lb"] == "-inf" or gennet.num(r["lb"]) < 0) and 0 < gennet.num(r["ub"]))
                                                          for r in net["rxns"])}}


def signature(case, codes):
    return {"codes": [c for c in codes if c != 9]}


if __name__ == "__main__":
    sys.exit(lpcheck_fva.main(sys.modules[__name__]))
